"""C02 Combinators emit exactly the right combinations, whatever the arrival order.

Clauses decided (necessary conditions of the multiset-of-combinations property):
R1 cartesian product: in every `combine` that calls `self._product`, each `_product` call is dominated by
   `_add_to_list` (P2) with the right operands (token / inner schema, port / inner combinator name, own
   depth / propagate flag), is evaluated for the arriving (port, token) and every schema it produces is
   yielded; `CartesianProductCombinator._product` keys on the tag minus `depth` components, is guarded by
   `len(self._token_values[tag]) == len(self.items)` (branch facts: the product lies in the region reached only through the
   edge of a dominating test that implies the equality -- nested `if`, guard clause, `!=`, conjunction, flag local; an operand
   held in a temporary `n = len(...)` is read through its single reaching definition, provided nothing between the assignment
   and the test can change it: `_fresh_temp` -- a stale, re-bound or foreign temporary is not resolved and the rule fires), builds the product with the arriving port replaced by
   the singleton `[token]` and every other port by its full list, yields once per combination and retags with
   <own prefix> + <last component of every member>; `_add_to_port` refuses a token whose tag is already
   present (loop with early exit or `any` / `all` over the port list; the port list is `tag_values[port]` or
   `tag_values.setdefault(port, <empty container>)`, directly or through a local); wiring: `add_combinator` / `get_combinator` / `utils.dict_product`.
   Order provenance (`_tag_order`, every Combinator subclass): a tag assembled from components (`'.'.join(seq)` handed to
   `retag` / `tag=`) must not take the ORDER of `seq` from the key order of `self._token_values` / `self._token_values[tag]`
   (dict insertion order = order in which tags / ports received their first token) -- followed through locals, copies,
   comprehensions, `utils.dict_product(**m)` entries and through the loops that fill a local container in place; in the
   cartesian product the order must be traceable to `self.items` (declaration order) or be fixed by the code.
R2 dot product (`DotProductCombinator._product`): all pending tags are scanned, emission only when the port
   map is complete (`==`, same branch-fact recogniser: no yield reachable within the iteration from the other edge), every port list loses exactly one element per emission (`pop`/`popleft`) and that
   element is stored in the schema under its own port key, the number of emissions is the minimum list length,
   emitted tokens are retagged with `get_tag` of the combination.  Every call examines every pending bucket (one arriving
   token can complete several buckets: a parent-tag token is broadcast by `_add_to_list` into every deeper bucket): the bucket
   loop cannot be left early (`break` / `return` = CFG path from the loop body to the exit that avoids the loop head), and no
   iteration bypasses its completeness test through a test on a loop-carried local (`if emitted: continue`).
R3 propagation (`Combinator._add_to_list`): tag of a schema via `get_tag`, `depth` trailing components stripped,
   both directions of `_is_parent_tag` handled with the right operands under `propagate`, the equal tag is
   skipped, the scan over the stored tags cannot be left early (`break` / `return`: the entries registered later would
   be treated differently from those registered earlier), the token is finally inserted under its own tag on every path;
   the base `_add_to_port` stores the token exactly once; `_is_parent_tag` compares component lists (`split('.')`), never raw strings
   (the returned comparison may sit in a result temporary: every definition of it must be the comparison).
R4 step drivers (`CombinatorStep.run`, `LoopCombinatorStep.run`): every token that is not a (iteration)
   termination token reaches `self.combinator.combine(task_name, token)`; every yielded schema is persisted
   and put on each of its ports (same port name for `put` and `_persist_token`, provenance = all input ids);
   the consumed port is re-armed after a combination.
R5 union discrimination: in every Combinator subclass a Token attribute (`.tag`, `.retag`, `.persistent_id`)
   read from a value that may be an inner-combinator schema (parameter annotated `Token | MutableMapping`,
   element of `_token_values[...]` / of a `MutableSequence[Any]` port list, entry of a mapping fed with such
   values) must be discriminated (`isinstance(x, MutableMapping)`, or `key in self.combinators` for the
   entry's own key).  Fires today on three variables: finding S11 (findings/S11_cartesian_nested_schema.py).

All rules of DESIGN section 3 (C02.R1-R5) are implemented.  Deliberately not constrained: LIFO vs FIFO removal
inside a port list (`pop()` / `pop(0)` / `popleft()` are all accepted -- DESIGN: undecided), the provenance ids
attached to the emitted schemas inside the combinators (C07), `utils.get_tag` itself (C33).
Not decided by the order-provenance check: the internal key order of ONE element taken out of a container (`config[key]`,
an inner-combinator schema merged with `schema |= ...`) -- it is whatever the inner combinator emitted (S11 territory);
the order in which combinations / ports are emitted (irrelevant for the multiset).
"""

from __future__ import annotations

import ast

from ..facts import atoms, region
from ..model import ancestors, dotted, parent, unparse, walk_no_nested
from ..selftest import V
from ._util_B import (
    all_origins,
    any_origin,
    arg_of,
    branch_succ,
    calls_in,
    is_len_of,
    is_name,
    is_param,
    is_self_attr,
    iter_base,
    loop_unconditional,
    map_view,
    method_call,
    node_calls,
    orig,
    self_call,
    split_dot,
    strip_cast,
    termination_subject,
    truth_if,
    whole,
    CHECK_ITERATION_TERMINATION,
    ITERATION_TERMINATION_TOKEN,
    class_test,
)

COMB = "streamflow.workflow.step.Combinator"
CART = "streamflow.workflow.combinator.CartesianProductCombinator"
DOT = "streamflow.workflow.combinator.DotProductCombinator"
CSTEP = "streamflow.workflow.step.CombinatorStep"
LSTEP = "streamflow.workflow.step.LoopCombinatorStep"
PARENT = "streamflow.workflow.step._is_parent_tag"
GET_TAG = "streamflow.core.utils.get_tag"
DICT_PRODUCT = "streamflow.core.utils.dict_product"
CFILE = "streamflow/workflow/combinator.py"
SFILE = "streamflow/workflow/step.py"

META = {
    "explanation": (
        "CFG dominance (add-before-product), operand identity through def-use, structural matching of the completeness "
        "guard / singleton substitution / consumption / retagging on the AST of the two _product generators, of "
        "_add_to_list/_is_parent_tag and of the two step drivers, plus a small intra-procedural taint analysis for values "
        "that may be inner-combinator schemas (R5). Decides necessary conditions only."
    ),
    "undecided": (
        "the multiset equality itself; LIFO vs FIFO choice inside a port list when several tokens share a tag; "
        "behaviour of LoopCombinator/LoopTerminationCombinator re-tagging (C06)"
    ),
    "assumptions": ["utils.dict_product is itertools.product over the keyword lists", "utils.get_tag returns the longest tag"],
}


def _tv(e) -> bool:
    return is_self_attr(e, "_token_values")


def _tv_at(e, key=None) -> bool:
    """`self._token_values[<key>]`"""
    return isinstance(e, ast.Subscript) and _tv(e.value) and (key is None or key(e.slice))


def _tv_alias(f, e) -> bool:
    """`self._token_values`, or a local every definition of which is `self._token_values` (the attribute is only mutated in
    place, never rebound, so the alias denotes the same dict)."""
    return _tv(e) or (isinstance(e, ast.Name) and all_origins(f, e, _tv))


def _tv_at_alias(f, e, key=None) -> bool:
    """`<self._token_values or alias>[<key>]`, or a local every definition of which is such a subscript."""
    def one(o):
        return isinstance(o, ast.Subscript) and not isinstance(o.slice, ast.Slice) and _tv_alias(f, o.value) and (key is None or key(o.slice))

    return one(e) or (isinstance(e, ast.Name) and all_origins(f, e, one))


PURE_BUILTINS = {"len", "str", "int", "repr", "bool", "isinstance", "id", "type"}


def _quiet_between(f, g, d_id, u_id, value) -> bool:
    """No CFG node that can execute between the definition node `d_id` and the use node `u_id` can change what `value`
    denotes: none suspends (await / yield: another task may file tokens), stores into / deletes an attribute or an item,
    re-binds a name read by `value`, calls a method of `self` or of a local object, or hands a local object (or `self`) to a call.
    Calls rooted at module-level names (`logger.debug(f'...')`) with constant / formatted / attribute-read arguments and
    pure builtins are allowed.  Conservative: anything else makes the temporary opaque (the caller's recogniser then fails)."""
    from ..dataflow import defs_of

    names = {x.id for x in ast.walk(value) if isinstance(x, ast.Name)}

    def local(name):
        return name == "self" or bool(defs_of(f, name))

    def root(x):
        while isinstance(x, (ast.Attribute, ast.Subscript)):
            x = x.value
        return x

    def bare_local(arg):
        for x in ast.walk(arg):
            if isinstance(x, ast.Name) and local(x.id):
                par = parent(x)
                if isinstance(par, ast.Attribute) and par.value is x and not isinstance(parent(par), ast.Call):
                    continue  # `self.name`: an attribute read
                if any(isinstance(a, ast.FormattedValue) for a in ancestors(x)):
                    continue
                return True
        return False

    fwd = g.reach([d_id], avoid=[u_id]) - {d_id, u_id}
    between = [n for n in fwd if g.path(n, [u_id], avoid=[d_id]) is not None]
    for nid in between:
        for x in g.nodes[nid].walk():
            if isinstance(x, (ast.Await, ast.Yield, ast.YieldFrom)):
                return False
            if isinstance(x, (ast.Attribute, ast.Subscript)) and isinstance(x.ctx, (ast.Store, ast.Del)):
                return False
            if isinstance(x, ast.Name) and isinstance(x.ctx, (ast.Store, ast.Del)) and x.id in names:
                return False
            if isinstance(x, ast.Call):
                r = root(x.func)
                if isinstance(x.func, ast.Name) and x.func.id in PURE_BUILTINS and not local(x.func.id):
                    continue
                if not isinstance(r, ast.Name) or local(r.id):
                    return False
                if any(bare_local(a) for a in list(x.args) + [k.value for k in x.keywords]):
                    return False
    return True


def _fresh_temp(f, x, depth=3):
    """An operand of a test read through its reaching definition (`n = len(m); if n == ...` for `if len(m) == ...`): a local
    with exactly one reaching definition -- a plain, un-indexed assignment whose node dominates the use -- denotes the assigned
    expression, provided nothing between the assignment and the use can change its value (`_quiet_between`).  Any other
    operand is returned unchanged: a stale / ambiguous temporary is NOT resolved, so the recogniser that needed it fails."""
    from ..dataflow import reaching_defs

    g = f.cfg
    while depth and isinstance(x, ast.Name):
        ds = reaching_defs(f, x.id, x)
        if len(ds) != 1 or ds[0].kind != "assign" or ds[0].index is not None or ds[0].stmt is None or ds[0].value is None:
            break
        dn, un = g.ids_of(ds[0].stmt), g.node_containing(x)
        if len(dn) != 1 or len(un) != 1 or dn[0] == un[0] or not g.dominates(dn[0], un[0]):
            break
        v = strip_cast(ds[0].value)
        if isinstance(ds[0].value, ast.Await) or not _quiet_between(f, g, dn[0], un[0], v):
            break
        x, depth = v, depth - 1
    return x


def _len_items_cmp(f, e, tag_pred) -> bool:
    """`e` compares `len(self._token_values[<tag>])` with `len(self.items)` (either order, any single operator; the port
    map may be held in a local)."""
    if not (isinstance(e, ast.Compare) and len(e.ops) == 1):
        return False
    a, b = _fresh_temp(f, e.left), _fresh_temp(f, e.comparators[0])

    def is_tv(x):
        return is_len_of(x, lambda y: any_origin(f, y, lambda o: _tv_at(o, tag_pred)))

    def is_items(x):
        return is_len_of(x, lambda y: is_self_attr(y, "items"))

    return (is_tv(a) and is_items(b)) or (is_items(a) and is_tv(b))


def _complete_edge(f, test, tag_pred):
    """Which edge of `test` implies `len(self._token_values[tag]) == len(self.items)` -- decided on branch facts, not on
    the spelling of the test (`if a == b: X`, `if not a == b: return`, `if a != b: continue`, `if c and a == b: X`,
    a flag local `complete = a == b`):
    't' / 'f'  the edge on which completeness holds;
    False      the test involves the two lengths but neither edge implies their equality (`<=`, `a == b or c`, ...);
    None       the test does not involve them."""

    def resolve(a, depth=3):
        # a flag computed before the test: `ok = len(..) == len(..)` / `if ok:` (single definition only)
        while depth and isinstance(a, ast.Name):
            os_ = orig(f, a)
            if len(os_) != 1 or os_[0] is a:
                break
            a, depth = os_[0], depth - 1
        return a

    def implied(truth):
        out = []
        for a, v in atoms(test, truth):
            r = resolve(a)
            out.extend(atoms(r, v) if r is not a else [(a, v)])
        return out

    def related(a):
        return any(_len_items_cmp(f, x, tag_pred) for x in ast.walk(a))

    def complete(a, v):
        return v and _len_items_cmp(f, a, tag_pred) and isinstance(a.ops[0], ast.Eq)

    sides = {k: implied(t) for k, t in (("t", True), ("f", False))}
    if not any(related(a) for fs in sides.values() for a, _ in fs):
        return None
    good = [k for k, fs in sides.items() if any(complete(a, v) for a, v in fs)]
    return good[0] if len(good) == 1 else False


def _empty_container(f, e) -> bool:
    """`deque()` / `list()` / `[]` (possibly through a local): a fresh container without elements."""

    def empty(o):
        if isinstance(o, ast.List):
            return not o.elts
        return (isinstance(o, ast.Call) and not o.args and not o.keywords
                and (dotted(o.func) or "").split(".")[-1] in ("deque", "list"))

    os_ = orig(f, e)
    return bool(os_) and all(empty(o) for o in os_)


def _port_slot(f, tv, port):
    """Predicate: the expression denotes the port list `<tv>[<port>]` of the per-tag port map parameter `tv` -- written as the
    subscript, or as `<tv>.setdefault(<port>, <empty container>)` (same list; creates it first when the port is new), directly or
    through a local.  A setdefault whose default is not provably empty is NOT a slot (its default could already hold tokens)."""

    def one(o):
        if isinstance(o, ast.Subscript):
            return is_param(f, o.value, tv) and is_param(f, o.slice, port)
        if method_call(o, "setdefault") and not o.keywords and len(o.args) == 2:
            return is_param(f, o.func.value, tv) and is_param(f, o.args[0], port) and _empty_container(f, o.args[1])
        return False

    return lambda e: any_origin(f, e, one)


def _resolves(p, f, call, qn) -> bool:
    return isinstance(call, ast.Call) and qn in p.resolve_call(f, call, fanout=False)


def _combinator_impls(ctx, name):
    fs = [f for f in ctx.prog.overrides(COMB, name) if not f.is_abstract]
    return fs


# --------------------------------------------------------------------------- R1


def _check_add_call(ctx, p, f, g, c, rule_inst):
    """Operands of one `self._add_to_list(...)` call inside a `combine`."""
    ps = [x for x in f.params if x != "self"]
    ctx.require(len(ps) == 2, f"C02.R1: {f.qualname} signature changed")
    port, tok = ps
    a0, a1 = arg_of(c, 0, "token"), arg_of(c, 1, "port_name")
    depth = arg_of(c, 2, "depth")
    prop = arg_of(c, 3, "propagate")
    ok, why = True, ""
    if a0 is None or a1 is None:
        return False, "operands missing"
    if is_param(f, a0, tok):
        if not is_param(f, a1, port):
            ok, why = False, f"the token is filed under `{unparse(a1)}` instead of its port"
    else:
        # inner schema: loop variable of `async for schema in <c>.combine(port_name, token)`, filed under <c>.name
        loop = next((a for a in ancestors(c) if isinstance(a, (ast.AsyncFor, ast.For))), None)
        inner = None
        if loop is not None and isinstance(loop.target, ast.Name) and is_name(a0, loop.target.id):
            for x in calls_in(loop.iter):
                if method_call(x, "combine") and len(x.args) == 2 and is_param(f, x.args[0], port) and is_param(f, x.args[1], tok):
                    inner = x.func.value
        if inner is None:
            ok, why = False, f"`{unparse(a0)}` is neither the token nor a schema yielded by the inner combinator for this token"
        elif not (isinstance(a1, ast.Attribute) and a1.attr == "name" and ast.dump(a1.value) == ast.dump(inner)):
            ok, why = False, f"the inner schema is filed under `{unparse(a1)}` instead of the inner combinator's name"
        elif not any_origin(f, inner, lambda o: self_call(o, "get_combinator") and len(o.args) == 1 and is_param(f, o.args[0], port)):
            ok, why = False, "the inner combinator is not the one registered for this port"
    cq = f.cls.qualname
    if ok and p.is_subclass(cq, CART):
        if not (depth is not None and is_self_attr(depth, "depth")):
            ok, why = False, "the cartesian depth is not passed to _add_to_list (tokens are filed under the wrong tag)"
    if ok and p.is_subclass(cq, DOT):
        if not (prop is not None and is_self_attr(prop, "_propagate")) or depth is not None:
            ok, why = False, "the propagate flag of the combinator is not passed to _add_to_list (LoopCombinator must not propagate)"
    return ok, why


def _wiring(ctx):
    """Registration of nested combinators and the product helper."""
    p = ctx.prog
    f = p.func(f"{COMB}.add_combinator")
    ps = [x for x in f.params if x != "self"]
    ctx.require(len(ps) == 2, "C02.R1: add_combinator signature changed")
    cb, items = ps

    def cname(e):
        return isinstance(e, ast.Attribute) and e.attr == "name" and is_param(f, e.value, cb)

    reg = any(isinstance(n, ast.Assign) and any(isinstance(t, ast.Subscript) and is_self_attr(t.value, "combinators") and cname(t.slice) for t in n.targets)
              and is_param(f, n.value, cb) for n in f.body_nodes())
    listed = any(method_call(c, "append") and is_self_attr(c.func.value, "items") and len(c.args) == 1 and cname(c.args[0]) for c in f.calls())
    mapped = False
    for n in f.body_nodes():
        val = None
        if isinstance(n, ast.AugAssign) and isinstance(n.op, ast.BitOr) and is_self_attr(n.target, "combinators_map"):
            val = n.value
        elif method_call(n, "update") and is_self_attr(n.func.value, "combinators_map") and len(n.args) == 1:
            val = n.args[0]
        if isinstance(val, ast.DictComp) and len(val.generators) == 1 and not val.generators[0].ifs:
            gen = val.generators[0]
            mapped = (isinstance(gen.target, ast.Name) and is_name(val.key, gen.target.id) and cname(val.value)
                      and whole(f, gen.iter, lambda e: is_param(f, e, items), ordered=False))
        elif isinstance(n, ast.For) and isinstance(n.target, ast.Name) and whole(f, n.iter, lambda e: is_param(f, e, items), ordered=False):
            mapped = mapped or any(isinstance(x, ast.Assign) and any(isinstance(t, ast.Subscript) and is_self_attr(t.value, "combinators_map")
                                   and is_name(t.slice, n.target.id) for t in x.targets) and cname(x.value) for x in ast.walk(n))
    ctx.ob("R1", "add_combinator registers the inner combinator, lists it as an item and maps each of its ports to it", reg and listed and mapped,
           func=f, node=f.node, instance="add_combinator:wiring",
           message="add_combinator does not register/list/map the inner combinator consistently: tokens of its ports never reach it (or its schemas are never awaited)")
    f = p.func(f"{COMB}.get_combinator")
    it = [x for x in f.params if x != "self"]
    rets = [n for n in f.body_nodes() if isinstance(n, ast.Return) and n.value is not None]
    ok = len(rets) >= 1 and len(it) == 1
    for r in rets:
        okr = False
        for o in orig(f, r.value):
            if method_call(o, "get") and is_self_attr(o.func.value, "combinators") and o.args:
                k = o.args[0]
                okr = any(method_call(x, "get") and is_self_attr(x.func.value, "combinators_map") and x.args and is_param(f, x.args[0], it[0]) for x in orig(f, k)) \
                    or any(isinstance(x, ast.Subscript) and is_self_attr(x.value, "combinators_map") and is_param(f, x.slice, it[0]) for x in orig(f, k))
        ok = ok and okr
    ctx.ob("R1", "get_combinator resolves a port through combinators_map", ok, func=f, node=f.node, instance="get_combinator:lookup",
           message="get_combinator does not look the port up in combinators_map and then in combinators")
    f = p.func(DICT_PRODUCT)
    ctx.require(f.node.args.kwarg is not None, "C02.R1: dict_product no longer takes **kwargs")
    kw = f.node.args.kwarg.arg
    g = f.cfg
    ok, why = False, "no loop over itertools.product(*kwargs.values())"
    for lp in [n for n in f.body_nodes() if isinstance(n, ast.For) and isinstance(n.target, ast.Name)]:
        for o in orig(f, lp.iter):
            if isinstance(o, ast.Call) and p.resolve_call(f, o, fanout=False) == ["itertools.product"] and len(o.args) == 1 and isinstance(o.args[0], ast.Starred) \
                    and not o.keywords and any(map_view(x, "values", lambda e: is_name(e, kw)) for x in orig(f, o.args[0].value)):
                ys = []
                for n in g.nodes.values():
                    for y in [x for x in n.walk() if isinstance(x, ast.Yield) and x.value is not None]:
                        v = y.value
                        if isinstance(v, ast.Call) and is_name(v.func, "dict") and len(v.args) == 1 and isinstance(v.args[0], ast.Call) and is_name(v.args[0].func, "zip") \
                                and len(v.args[0].args) == 2:
                            k0, v0 = v.args[0].args
                            k_ok = any(map_view(x, "keys", lambda e: is_name(e, kw)) or is_name(x, kw) for x in orig(f, k0))
                            v_ok = any(is_name(b, lp.target.id) for b in iter_base(f, v0, ordered=True))
                            if k_ok and v_ok:
                                ys.append(n.id)
                hid = g.ids_of(lp)
                ok, why = loop_unconditional(g, hid[0], ys) if hid else (False, "no CFG node")
    ctx.ob("R1", "utils.dict_product yields dict(zip(keys, combination)) for every element of the cartesian product of the value lists", ok,
           func=f, node=f.node, instance="dict_product:product", message=f"utils.dict_product: {why}")


def r1(ctx):
    p = ctx.prog
    n_classes = 0
    for f in _combinator_impls(ctx, "combine"):
        g = f.cfg
        prods = [n for n in g.nodes.values() if any(self_call(c, "_product") for c in node_calls(g, n))]
        if not prods:
            continue
        n_classes += 1
        adds = [n for n in g.nodes.values() if any(self_call(c, "_add_to_list") for c in node_calls(g, n))]
        for i, pn in enumerate(prods):
            ok = bool(adds) and g.dominates([a.id for a in adds], pn.id)
            # within one iteration of an enclosing loop the add must come first, too
            ctx.ob("R1", f"{f.cls.name}.combine: _product call #{i + 1} is preceded by _add_to_list", ok, func=f, node=pn.ast,
                   instance=f"{f.cls.name}.combine:add-before-product:{i}",
                   message=f"{f.qualname}: `_product` can run before the arriving token is stored: the combination with this token is never emitted")
        for i, an in enumerate(adds):
            for c in [c for c in node_calls(g, an) if self_call(c, "_add_to_list")]:
                ok, why = _check_add_call(ctx, p, f, g, c, i)
                ctx.ob("R1", f"{f.cls.name}.combine: operands of _add_to_list call #{i + 1}", ok, func=f, node=c,
                       instance=f"{f.cls.name}.combine:add-operands:{i}", message=f"{f.qualname}: {why}")
        # the product must be evaluated for the arriving port / token
        if p.is_subclass(f.cls.qualname, CART):
            ps = [x for x in f.params if x != "self"]
            for i, pn in enumerate(prods):
                for c in [c for c in node_calls(g, pn) if self_call(c, "_product")]:
                    a0, a1 = arg_of(c, 0, "port_name"), arg_of(c, 1, "token")
                    ok = a0 is not None and a1 is not None and is_param(f, a0, ps[0]) and is_param(f, a1, ps[1])
                    ctx.ob("R1", f"{f.cls.name}.combine: _product call #{i + 1} gets the arriving port and token", ok, func=f, node=c,
                           instance=f"{f.cls.name}.combine:product-operands:{i}",
                           message=f"{f.qualname}: `_product` is not evaluated for the arriving (port, token)")
        # every product is handed on to the caller
        for i, pn in enumerate(prods):
            ok = False
            a = pn.ast
            if pn.kind == "iter" and isinstance(a, ast.AsyncFor) and isinstance(a.target, ast.Name) and any(self_call(c, "_product") for c in calls_in(a.iter)):
                ys = [n.id for n in g.nodes.values() if any(isinstance(x, ast.Yield) and x.value is not None and is_name(x.value, a.target.id) for x in n.walk())
                      and any(x is n.ast for x in ast.walk(a))]
                ok = loop_unconditional(g, pn.id, ys)[0]
            ctx.ob("R1", f"{f.cls.name}.combine: every schema of _product call #{i + 1} is yielded", ok, func=f, node=a,
                   instance=f"{f.cls.name}.combine:yield:{i}", message=f"{f.qualname}: combinations computed by `_product` are not all yielded to the step")
    ctx.require(n_classes >= 2, f"C02.R1: only {n_classes} combine() implementations call _product (cartesian and dot expected)")
    _wiring(ctx)
    _tag_order(ctx)

    # --- CartesianProductCombinator._product
    f = p.func(f"{CART}._product")
    ctx.require(f.cls.qualname == CART, "C02.R1: CartesianProductCombinator._product vanished")
    ps = [x for x in f.params if x != "self"]
    ctx.require(len(ps) == 2, "C02.R1: cartesian _product signature changed")
    port, tok = ps
    g = f.cfg

    def key_expr(e) -> bool:
        """'.'.join(token.tag.split('.')[: -self.depth])"""
        if not (method_call(e, "join") and isinstance(e.func.value, ast.Constant) and e.func.value.value == "." and len(e.args) == 1):
            return False
        s = e.args[0]
        if not (isinstance(s, ast.Subscript) and isinstance(s.slice, ast.Slice)):
            return False
        sl = s.slice
        up = sl.upper
        return (
            sl.lower is None and sl.step is None
            and isinstance(up, ast.UnaryOp) and isinstance(up.op, ast.USub) and is_self_attr(up.operand, "depth")
            and split_dot(s.value, lambda b: isinstance(b, ast.Attribute) and b.attr == "tag" and is_param(f, b.value, tok))
        )

    def is_key(e) -> bool:
        return any_origin(f, e, key_expr) and all(key_expr(o) for o in orig(f, e))

    prods = [(n, c) for n in g.nodes.values() for c in node_calls(g, n) if _resolves(p, f, c, DICT_PRODUCT)]
    ctx.require(len(prods) == 1, "C02.R1: cartesian _product no longer calls utils.dict_product exactly once")
    pn, pc = prods[0]
    # (branch facts: the product lies in the region reached only through the edge on which the lengths are equal --
    # nested `if`, guard clause `if not ==: return`, `!=`, conjunctions alike)
    edges = {n.id: _complete_edge(f, n.ast, is_key) for n in g.nodes.values() if n.kind == "test"}
    guards = [g.nodes[i] for i, e in edges.items() if e is not None]
    ok = bool(guards) and all(edges[t.id] for t in guards) and any(
        g.dominates(t.id, pn.id) and pn.id in region(g, t.id, edges[t.id]) for t in guards)
    ctx.ob("R1", "cartesian _product: guarded by len(self._token_values[tag]) == len(self.items), tag = token tag minus depth", ok, func=f,
           node=(guards[0].ast if guards else f.node), instance="cartesian._product:guard",
           message="cartesian _product is not guarded by completeness of the port map for the token's key tag (`==`): partial or wrong-key products")
    # singleton substitution
    ok, why = False, "dict_product is not fed by a dict comprehension over self._token_values[tag].items()"
    star = [k.value for k in pc.keywords if k.arg is None]
    if len(star) == 1 and not pc.args:
        for o in orig(f, star[0]):
            if isinstance(o, ast.DictComp) and len(o.generators) == 1 and not o.generators[0].ifs:
                gen = o.generators[0]
                it_ok = map_view(strip_cast(gen.iter), "items", lambda e: any_origin(f, e, lambda x: _tv_at(x, is_key)))
                tgt = gen.target
                if it_ok and isinstance(tgt, ast.Tuple) and len(tgt.elts) == 2 and all(isinstance(x, ast.Name) for x in tgt.elts):
                    k, v = tgt.elts[0].id, tgt.elts[1].id
                    val = o.value
                    why = f"value `{unparse(val)}` is not `[token] if {k} == {port} else {v}`"
                    if is_name(o.key, k) and isinstance(val, ast.IfExp):
                        t = val.test
                        eq = (isinstance(t, ast.Compare) and len(t.ops) == 1 and isinstance(t.ops[0], (ast.Eq, ast.NotEq))
                              and ((is_name(t.left, k) and is_param(f, t.comparators[0], port)) or (is_name(t.comparators[0], k) and is_param(f, t.left, port))))
                        if eq:
                            single, full = (val.body, val.orelse) if isinstance(t.ops[0], ast.Eq) else (val.orelse, val.body)
                            if isinstance(single, (ast.List, ast.Tuple)) and len(single.elts) == 1 and is_param(f, single.elts[0], tok) and is_name(full, v):
                                ok, why = True, ""
    ctx.ob("R1", "cartesian _product: arriving port replaced by [token], every other port by its full list", ok, func=f, node=pc,
           instance="cartesian._product:singleton", message=f"cartesian _product: {why}: earlier combinations are re-emitted / combinations are missing")
    # one yield per combination
    loops = [n for n in f.body_nodes() if isinstance(n, ast.For) and isinstance(n.target, ast.Name)
             and any(o is pc for o in orig(f, n.iter))]
    ok = False
    if len(loops) == 1:
        ys = [n.id for n in g.nodes.values() if any(isinstance(x, ast.Yield) for x in n.walk())]
        hid = g.ids_of(loops[0])
        ok = bool(hid) and loop_unconditional(g, hid[0], ys)[0]
    ctx.ob("R1", "cartesian _product: exactly one schema is yielded per combination", ok, func=f, node=(loops[0] if loops else f.node),
           instance="cartesian._product:yield", message="cartesian _product does not yield exactly once for every element of the product")
    # composite tag: own prefix + last component of every member
    ys = [y for n in f.body_nodes() if isinstance(n, ast.Yield) and n.value is not None for y in [n]]
    ok, why = bool(ys), "no yield"
    for y in ys:
        retags = [c for c in calls_in(y.value) if method_call(c, "retag")]
        if not retags:
            ok, why = False, "emitted tokens are not retagged"
        for c in retags:
            if not (len(c.args) == 1 and _composite_tag(f, c.args[0], c.func.value)):
                ok, why = False, f"`{unparse(c.args[0])[:80]}` is not <own tag minus last component> + <last component of every member>"
    ctx.ob("R1", "cartesian _product retags every member with its prefix plus the last tag component of all members", ok, func=f,
           node=(ys[0] if ys else f.node), instance="cartesian._product:composite-tag", message=f"cartesian _product: {why}: composite tags differ from the prescribed ones")
    # --- de-duplication in _add_to_port
    f = p.func(f"{CART}._add_to_port")
    ctx.require(f.cls.qualname == CART, "C02.R1: CartesianProductCombinator._add_to_port vanished (de-duplication lost)")
    ps = [x for x in f.params if x != "self"]
    ctx.require(len(ps) == 3, "C02.R1: _add_to_port signature changed")
    tok, tv, port = ps
    g = f.cfg

    slot = _port_slot(f, tv, port)

    apps = [n.id for n in g.nodes.values() if any(
        method_call(c, "append") and slot(c.func.value) and len(c.args) == 1 and is_param(f, c.args[0], tok) for c in node_calls(g, n))]
    ok, why = False, "no scan of the port list comparing tags"
    for lp in [n for n in f.body_nodes() if isinstance(n, ast.For) and isinstance(n.target, ast.Name)]:
        if not whole(f, lp.iter, slot, ordered=False):
            continue
        v = lp.target.id
        hid = g.ids_of(lp)
        for t in g.nodes.values():
            if t.kind != "test" or not any(x is t.ast for x in ast.walk(lp)):
                continue
            e = t.ast
            if not (isinstance(e, ast.Compare) and len(e.ops) == 1 and isinstance(e.ops[0], (ast.Eq, ast.NotEq))):
                continue
            sides = [e.left, e.comparators[0]]

            def tag_of(x, who):
                return isinstance(x, ast.Attribute) and x.attr == "tag" and who(x.value)

            if not ((tag_of(sides[0], lambda y: is_name(y, v)) and tag_of(sides[1], lambda y: is_param(f, y, tok)))
                    or (tag_of(sides[1], lambda y: is_name(y, v)) and tag_of(sides[0], lambda y: is_param(f, y, tok)))):
                continue
            dup_kind = "t" if isinstance(e.ops[0], ast.Eq) else "f"
            dup = g.reach(branch_succ(g, t.id, dup_kind), avoid=hid, include_src=True)
            if any(a in dup for a in apps):
                why = "a token with an already present tag is still appended"
            elif not apps or not all(g.dominates(hid, a) for a in apps):
                why = "the append is not preceded by the duplicate scan"
            elif g.escape(g.entry, apps + [t.id]) is not None and g.path(hid[0], [g.exit], avoid=apps + [t.id]) is not None:
                why = "a token with a new tag may not be appended"
            else:
                # every path that finishes the scan without a duplicate appends
                fin = branch_succ(g, hid[0], "f")
                if all(s in apps or g.path(s, [g.exit], avoid=apps) is None for s in fin):
                    ok, why = True, ""
                else:
                    why = "a token with a new tag may not be appended"
    if not ok:
        # comprehension form: `if any(t.tag == token.tag for t in tag_values[port_name]): return` / `if not any(...)` / `all(... != ...)`
        for t in g.nodes.values():
            if t.kind != "test":
                continue
            pol = _dup_polarity(f, t.ast, slot, tok)
            if pol is None:
                continue
            dup = g.reach(branch_succ(g, t.id, "t" if pol else "f"), avoid=[t.id], include_src=True)
            fresh = branch_succ(g, t.id, "f" if pol else "t")
            if any(a in dup for a in apps):
                why = "a token with an already present tag is still appended"
            elif apps and all(g.dominates(t.id, a) for a in apps) and all(s in apps or g.path(s, [g.exit], avoid=apps) is None for s in fresh):
                ok, why = True, ""
            else:
                why = "a token with a new tag may not be appended"
    ctx.ob("R1", "cartesian _add_to_port refuses a token whose tag is already present and appends every other token", ok, func=f,
           node=f.node, instance="cartesian._add_to_port:dedup", message=f"cartesian _add_to_port: {why}: parent/child propagation duplicates combinations")


def _composite_tag(f, e, owner) -> bool:
    """'.'.join(<owner>.tag.split('.')[:-1] + suffix), suffix = [<m>.tag.split('.')[-1] for <m> in <schema>.values()]"""

    def tag_split(x, who):
        return split_dot(x, lambda b: isinstance(b, ast.Attribute) and b.attr == "tag" and who(b.value))

    if not (method_call(e, "join") and isinstance(e.func.value, ast.Constant) and e.func.value.value == "." and len(e.args) == 1):
        return False
    a = e.args[0]
    if not (isinstance(a, ast.BinOp) and isinstance(a.op, ast.Add)):
        return False
    left, right = a.left, a.right
    own = (isinstance(left, ast.Subscript) and isinstance(left.slice, ast.Slice) and left.slice.lower is None and left.slice.step is None
           and isinstance(left.slice.upper, ast.UnaryOp) and isinstance(left.slice.upper.op, ast.USub)
           and isinstance(left.slice.upper.operand, ast.Constant) and left.slice.upper.operand.value == 1
           and tag_split(left.value, lambda v: ast.dump(v) == ast.dump(owner)))
    if not own:
        return False
    for o in orig(f, right):
        if isinstance(o, (ast.ListComp, ast.GeneratorExp)) and len(o.generators) == 1 and not o.generators[0].ifs and isinstance(o.generators[0].target, ast.Name):
            m = o.generators[0].target.id
            el = o.elt
            last = (isinstance(el, ast.Subscript) and isinstance(el.slice, ast.UnaryOp) and isinstance(el.slice.op, ast.USub)
                    and isinstance(el.slice.operand, ast.Constant) and el.slice.operand.value == 1 and tag_split(el.value, lambda v: is_name(v, m)))
            src = strip_cast(o.generators[0].iter)
            if last and method_call(src, "values") and isinstance(src.func.value, ast.Name):
                return True
    return False


def _dup_polarity(f, e, slot, tok):
    """True when `e` is true iff a stored element has the token's tag (`any(t.tag == token.tag for t in slot)`),
    False for the negation (`not any(...)`, `all(t.tag != token.tag ...)`), None otherwise."""
    if isinstance(e, ast.UnaryOp) and isinstance(e.op, ast.Not):
        v = _dup_polarity(f, e.operand, slot, tok)
        return None if v is None else not v
    if isinstance(e, ast.Call) and isinstance(e.func, ast.Name) and e.func.id in ("any", "all") and len(e.args) == 1 \
            and isinstance(e.args[0], (ast.GeneratorExp, ast.ListComp)) and len(e.args[0].generators) == 1:
        ge = e.args[0]
        gen = ge.generators[0]
        if gen.ifs or not isinstance(gen.target, ast.Name) or not whole(f, gen.iter, slot, ordered=False):
            return None
        c = ge.elt
        if not (isinstance(c, ast.Compare) and len(c.ops) == 1 and isinstance(c.ops[0], (ast.Eq, ast.NotEq))):
            return None

        def tag_of(x, who):
            return isinstance(x, ast.Attribute) and x.attr == "tag" and who(x.value)

        a, b = c.left, c.comparators[0]
        v = gen.target.id
        if not ((tag_of(a, lambda y: is_name(y, v)) and tag_of(b, lambda y: is_param(f, y, tok)))
                or (tag_of(b, lambda y: is_name(y, v)) and tag_of(a, lambda y: is_param(f, y, tok)))):
            return None
        if e.func.id == "any" and isinstance(c.ops[0], ast.Eq):
            return True
        if e.func.id == "all" and isinstance(c.ops[0], ast.NotEq):
            return False
    return None


# --------------------------------------------------------------------------- R1: order provenance of composite tags
#
# `self._token_values` and the per-tag port maps `self._token_values[tag]` are plain dicts: their key order is the order in
# which tags / ports received their FIRST token, i.e. it depends on the schedule.  `self.items` is filled once by the
# translator (add_item / add_combinator): declaration order.  A tag that is assembled component by component
# (`'.'.join(<sequence>)`) is schedule-independent only if the ORDER of that sequence does not come from such a dict.

ORDER_KEEPING_CALLS = {"list", "tuple", "dict", "iter", "deque", "OrderedDict", "enumerate", "zip"}
ORDER_FREE_CALLS = {"range", "str", "int", "len", "repr"}
IN_PLACE_GROW = {"append", "setdefault", "add"}
IN_PLACE_MERGE = {"update", "extend"}
IN_PLACE_REORDER = {"insert", "appendleft", "extendleft", "reverse", "sort", "move_to_end"}


def _enclosing_loops(node):
    return [a for a in ancestors(node) if isinstance(a, (ast.For, ast.AsyncFor, ast.While))]


def _within(node, root) -> bool:
    return any(a is root for a in ancestors(node))


def _order_of(p, f, e, seen=frozenset(), depth=12, trace=None) -> set[str]:
    """Where the order of the elements (keys) of the sequence / mapping `e` comes from:
    'decl'     self.items (declaration order);
    'arrival'  key order of self._token_values / of one of its port maps / element order of a port list;
    'neutral'  fixed by the code or by a single value (literal, components of one string, one element of a container);
    'unknown'  anything the analysis cannot trace (opaque call, sorted / reversed / set order, while loops).
    `trace` (a list) receives (node, labels) for every leaf / loop that contributes 'arrival' or 'unknown'."""
    from ..dataflow import defs_of

    e = strip_cast(e)
    if depth <= 0:
        return {"unknown"}

    def rec(x, s=seen):
        return _order_of(p, f, x, s, depth - 1, trace)

    def leaf(label):
        if trace is not None:
            trace.append((e, {label}))
        return {label}

    if isinstance(e, ast.Starred):
        return rec(e.value)
    if is_self_attr(e, "items"):
        return {"decl"}
    if _tv(e):
        return leaf("arrival")
    if isinstance(e, ast.Subscript):
        if isinstance(e.slice, ast.Slice):
            st = e.slice.step
            if st is None or (isinstance(st, ast.Constant) and isinstance(st.value, int) and st.value > 0):
                return rec(e.value)
            return leaf("unknown") | (rec(e.value) - {"decl"})
        b = e.value
        while isinstance(b, ast.Subscript) and not isinstance(b.slice, ast.Slice):
            b = b.value
        if _tv(b):
            return leaf("arrival")  # a port map or a port list
        # one element of a container: its own order is decided by whoever produced it (an inner combinator) -- not decided here
        return {"neutral"}
    if isinstance(e, (ast.Constant, ast.JoinedStr)):
        return {"neutral"}
    if isinstance(e, (ast.List, ast.Tuple)):
        out = {"neutral"}
        for x in e.elts:
            if isinstance(x, ast.Starred):
                out |= rec(x.value)
        return out
    if isinstance(e, ast.Dict):
        out = {"neutral"}
        for k, v in zip(e.keys, e.values):
            if k is None:
                out |= rec(v)
        return out
    if isinstance(e, ast.BinOp) and isinstance(e.op, (ast.Add, ast.BitOr)):
        return rec(e.left) | rec(e.right)
    if isinstance(e, ast.IfExp):
        return rec(e.body) | rec(e.orelse)
    if isinstance(e, (ast.ListComp, ast.GeneratorExp, ast.DictComp)):
        out = set()
        for gen in e.generators:
            out |= rec(gen.iter)
        return out
    if isinstance(e, ast.Call):
        if method_call(e) and e.func.attr in ("items", "keys", "values", "copy") and not e.args and not e.keywords:
            return rec(e.func.value)
        if method_call(e) and e.func.attr in ("split", "rsplit", "join", "format", "partition", "rpartition"):
            return {"neutral"}  # components of one string
        if DICT_PRODUCT in p.resolve_call(f, e, fanout=False):
            # every yielded dict has the key order of the keyword mapping
            out = {"neutral"}
            for k in e.keywords:
                if k.arg is None:
                    out |= rec(k.value)
            return out
        name = (dotted(e.func) or "").split(".")[-1]
        if name in ORDER_KEEPING_CALLS and e.args and not e.keywords:
            out = set()
            for a in e.args:
                out |= rec(a)
            return out
        if name in ORDER_FREE_CALLS:
            return {"neutral"}
        if name == "reversed" and len(e.args) == 1:
            return leaf("unknown") | (rec(e.args[0]) - {"decl"})
        # sorted / set / opaque helpers: neither provably the arrival order nor the declaration order
        return leaf("unknown")
    if isinstance(e, ast.Name):
        if e.id in seen:
            return set()
        s2 = seen | {e.id}
        out: set[str] = set()
        for d in defs_of(f, e.id):
            if d.kind == "param":
                out.add("neutral")
            elif d.kind in ("assign", "walrus"):
                if d.index is None:
                    out |= rec(d.value, s2)
                else:
                    out.add("neutral")  # one element of an unpacked value
            elif d.kind == "aug":
                out |= rec(d.value, s2)
                out |= _loops_order(p, f, d.stmt, inits_of=e.id, seen=s2, depth=depth, trace=trace)
            elif d.kind in ("for", "comp"):
                out |= _element_order(p, f, d, s2, depth, trace)
            else:
                out |= leaf("unknown")
        # in-place growth: `x[k] = v`, `x.update(m)`, `x.append(v)`, ... inside loops
        for n in f.body_nodes():
            if isinstance(n, (ast.Assign, ast.AugAssign, ast.AnnAssign)):
                tgts = n.targets if isinstance(n, ast.Assign) else [n.target]
                if any(isinstance(t, ast.Subscript) and is_name(t.value, e.id) for t in tgts):
                    out |= _loops_order(p, f, n, inits_of=e.id, seen=s2, depth=depth, trace=trace)
            elif method_call(n) and is_name(n.func.value, e.id):
                a = n.func.attr
                if a in IN_PLACE_REORDER:
                    out.add("unknown")
                    if trace is not None:
                        trace.append((n, {"unknown"}))
                if a in IN_PLACE_GROW or a in IN_PLACE_MERGE or a in IN_PLACE_REORDER:
                    out |= _loops_order(p, f, n, inits_of=e.id, seen=s2, depth=depth, trace=trace)
                if a in IN_PLACE_MERGE and n.args:
                    out |= rec(n.args[0], s2)
        return out or {"neutral"}
    return leaf("unknown")


def _loops_order(p, f, site, inits_of, seen, depth, trace=None) -> set[str]:
    """Order contributed by the loops around an in-place growth of local `inits_of`: every enclosing loop that does not
    re-create the container on each iteration decides in which order the entries are inserted."""
    from ..dataflow import defs_of

    out: set[str] = set()
    inits = [d.stmt for d in defs_of(f, inits_of) if d.kind in ("assign", "walrus") and d.index is None and d.stmt is not None]
    for lp in _enclosing_loops(site):
        if any(_within(i, lp) for i in inits):
            continue
        r = {"unknown"} if isinstance(lp, ast.While) else _order_of(p, f, lp.iter, seen, depth - 1, trace)
        if trace is not None and r & {"arrival", "unknown"}:
            trace.append((lp, r & {"arrival", "unknown"}))
        out |= r
    return out


def _element_order(p, f, d, seen, depth, trace=None) -> set[str]:
    """Order of a loop / comprehension variable that is itself a container: known only for the dicts yielded by
    utils.dict_product(**m) (key order of m); any other element is 'neutral' (see `_order_of`, Subscript)."""
    if d.index is not None:
        return {"neutral"}
    bases = iter_base(f, d.value, ordered=False) or orig(f, d.value)
    out = {"neutral"}
    for b in bases:
        for o in orig(f, b):
            if isinstance(o, ast.Call) and DICT_PRODUCT in p.resolve_call(f, o, fanout=False):
                out |= _order_of(p, f, o, seen, depth - 1, trace)
    return out


def _tag_sequences(f, c):
    """Sequences joined with '.' into the tag handed to `c` (`x.retag(<tag>)` or `K(tag=<tag>)`)."""
    tag = None
    if method_call(c, "retag") and len(c.args) == 1 and not c.keywords:
        tag = c.args[0]
    elif isinstance(c, ast.Call):
        tag = next((k.value for k in c.keywords if k.arg == "tag"), None)
    if tag is None:
        return []
    return [o.args[0] for o in orig(f, tag)
            if method_call(o, "join") and isinstance(o.func.value, ast.Constant) and o.func.value.value == "." and len(o.args) == 1]


def _tag_order(ctx):
    """Every tag assembled from components inside a Combinator must not take the order of its components from the insertion
    order of self._token_values (first-arrival order of tags / ports); in the cartesian product the order must be traceable
    to self.items (or be fixed by the code)."""
    p = ctx.prog
    n_cart = 0
    for cq in [COMB] + p.subclasses(COMB):
        c = p.cls(cq)
        strict = p.is_subclass(cq, CART)
        for f in c.methods.values():
            sites = [(x, _tag_sequences(f, x)) for x in f.calls()]
            sites = [(x, s) for x, s in sites if s]
            for i, (x, seqs) in enumerate(sites):
                src: set[str] = set()
                trace: list = []
                for s in seqs:
                    src |= _order_of(p, f, s, trace=trace)
                bad = "arrival" in src or (strict and "unknown" in src)
                n_cart += 1 if strict else 0
                label = "arrival" if "arrival" in src else "unknown"
                hits = [n for n, ls in trace if label in ls]
                culprit = next((n for n in hits if isinstance(n, (ast.For, ast.AsyncFor, ast.While))), hits[0] if hits else x)
                head = unparse(culprit).split("\n")[0][:90]
                if label == "arrival":
                    why = (f"the order of the tag components is decided by `{head}`, i.e. by the key order of self._token_values (the order in which "
                           "ports / tags received their first token): the same combination gets a different tag under another arrival order")
                else:
                    why = f"the order of the tag components (`{head}`) cannot be traced to the declaration order self.items"
                ctx.ob("R1", f"{c.name}.{f.name}: the component order of composite tag #{i + 1} does not depend on the arrival order"
                       + (" (declaration order self.items)" if strict else ""), not bad, func=f, node=(culprit if bad else x),
                       instance=f"{c.name}.{f.name}:tag-order:{i}", message=f"{f.qualname}: `{unparse(x)[:90]}`: {why}",
                       witness=[f"order sources of `{unparse(s)[:100]}`: {sorted(_order_of(p, f, s))}" for s in seqs]
                       + list(dict.fromkeys(f"L{getattr(n, 'lineno', '?')}: {unparse(n).splitlines()[0][:100]} -> {sorted(ls)}" for n, ls in trace)))
    ctx.require(n_cart >= 1, "C02.R1: no composite tag ('.'.join(...) handed to retag) found in CartesianProductCombinator")


# --------------------------------------------------------------------------- R2


def r2(ctx):
    p = ctx.prog
    f = p.func(f"{DOT}._product")
    ctx.require(f.cls.qualname == DOT, "C02.R2: DotProductCombinator._product vanished")
    g = f.cfg
    cand = [n for n in f.body_nodes() if isinstance(n, ast.For) and isinstance(n.target, ast.Name)
            and any(_tv(x) and not isinstance(parent(x), ast.Subscript) for o in orig(f, n.iter) for x in ast.walk(o))]
    outer = [n for n in cand if whole(f, n.iter, lambda e: _tv(e) or map_view(e, "keys", _tv), ordered=False)]
    ctx.ob("R2", "dot _product scans every pending tag", len(outer) == 1, func=f, node=(outer[0] if outer else f.node), instance="dot._product:all-tags",
           message="dot _product does not loop over all keys of self._token_values: complete tags are never emitted")
    if len(outer) != 1:
        ctx.require(len(cand) == 1, "C02.R2: the tag loop of dot _product was not found")
        outer = cand
    tagv = outer[0].target.id
    snapshot = not any(_tv(o) or map_view(o, "keys", _tv) for o in orig(f, outer[0].iter))
    ctx.ob("R2", "dot _product iterates a snapshot of the keys", snapshot, func=f, node=outer[0], instance="dot._product:snapshot", trivial=True,
           message="dot _product iterates the live mapping while combine() of another task may add tags between two yields")

    def is_tag(e):
        return is_name(e, tagv)

    edges = {n.id: _complete_edge(f, n.ast, is_tag) for n in g.nodes.values() if n.kind == "test"}
    guards = [g.nodes[i] for i, e in edges.items() if e is not None]
    ys = [n for n in g.nodes.values() if any(isinstance(x, ast.Yield) for x in n.walk())]
    ctx.require(len(ys) >= 1, "C02.R2: dot _product does not yield")
    # within one iteration of the tag loop no yield is reachable from the edge on which the lengths may differ
    # (`if ==: emit`, `if not ==: continue` + emit, `if != : continue` ... -- decided on the edge, not on the spelling)
    ok = bool(guards) and all(edges[t.id] for t in guards) and all(
        any(g.dominates(t.id, y.id) and y.id not in g.reach(branch_succ(g, t.id, "f" if edges[t.id] == "t" else "t"),
                                                            avoid=[t.id] + g.ids_of(outer[0]), include_src=True) for t in guards)
        for y in ys)
    ctx.ob("R2", "dot _product emits only for tags whose port map is complete (==)", ok, func=f, node=(guards[0].ast if guards else f.node),
           instance="dot._product:guard", message="dot _product emits without `len(self._token_values[tag]) == len(self.items)`: incomplete combinations")
    _dot_scan_complete(ctx, f, g, outer[0], [t.id for t in guards])
    # consumption
    inner = []
    for lp in [n for n in f.body_nodes() if isinstance(n, ast.For)]:
        it = strip_cast(lp.iter)
        if map_view(it, "items", lambda e: _tv_at(e, is_tag)) and isinstance(lp.target, ast.Tuple) and len(lp.target.elts) == 2 \
                and all(isinstance(x, ast.Name) for x in lp.target.elts):
            inner.append(lp)
    ok, why = False, "no loop over self._token_values[tag].items()"
    elem_names: set[str] = set()
    if len(inner) == 1:
        lp = inner[0]
        kv, ev = lp.target.elts[0].id, lp.target.elts[1].id
        hid = g.ids_of(lp)
        pops = []
        for n in g.nodes.values():
            for c in node_calls(g, n):
                if method_call(c) and c.func.attr in ("pop", "popleft") and is_name(c.func.value, ev) and any(x is c for x in ast.walk(lp)):
                    if c.func.attr == "pop" and c.args and not (isinstance(c.args[0], ast.Constant) and c.args[0].value in (0, -1)):
                        continue
                    pops.append(n.id)
                    if isinstance(n.ast, ast.Assign) and isinstance(n.ast.targets[0], ast.Name):
                        elem_names.add(n.ast.targets[0].id)
        ok, why = loop_unconditional(g, hid[0], pops) if hid else (False, "no CFG node")
        if ok:
            # the removed element (not a peeked one) is what goes into the schema
            peeks = [x for x in ast.walk(lp) if isinstance(x, ast.Subscript) and is_name(x.value, ev) and isinstance(x.ctx, ast.Load)]
            if peeks:
                ok, why = False, f"`{unparse(peeks[0])}` reads an element without removing it"
        if ok:
            stores = []
            for n in g.nodes.values():
                a = n.ast
                if n.kind != "stmt" or not any(x is a for x in ast.walk(lp)):
                    continue
                if isinstance(a, ast.AugAssign) and isinstance(a.op, ast.BitOr) and isinstance(a.value, ast.Name) and a.value.id in elem_names:
                    stores.append(n.id)
                elif isinstance(a, ast.Assign) and len(a.targets) == 1 and isinstance(a.targets[0], ast.Subscript) and is_name(a.targets[0].slice, kv) \
                        and isinstance(a.value, ast.Dict):
                    d = {k.value: v for k, v in zip(a.value.keys, a.value.values) if isinstance(k, ast.Constant)}
                    if "token" in d and isinstance(d["token"], ast.Name) and d["token"].id in elem_names:
                        stores.append(n.id)
            ok2, why2 = loop_unconditional(g, hid[0], stores)
            if not ok2:
                ok, why = False, "the removed element is not stored in the schema under its own port key (" + why2 + ")"
        # every yield is preceded by the consumption loop in the same emission
        if ok and not all(g.dominates(hid, y.id) for y in ys):
            ok, why = False, "a schema is yielded without consuming the port lists"
    ctx.ob("R2", "dot _product removes exactly one element from every port list per emission", ok, func=f, node=(inner[0] if inner else f.node),
           instance="dot._product:consume", message=f"dot _product: {why}: the same combination is emitted again on the next arrival")
    # number of emissions
    rng = [n for n in f.body_nodes() if isinstance(n, ast.For) and isinstance(strip_cast(n.iter), ast.Call) and is_name(strip_cast(n.iter).func, "range")]
    ok = False
    if len(rng) == 1 and len(rng[0].iter.args) == 1:
        for o in orig(f, rng[0].iter.args[0]):
            if isinstance(o, ast.Call) and is_name(o.func, "min") and len(o.args) == 1 and isinstance(o.args[0], (ast.GeneratorExp, ast.ListComp)):
                ge = o.args[0]
                gen = ge.generators[0]
                ok = (len(ge.generators) == 1 and not gen.ifs and isinstance(gen.target, ast.Name)
                      and is_len_of(ge.elt, lambda x: is_name(x, gen.target.id))
                      and map_view(strip_cast(gen.iter), "values", lambda e: _tv_at(e, is_tag)))
        ok = ok and len(inner) == 1 and any(x is inner[0] for x in ast.walk(rng[0])) and all(any(x is y.ast or x is getattr(y.ast, "value", None) for x in ast.walk(rng[0])) for y in ys)
    ctx.ob("R2", "dot _product emits min(len(port list)) combinations per complete tag", ok, func=f, node=(rng[0] if rng else f.node),
           instance="dot._product:count", message="dot _product does not emit exactly min(len(list)) combinations: pop from an empty list or pending tokens left behind")
    # retag with get_tag of the combination
    ok, why = True, ""
    for y in ys:
        yv = next((x.value for x in y.walk() if isinstance(x, ast.Yield)), None)
        retags = [c for c in calls_in(yv) if method_call(c, "retag")] if yv is not None else []
        if not retags:
            ok, why = False, "emitted tokens are not retagged"
        for c in retags:
            if not (len(c.args) == 1 and _is_get_tag_value(p, f, g, c.args[0], y, rng)):
                ok, why = False, f"retag argument `{unparse(c.args[0]) if c.args else ''}` is not utils.get_tag(<combination>)"
    ctx.ob("R2", "dot _product retags every emitted token with get_tag of the combination", ok, func=f, node=ys[0].ast, instance="dot._product:retag",
           message=f"dot _product: {why}: tokens of one combination leave with different tags")


def _dot_scan_complete(ctx, f, g, loop, guard_ids):
    """Every call of dot `_product` examines EVERY pending tag bucket.

    One arriving token can complete several buckets at once: a token with a shallower (parent) tag is broadcast by
    `_add_to_list` into every deeper bucket already waiting, so the number of buckets that became complete is not bounded
    by one.  Whether a bucket is examined must therefore not depend on what happened for the buckets visited before it:
    (a) the loop over the buckets cannot be left before the snapshot is exhausted (`break` / `return` -- a path from the
        loop body to the function exit that does not pass the loop head);
    (b) no iteration can bypass the completeness test of its bucket through a test on loop-carried state (a local that is
        assigned inside the loop and reaches the test around the back edge: `if emitted: continue`) -- the same early exit
        spelled without `break`.  Bypasses decided by per-iteration values only (a temporary computed from the current tag)
        are not constrained here."""
    from ..dataflow import defs_of

    hid = g.ids_of(loop)
    body = branch_succ(g, hid[0], "t") if hid else []
    early = None
    for s_ in body:
        early = early or g.path(s_, [g.exit], avoid=hid)
    leave = next((g.nodes[i] for i in (early or []) if g.nodes[i].kind in ("break", "return")), None)
    ctx.ob("R2", "the scan over the pending tags is never left before every bucket was examined", bool(hid) and early is None, func=f,
           node=(leave.ast if leave is not None and leave.ast is not None else loop), instance="dot._product:scan-complete",
           message="dot _product can leave the scan over self._token_values early"
                   + (f" (`{leave.text()}` at L{leave.lineno})" if leave is not None else "")
                   + ": one arriving token can complete several tag buckets (a parent-tag token is broadcast into every deeper bucket), "
                     "the complete buckets after that point are not emitted, so the emitted combinations depend on the arrival order",
           witness=g.describe(early) if early else [])

    def def_ids(d):
        if d.stmt is None:
            return []
        return g.ids_of(d.stmt) or g.node_containing(d.stmt)

    def carried(name, tid) -> bool:
        """a definition of `name` inside the loop reaches test `tid` around the back edge"""
        ds = [d for d in defs_of(f, name) if d.kind in ("assign", "aug", "walrus", "for", "with")]
        kill = {i for d in ds for i in def_ids(d)}
        if set(hid) & kill:
            return False  # the loop target: fresh in every iteration
        if tid not in g.reach(hid, avoid=kill):
            return False
        for d in ds:
            if d.kind == "for" or not _within(d.stmt, loop):
                continue
            for i in def_ids(d):
                if set(hid) & g.reach([i], avoid=kill - set(hid)):
                    return True
        return False

    skip, names = None, []
    if hid and guard_ids:
        inside = g.reach(body, avoid=hid, include_src=True)
        before = g.reach(body, avoid=list(guard_ids) + hid, include_src=True) - set(guard_ids)
        for t in sorted(before):
            tn = g.nodes[t]
            if tn.kind != "test" or t not in inside or skip is not None:
                continue
            # one edge of the test leads back to the loop head without the completeness test of this bucket
            bypass = any(b in hid or g.path(b, hid, avoid=list(guard_ids)) is not None
                         for b, k in g.succ[t] if k in ("t", "f") and b not in guard_ids)
            if not bypass:
                continue
            ns = sorted({x.id for x in ast.walk(tn.ast) if isinstance(x, ast.Name) and isinstance(x.ctx, ast.Load) and carried(x.id, t)})
            if ns:
                skip, names = tn, ns
    ctx.ob("R2", "no bucket is skipped because of what happened for the buckets scanned before it", skip is None, func=f,
           node=(skip.ast if skip is not None else loop), instance="dot._product:no-skip",
           message="dot _product can skip the completeness test of a pending tag depending on "
                   + ", ".join(f"`{n}`" for n in names) + " set while scanning the earlier tags"
                   + (f" (`{skip.text()}` at L{skip.lineno})" if skip is not None else "")
                   + ": one arriving token can complete several tag buckets, the later ones are not emitted")


def _is_get_tag_value(p, f, g, e, ynode, rng) -> bool:
    """`e` is utils.get_tag(...) or a local assigned from it on every path to the yield (inside the emission loop)."""
    from ..dataflow import defs_of

    if _resolves(p, f, e, GET_TAG):
        return True
    if not isinstance(e, ast.Name):
        return False
    good = []
    for d in defs_of(f, e.id):
        if d.kind == "assign" and d.index is None and _resolves(p, f, strip_cast(d.value), GET_TAG):
            if not rng or any(x is d.stmt for x in ast.walk(rng[0])):
                good += g.ids_of(d.stmt)
    return bool(good) and g.dominates(good, ynode.id)


# --------------------------------------------------------------------------- R3


def r3(ctx):
    p = ctx.prog
    f = p.func(f"{COMB}._add_to_list")
    ps = [x for x in f.params if x != "self"]
    ctx.require(len(ps) == 4, "C02.R3: _add_to_list signature changed")
    tok, port, depth, prop = ps
    g = f.cfg
    tag_defs = [n for n in f.body_nodes() if isinstance(n, ast.Assign) and len(n.targets) == 1 and isinstance(n.targets[0], ast.Name)]
    # the tag variable: first operand of the final insertion's setdefault
    finals = []
    for n in g.nodes.values():
        for c in node_calls(g, n):
            if self_call(c, "_add_to_port") and len(c.args) == 3 and is_param(f, c.args[0], tok) and is_param(f, c.args[2], port):
                tv = c.args[1]
                if method_call(tv, "setdefault") and _tv_alias(f, tv.func.value) and len(tv.args) == 2 and isinstance(tv.args[0], ast.Name):
                    finals.append((n.id, tv.args[0].id))
                elif isinstance(tv, ast.Subscript) and _tv_alias(f, tv.value) and isinstance(tv.slice, ast.Name):
                    finals.append((n.id, tv.slice.id))
    from ..dataflow import defs_of

    finals = [(i, t) for i, t in finals if all(d.kind in ("assign", "walrus") for d in defs_of(f, t))]
    tagvars = {t for _, t in finals}
    ok = len(tagvars) == 1 and g.escape(g.entry, [i for i, _ in finals]) is None
    ctx.ob("R3", "_add_to_list finally inserts the token under its own tag on every path", ok, func=f, node=f.node, instance="add_to_list:final-insert",
           message="_add_to_list does not always store the arriving token under its own tag: the token is lost for later combinations")
    if len(tagvars) != 1:
        return
    tagv = tagvars.pop()
    # tag origin: schema -> get_tag([...token...]), token -> token.tag ; then depth strip
    defs = [n for n in tag_defs if n.targets[0].id == tagv]
    base_ok, strip_ok = False, False

    def mapping_test(t):
        """(+1) test true => schema mapping, (-1) test true => plain token, None otherwise"""
        neg = 1
        while isinstance(t, ast.UnaryOp) and isinstance(t.op, ast.Not):
            t, neg = t.operand, -neg
        if not (isinstance(t, ast.Call) and is_name(t.func, "isinstance") and len(t.args) == 2 and is_param(f, t.args[0], tok)):
            return None
        ks = t.args[1].elts if isinstance(t.args[1], ast.Tuple) else [t.args[1]]
        heads = {(dotted(k) or "").split(".")[-1] for k in ks}
        if heads & MAPPING_NAMES:
            return neg
        if heads == {"Token"}:
            return -neg
        return None

    def is_schema_tag(e):
        return _resolves(p, f, e, GET_TAG)

    def is_token_tag(e):
        return isinstance(e, ast.Attribute) and e.attr == "tag" and is_param(f, e.value, tok)

    schema_side = token_side = False
    for d in defs:
        v = d.value
        if isinstance(v, ast.IfExp) and mapping_test(v.test) is not None:
            m, t = (v.body, v.orelse) if mapping_test(v.test) > 0 else (v.orelse, v.body)
            schema_side, token_side = is_schema_tag(m), is_token_tag(t)
        elif is_schema_tag(v) or is_token_tag(v):
            # statement form: the assignment sits in the matching branch of `if isinstance(token, MutableMapping)`
            child = d
            for a_ in ancestors(d):
                if isinstance(a_, ast.If) and mapping_test(a_.test) is not None:
                    in_body = any(child is x for x in a_.body)
                    maps = (mapping_test(a_.test) > 0) == in_body
                    if maps and is_schema_tag(v):
                        schema_side = True
                    if not maps and is_token_tag(v):
                        token_side = True
                    break
                child = a_
        elif method_call(v, "join") and isinstance(v.func.value, ast.Constant) and v.func.value.value == "." and len(v.args) == 1:
            s_ = v.args[0]
            if isinstance(s_, ast.Subscript) and isinstance(s_.slice, ast.Slice) and s_.slice.lower is None and s_.slice.step is None:
                up = s_.slice.upper
                strip_ok = (isinstance(up, ast.UnaryOp) and isinstance(up.op, ast.USub) and is_param(f, up.operand, depth)
                            and split_dot(s_.value, lambda b: is_name(b, tagv)))
                # guarded by `if depth`
                tn = [t for t in g.nodes.values() if t.kind == "test" and (is_param(f, t.ast, depth) or (
                    isinstance(t.ast, ast.Compare) and len(t.ast.ops) == 1 and isinstance(t.ast.ops[0], (ast.Gt, ast.NotEq)) and is_param(f, t.ast.left, depth)
                    and isinstance(t.ast.comparators[0], ast.Constant) and t.ast.comparators[0].value == 0))]
                ids = g.ids_of(d)
                strip_ok = strip_ok and bool(tn) and bool(ids) and all(
                    ids[0] in g.reach(branch_succ(g, t.id, "t"), include_src=True) and g.dominates(t.id, ids[0]) for t in tn)
    base_ok = schema_side and token_side
    ctx.ob("R3", "_add_to_list: tag of a schema = get_tag of its tokens, tag of a token = token.tag", base_ok, func=f, node=f.node,
           instance="add_to_list:tag", message="_add_to_list computes the key tag of the arriving value differently")
    ctx.ob("R3", "_add_to_list strips `depth` trailing components from the tag", strip_ok, func=f, node=f.node, instance="add_to_list:depth",
           message="_add_to_list does not strip exactly `depth` trailing tag components: cartesian inputs are filed under the wrong key")
    # propagation
    loops = [n for n in f.body_nodes() if isinstance(n, ast.For) and isinstance(n.target, ast.Name)
             and whole(f, n.iter, lambda e: _tv(e) or map_view(e, "keys", _tv), ordered=False)]
    ctx.ob("R3", "_add_to_list scans every stored tag when propagating", len(loops) == 1, func=f, node=(loops[0] if loops else f.node),
           instance="add_to_list:scan", message="_add_to_list does not compare the new tag with every stored tag")
    if len(loops) != 1:
        return
    keyv = loops[0].target.id
    hid = g.ids_of(loops[0])
    # the scan visits every stored tag: the insertion order of self._token_values is the arrival order, so a scan that can stop
    # at some entry (break / return) treats the entries registered later differently from those registered earlier
    early = None
    for s_ in (branch_succ(g, hid[0], "t") if hid else []):
        early = early or g.path(s_, [g.exit], avoid=hid)
    leave = next((g.nodes[i] for i in (early or []) if g.nodes[i].kind in ("break", "return")), None)
    ctx.ob("R3", "the propagation scan is never left before every stored tag was compared", bool(hid) and early is None, func=f,
           node=(leave.ast if leave is not None and leave.ast is not None else loops[0]), instance="add_to_list:scan-complete",
           message="_add_to_list can leave the scan over self._token_values early"
                   + (f" (`{leave.text()}` at L{leave.lineno})" if leave is not None else "")
                   + ": stored tags registered after that entry never exchange tokens with the arriving one, so the emitted combinations depend on the arrival order",
           witness=g.describe(early) if early else [])
    ptests = [t for t in g.nodes.values() if t.kind == "test" and is_param(f, t.ast, prop)]
    under_prop = bool(ptests) and bool(hid) and all(
        g.dominates(t.id, hid[0]) and hid[0] not in g.reach(branch_succ(g, t.id, "f"), avoid=[t.id], include_src=True) for t in ptests)
    ctx.ob("R3", "propagation happens exactly under `propagate`", under_prop, func=f, node=loops[0], instance="add_to_list:propagate-flag",
           message="the parent/child propagation is not controlled by the `propagate` flag (LoopCombinator must not propagate)")

    def ptest(e, a, b):
        return _resolves(p, f, e, PARENT) and len(e.args) == 2 and is_name(e.args[0], a) and is_name(e.args[1], b)

    down = [t for t in g.nodes.values() if t.kind == "test" and ptest(t.ast, keyv, tagv)]  # stored key is a child of the new tag
    up = [t for t in g.nodes.values() if t.kind == "test" and ptest(t.ast, tagv, keyv)]  # stored key is a parent of the new tag
    # child direction: the arriving token is added to the child's port lists
    ok = False
    for t in down:
        reg = g.reach(branch_succ(g, t.id, "t"), avoid=hid, include_src=True)
        for i in reg:
            for c in node_calls(g, g.nodes[i]):
                if self_call(c, "_add_to_port") and len(c.args) == 3 and is_param(f, c.args[0], tok) and is_param(f, c.args[2], port) \
                        and _tv_at_alias(f, c.args[1], lambda k: is_name(k, keyv)):
                    ok = all(s == i or g.path(s, hid, avoid=[i]) is None for s in branch_succ(g, t.id, "t"))
    ctx.ob("R3", "a token with a parent tag is broadcast to every deeper stored tag", ok, func=f, node=(down[0].ast if down else loops[0]),
           instance="add_to_list:to-children", message="_add_to_list does not add a parent-tag token to the stored child tags (`_is_parent_tag(key, tag)` branch)")
    # parent direction: every stored token of the parent is copied under the new tag, port by port
    ok = False
    for t in up:
        def parent_map(e):
            return _tv_at_alias(f, e, lambda k: is_name(k, keyv))

        # the ports of the parent tag: `for p in <tv>[key]` (/.keys()) + `<tv>[key][p]`, or `for p, lst in <tv>[key].items()` + `lst`
        pl = []
        for n in [n for n in ast.walk(loops[0]) if isinstance(n, ast.For)]:
            if isinstance(n.target, ast.Name) and whole(f, n.iter, lambda e: parent_map(e) or map_view(e, "keys", parent_map), ordered=False):
                pl.append((n, n.target.id, None))
            elif isinstance(n.target, ast.Tuple) and len(n.target.elts) == 2 and all(isinstance(x, ast.Name) for x in n.target.elts) \
                    and whole(f, n.iter, lambda e: map_view(e, "items", parent_map), ordered=False):
                lv_ = n.target.elts[1].id
                if all(d.kind == "for" and d.stmt is n for d in defs_of(f, lv_)):
                    pl.append((n, n.target.elts[0].id, lv_))
        for pl_, pv, lv in pl:
            def port_list(e, pv=pv, lv=lv):
                return (isinstance(e, ast.Subscript) and parent_map(e.value) and is_name(e.slice, pv)) or (lv is not None and is_name(e, lv))

            tl = [n for n in ast.walk(pl_) if isinstance(n, ast.For) and n is not pl_ and isinstance(n.target, ast.Name)
                  and whole(f, n.iter, port_list, ordered=True)]
            for tl_ in tl:
                tvn = tl_.target.id
                for c in [c for c in calls_in(tl_) if self_call(c, "_add_to_port") and len(c.args) == 3]:
                    dst = c.args[1]
                    dst_ok = (method_call(dst, "setdefault") and _tv_alias(f, dst.func.value) and len(dst.args) == 2 and is_name(dst.args[0], tagv)) \
                        or _tv_at_alias(f, dst, lambda k: is_name(k, tagv))
                    if is_name(c.args[0], tvn) and dst_ok and is_name(c.args[2], pv):
                        hp, ht = g.ids_of(pl_), g.ids_of(tl_)
                        cn = g.node_containing(c)
                        reach_ok = hp and ht and cn and hp[0] in g.reach(branch_succ(g, t.id, "t"), avoid=hid, include_src=True)
                        ok = bool(reach_ok) and loop_unconditional(g, ht[0], cn)[0]
    ctx.ob("R3", "a token with a deeper tag inherits every stored token of its parent tags, port by port", ok, func=f,
           node=(up[0].ast if up else loops[0]), instance="add_to_list:from-parents",
           message="_add_to_list does not copy the tokens stored under a parent tag to the new child tag (`_is_parent_tag(tag, key)` branch)")
    # the stored tag equal to the new one is skipped (the final insertion handles it)
    eq = [t for t in g.nodes.values() if t.kind == "test" and isinstance(t.ast, ast.Compare) and len(t.ast.ops) == 1
          and isinstance(t.ast.ops[0], (ast.Eq, ast.NotEq))
          and {ast.dump(t.ast.left), ast.dump(t.ast.comparators[0])} == {ast.dump(ast.Name(id=tagv, ctx=ast.Load())), ast.dump(ast.Name(id=keyv, ctx=ast.Load()))}]
    # (only the insertions inside the scan: leaving the scan towards the final insertion is reported by `scan-complete`)
    adders = [n.id for n in g.nodes.values() if any(self_call(c, "_add_to_port") and any(x is c for x in ast.walk(loops[0])) for c in node_calls(g, n))]
    ok = False
    for t in eq:
        same_kind = "t" if isinstance(t.ast.ops[0], ast.Eq) else "f"
        region = g.reach(branch_succ(g, t.id, same_kind), avoid=hid + [t.id], include_src=True)
        ok = not any(a in region for a in adders) and all(
            g.dominates(t.id, x.id) for x in down + up)
    ctx.ob("R3", "the stored tag equal to the new tag is skipped during propagation", ok, func=f, node=(eq[0].ast if eq else loops[0]),
           instance="add_to_list:skip-equal", message="_add_to_list propagates a token to its own tag as well: it is stored twice and combined twice")
    # the base _add_to_port keeps every token
    bf = p.func(f"{COMB}._add_to_port")
    bps = [x for x in bf.params if x != "self"]
    ctx.require(len(bps) == 3, "C02.R3: Combinator._add_to_port signature changed")
    bg = bf.cfg

    bslot = _port_slot(bf, bps[1], bps[2])

    apps = [n.id for n in bg.nodes.values() if any(
        method_call(c) and c.func.attr in ("append", "appendleft") and bslot(c.func.value) and len(c.args) == 1 and is_param(bf, c.args[0], bps[0])
        for c in node_calls(bg, n))]
    ok = bool(apps) and bg.escape(bg.entry, apps) is None and all(not (set(apps) & bg.reach([a])) for a in apps)
    ctx.ob("R3", "Combinator._add_to_port stores the token in tag_values[port_name] exactly once on every path", ok, func=bf, node=bf.node,
           instance="add_to_port:store", message="Combinator._add_to_port can drop (or duplicate) the token: dot-product combinations are missing")
    # _is_parent_tag on component lists
    f = p.func(PARENT)
    ps = f.params
    ctx.require(len(ps) == 2, "C02.R3: _is_parent_tag signature changed")
    tg, pr = ps
    raw = []
    for n in f.body_nodes():
        if isinstance(n, ast.Name) and isinstance(n.ctx, ast.Load) and n.id in (tg, pr):
            par = parent(n)
            gp = parent(par) if par is not None else None
            if not (isinstance(par, ast.Attribute) and par.attr == "split" and split_dot(gp, lambda b: b is n)):
                raw.append(n)
    rets = [n for n in f.body_nodes() if isinstance(n, ast.Return)]
    ok = not raw and len(rets) == 1 and rets[0].value is not None
    why = f"`{raw[0].id}` is used as a raw string" if raw else ""
    if ok:
        is_parent_comps = lambda x: any_origin(f, x, lambda o: split_dot(o, lambda y: is_name(y, pr)))  # noqa: E731

        def prefix_eq(e) -> bool:
            if not (isinstance(e, ast.Compare) and len(e.ops) == 1 and isinstance(e.ops[0], ast.Eq)):
                return False
            for a, b in ((e.left, e.comparators[0]), (e.comparators[0], e.left)):
                if isinstance(a, ast.Subscript) and isinstance(a.slice, ast.Slice) and a.slice.lower is None and a.slice.step is None \
                        and a.slice.upper is not None and is_len_of(a.slice.upper, is_parent_comps) \
                        and any_origin(f, a.value, lambda o: split_dot(o, lambda y: is_name(y, tg))) and is_parent_comps(b):
                    return True
            return False

        # the returned value, possibly through a result temporary (`r = <cmp>; return r`): every definition must be the comparison
        vals = orig(f, rets[0].value)
        bad = next((o for o in vals if not prefix_eq(o)), None)
        ok = bool(vals) and bad is None
        why = "" if ok else f"`{unparse(bad if bad is not None else rets[0].value)}` is not `tag.split('.')[:len(parent.split('.'))] == parent.split('.')`"
    ctx.ob("R3", "_is_parent_tag compares lists of tag components", ok, func=f, node=f.node, instance="is_parent_tag:components",
           message=f"_is_parent_tag: {why}: string-prefix comparison makes `0.1` a parent of `0.10`")


# --------------------------------------------------------------------------- R4


def _control_subject(p, f, c):
    """subject of a termination / iteration-termination test call"""
    s = termination_subject(p, f, c)
    if s is not None:
        return s
    if isinstance(c, ast.Call):
        s = class_test(p, f, c, ITERATION_TERMINATION_TOKEN)
        if s is not None:
            return s
        if c.args and CHECK_ITERATION_TERMINATION in p.resolve_call(f, c, fanout=False):
            return c.args[0]
    return None


def r4(ctx):
    p = ctx.prog
    for qn in (CSTEP, LSTEP):
        f = p.func(f"{qn}.run")
        ctx.require(f.cls.qualname == qn, f"C02.R4: {qn}.run vanished")
        g = f.cfg
        name = f.cls.name
        comb = [(n, c) for n in g.nodes.values() for c in node_calls(g, n)
                if method_call(c, "combine") and is_self_attr(c.func.value, "combinator")]
        ctx.require(len(comb) >= 1, f"C02.R4: {qn}.run does not call self.combinator.combine")
        task_loops = [n for n in f.body_nodes() if isinstance(n, ast.For) and isinstance(n.target, ast.Name)
                      and any(x is c for _, c in comb for x in ast.walk(n))]
        # innermost plain for-loop containing the combine call = loop over the finished tasks
        task_loops = [l for l in task_loops if not any(l2 is not l and any(x is l2 for x in ast.walk(l)) for l2 in task_loops)]
        ctx.require(len(task_loops) == 1, f"C02.R4: task loop of {qn}.run not found")
        tl = task_loops[0]
        tv = tl.target.id
        hid = g.ids_of(tl)
        ok, why = True, ""
        for n, c in comb:
            a0, a1 = arg_of(c, 0, "port_name"), arg_of(c, 1, "token")
            nm_ok = a0 is not None and any_origin(f, a0, lambda o: method_call(o, "get_name") and is_name(o.func.value, tv))
            tk_ok = a1 is not None and any_origin(f, a1, lambda o: method_call(o, "result") and is_name(o.func.value, tv))
            if not (nm_ok and tk_ok):
                ok, why = False, f"combine is called with `{unparse(a0) if a0 else '?'}`, `{unparse(a1) if a1 else '?'}` instead of the finished task's name and result"
        # coverage: every iteration passes combine or the termination branch of a control-token test
        ctrl = []
        term_tested = False
        for t in g.nodes.values():
            if t.kind != "test" or not any(x is t.ast for x in ast.walk(tl)):
                continue
            pol = truth_if(t.ast, lambda x: _control_subject(p, f, x) is not None, True)
            if pol is not None and any(_control_subject(p, f, x) is not None for x in calls_in(t.ast)):
                ctrl += branch_succ(g, t.id, "t" if pol else "f")
                term_tested = term_tested or any(termination_subject(p, f, x) is not None for x in calls_in(t.ast))
        cn = [n.id for n, _ in comb]
        if ok:
            for s in branch_succ(g, hid[0], "t"):
                w = g.path(s, hid, avoid=cn + ctrl) if s not in cn + ctrl else None
                if w is not None:
                    ok, why = False, "a data token can bypass combine(): " + " -> ".join(g.describe(w)[:6])
            if not ctrl or not term_tested:
                ok, why = False, "no termination-token test in the task loop: termination tokens are passed to combine()"
            elif any(x in g.reach(ctrl, avoid=hid, include_src=True) for x in cn):
                ok, why = False, "termination tokens are passed to combine()"
        ctx.ob("R4", f"{name}.run passes every data token (task name, result) to combine()", ok, func=f, node=comb[0][1],
               instance=f"{name}.run:combine", message=f"{qn}.run: {why}")
        # emission
        ok, why = False, "no loop over the yielded schema"
        for n, c in comb:
            sl = next((a for a in ancestors(c) if isinstance(a, (ast.AsyncFor, ast.For)) and any(x is c for x in ast.walk(a.iter))), None)
            if sl is None or not isinstance(sl.target, ast.Name):
                why = "combine() is not iterated with `async for`"
                continue
            sv = sl.target.id
            for el in [x for x in ast.walk(sl) if isinstance(x, ast.For) and isinstance(x.target, ast.Tuple) and len(x.target.elts) == 2]:
                if not whole(f, el.iter, lambda e: map_view(e, "items", lambda m: is_name(m, sv)), ordered=False):
                    continue
                kv, vv = [x.id for x in el.target.elts]
                eh = g.ids_of(el)
                puts = []
                why = "no put of the persisted token in the schema loop"
                for pn in g.nodes.values():
                    for pc in node_calls(g, pn):
                        if not (method_call(pc, "put") and any(x is pc for x in ast.walk(el)) and len(pc.args) == 1):
                            continue
                        recv = pc.func.value

                        def out_port(e):
                            return any_origin(f, e, lambda o: self_call(o, "get_output_port") and len(o.args) == 1 and is_name(o.args[0], kv))

                        r_ok = out_port(recv)
                        pers = [x for x in orig(f, pc.args[0]) if self_call(x, "_persist_token")]
                        if not r_ok or len(pers) != 1:
                            why = "the token is not persisted / put on the port named by the schema key"
                            continue
                        pt, pp, pi = arg_of(pers[0], 0, "token"), arg_of(pers[0], 1, "port"), arg_of(pers[0], 2, "input_token_ids")
                        t_ok = isinstance(pt, ast.Subscript) and is_name(pt.value, vv) and isinstance(pt.slice, ast.Constant) and pt.slice.value == "token"
                        p_ok = pp is not None and out_port(pp)
                        i_ok = pi is not None and any_origin(f, pi, lambda o: _all_input_ids(o, sv))
                        if t_ok and p_ok and i_ok:
                            puts.append(pn.id)
                        else:
                            why = ("the persisted token is not the schema entry's token" if not t_ok else
                                   "persisted on another port than the one it is put on" if not p_ok else
                                   "provenance does not list the input ids of the whole schema")
                if puts and eh:
                    ok, why2 = loop_unconditional(g, eh[0], puts)
                    why = why2 if not ok else ""
                    sh = g.ids_of(sl)
                    if ok and sh and not all(s_ in eh or g.path(s_, sh, avoid=eh) is None for s_ in branch_succ(g, sh[0], "t")):
                        ok, why = False, "a yielded schema can be skipped"
        ctx.ob("R4", f"{name}.run persists and puts every token of every yielded schema on its own port", ok, func=f, node=comb[0][1],
               instance=f"{name}.run:emit", message=f"{qn}.run: {why}")
        # re-arm
        rearm = []
        for n in g.nodes.values():
            for c in node_calls(g, n):
                d = dotted(c.func) or ""
                if d.split(".")[-1] in ("create_task", "ensure_future") and c.args and any(x is c for x in ast.walk(tl)):
                    gets = [x for x in calls_in(c.args[0]) if method_call(x, "get")]
                    nm = arg_of(c, -1, "name")
                    same = nm is not None and any_origin(f, nm, lambda o: method_call(o, "get_name") and is_name(o.func.value, tv))
                    port_ok = any(
                        isinstance(x.func.value, ast.Subscript) and self_call(x.func.value.value, "get_input_ports")
                        and any_origin(f, x.func.value.slice, lambda o: method_call(o, "get_name") and is_name(o.func.value, tv)) for x in gets)
                    if gets and same and port_ok:
                        rearm.append(n.id)
        after = bool(rearm) and all(any(r in g.reach([c_], avoid=hid) for r in rearm) for c_ in cn)
        ctx.ob("R4", f"{name}.run re-arms the consumed port (same name) after a combination", after, func=f, node=tl,
               instance=f"{name}.run:rearm", message=f"{qn}.run does not read the consumed port again under the same task name: later tokens of that port are never combined")


def _all_input_ids(o, sv) -> bool:
    """[in_id for t in schema.values() for in_id in t['input_ids']]"""
    if not (isinstance(o, (ast.ListComp, ast.GeneratorExp)) and len(o.generators) == 2):
        return False
    g1, g2 = o.generators
    if g1.ifs or g2.ifs or not (isinstance(g1.target, ast.Name) and isinstance(g2.target, ast.Name)):
        return False
    src = strip_cast(g1.iter)
    if not map_view(src, "values", lambda m: is_name(m, sv)):
        return False
    it2 = g2.iter
    return (isinstance(it2, ast.Subscript) and is_name(it2.value, g1.target.id) and isinstance(it2.slice, ast.Constant)
            and it2.slice.value == "input_ids" and is_name(o.elt, g2.target.id))


# --------------------------------------------------------------------------- R5 (union discrimination)


TOKEN_ATTRS = {"tag", "retag", "persistent_id", "value", "update", "save"}
MAPPING_NAMES = {"MutableMapping", "Mapping", "dict", "Dict"}


def _ann_is_union_with_mapping(ann) -> bool:
    if ann is None:
        return False
    if isinstance(ann, ast.Constant) and isinstance(ann.value, str):
        try:
            ann = ast.parse(ann.value, mode="eval").body
        except SyntaxError:
            return False
    parts = []

    def flat(a):
        if isinstance(a, ast.BinOp) and isinstance(a.op, ast.BitOr):
            flat(a.left)
            flat(a.right)
        elif isinstance(a, ast.Subscript) and (dotted(a.value) or "").split(".")[-1] in ("Union", "Optional"):
            for x in (a.slice.elts if isinstance(a.slice, ast.Tuple) else [a.slice]):
                flat(x)
        else:
            parts.append(a)

    flat(ann)
    heads = [(dotted(x.value if isinstance(x, ast.Subscript) else x) or "").split(".")[-1] for x in parts]
    return len(parts) >= 2 and "Token" in heads and any(h in MAPPING_NAMES for h in heads)


def _ann_is_map_of_any_lists(ann) -> bool:
    """MutableMapping[str, MutableSequence[Any]] -- the per-tag port map handed to _add_to_port"""
    if ann is None:
        return False
    t = unparse(ann).replace(" ", "")
    return t.startswith(("MutableMapping[", "Mapping[", "dict[")) and "Sequence[Any]" in t or t.endswith("list[Any]]") or "deque[Any]" in t


class _Taint:
    """Flow-insensitive kinds of local names inside one method:
    U  a value that may be an inner-combinator schema (Token | mapping)
    L  a sequence of U            M  a mapping port -> L            C  a mapping key -> U (one combination)
    I  an iterable of C"""

    def __init__(self, p, f):
        self.p, self.f = p, f
        self.kind: dict[str, str] = {}
        self.keyof: dict[str, str] = {}  # value name -> key name bound in the same items() loop
        for a in f.node.args.posonlyargs + f.node.args.args + f.node.args.kwonlyargs:
            if _ann_is_union_with_mapping(a.annotation):
                self.kind[a.arg] = "U"
            elif a.arg != "self" and _ann_is_map_of_any_lists(a.annotation):
                self.kind[a.arg] = "M"
        changed = True
        rounds = 0
        while changed and rounds < 8:
            changed = False
            rounds += 1
            for n in walk_no_nested(f.node):
                changed |= self.visit(n)

    def set(self, name, k) -> bool:
        if k is None or self.kind.get(name) == k:
            return False
        if name in self.kind and self.kind[name] != k:
            # conflicting kinds: keep the first (conservative for U)
            return False
        self.kind[name] = k
        return True

    def kind_of(self, e) -> str | None:
        e = strip_cast(e)
        if isinstance(e, ast.Name):
            return self.kind.get(e.id)
        if isinstance(e, ast.Subscript) and not isinstance(e.slice, ast.Slice):
            b = e.value
            if _tv_alias(self.f, b):
                return "M"
            kb = self.kind_of(b)
            return {"M": "L", "L": "U", "C": "U"}.get(kb) if kb else None
        if isinstance(e, ast.Call):
            if method_call(e) and e.func.attr in ("pop", "popleft") and self.kind_of(e.func.value) == "L":
                return "U"
            if method_call(e, "setdefault") and _tv_alias(self.f, e.func.value):
                return "M"
            if method_call(e) and e.func.attr in ("get", "setdefault") and self.kind_of(e.func.value) in ("M", "C"):
                # `m.setdefault(port, deque())` is the stored port list, like `m[port]` / `m.get(port)`
                return {"M": "L", "C": "U"}[self.kind_of(e.func.value)]
            if DICT_PRODUCT in self.p.resolve_call(self.f, e, fanout=False):
                for k in e.keywords:
                    if k.arg is None and self.kind_of(k.value) == "M":
                        return "I"
            if isinstance(e.func, ast.Name) and e.func.id in ("list", "tuple", "deque", "iter", "reversed", "sorted") and e.args:
                return self.kind_of(e.args[0])
        if isinstance(e, ast.DictComp) and len(e.generators) == 1:
            # {k: [token] if ... else v for k, v in M.items()} -> M
            gen = e.generators[0]
            if method_call(strip_cast(gen.iter), "items") and self.kind_of(strip_cast(gen.iter).func.value) == "M":
                return "M"
        if isinstance(e, ast.IfExp):
            return self.kind_of(e.body) or self.kind_of(e.orelse)
        return None

    def bind_iter(self, target, it) -> bool:
        """for <target> in <it>"""
        it = strip_cast(it)
        ch = False
        if method_call(it) and it.func.attr in ("items", "values", "keys") and not it.args:
            kb = self.kind_of(it.func.value)
            inner = {"M": "L", "C": "U"}.get(kb)
            if inner:
                if it.func.attr == "values" and isinstance(target, ast.Name):
                    ch |= self.set(target.id, inner)
                elif it.func.attr == "items" and isinstance(target, ast.Tuple) and len(target.elts) == 2 and all(isinstance(x, ast.Name) for x in target.elts):
                    ch |= self.set(target.elts[1].id, inner)
                    self.keyof[target.elts[1].id] = target.elts[0].id
            return ch
        k = self.kind_of(it)
        if isinstance(target, ast.Name):
            if k == "L":
                ch |= self.set(target.id, "U")
            elif k == "I":
                ch |= self.set(target.id, "C")
        return ch

    def visit(self, n) -> bool:
        ch = False
        if isinstance(n, (ast.For, ast.AsyncFor)):
            ch |= self.bind_iter(n.target, n.iter)
        elif isinstance(n, ast.comprehension):
            ch |= self.bind_iter(n.target, n.iter)
        elif isinstance(n, (ast.Assign, ast.AnnAssign)) and getattr(n, "value", None) is not None:
            tgts = n.targets if isinstance(n, ast.Assign) else [n.target]
            k = self.kind_of(n.value)
            for t in tgts:
                if isinstance(t, ast.Name) and k:
                    ch |= self.set(t.id, k)
                    if isinstance(strip_cast(n.value), ast.Call) and method_call(strip_cast(n.value)) and isinstance(strip_cast(n.value).func.value, ast.Name):
                        src = strip_cast(n.value).func.value.id
                        if src in self.keyof:
                            self.keyof[t.id] = self.keyof[src]
                elif isinstance(t, ast.Subscript) and isinstance(t.value, ast.Name) and k == "U":
                    # schema[key] = <U>  -> schema maps keys to U
                    ch |= self.set(t.value.id, "C")
        elif isinstance(n, ast.AugAssign) and isinstance(n.op, ast.BitOr) and isinstance(n.target, ast.Name):
            # schema |= <U>: the entries of an inner schema are merged in -> values are not plain Tokens
            if self.kind_of(n.value) == "U":
                ch |= self.set(n.target.id, "C")
        elif isinstance(n, ast.NamedExpr):
            k = self.kind_of(n.value)
            if k:
                ch |= self.set(n.target.id, k)
        return ch


def _discriminated(p, f, g, attr_node: ast.Attribute, taint: _Taint) -> bool:
    """The dereference is guarded by isinstance(x, Mapping) (false side) / isinstance(x, Token) (true side),
    or by `key in self.combinators` (false side) for the key bound together with x."""
    x = attr_node.value
    if not isinstance(x, ast.Name):
        return False
    name = x.id
    key = taint.keyof.get(name)

    def verdict(test) -> bool | None:
        """True: test true => x is a plain Token; False: test false => x is a plain Token"""
        if isinstance(test, ast.UnaryOp) and isinstance(test.op, ast.Not):
            v = verdict(test.operand)
            return None if v is None else not v
        if isinstance(test, ast.Call) and is_name(test.func, "isinstance") and len(test.args) == 2 and is_name(test.args[0], name):
            ks = test.args[1].elts if isinstance(test.args[1], ast.Tuple) else [test.args[1]]
            heads = {(dotted(k) or "").split(".")[-1] for k in ks}
            if heads & MAPPING_NAMES:
                return False
            if "Token" in heads:
                return True
        if isinstance(test, ast.Compare) and len(test.ops) == 1 and is_self_attr(test.comparators[0], "combinators") and key is not None \
                and is_name(test.left, key):
            if isinstance(test.ops[0], ast.In):
                return False
            if isinstance(test.ops[0], ast.NotIn):
                return True
        return None

    # lexical guards: enclosing If / IfExp
    child = attr_node
    for a in ancestors(attr_node):
        if isinstance(a, (ast.FunctionDef, ast.AsyncFunctionDef)):
            break
        if isinstance(a, (ast.If, ast.IfExp)):
            v = verdict(a.test)
            if v is not None:
                body = a.body if isinstance(a.body, list) else [a.body]
                orelse = a.orelse if isinstance(a.orelse, list) else [a.orelse]
                in_body = any(child is b or any(child is y for y in ast.walk(b)) for b in body)
                in_else = any(child is b or any(child is y for y in ast.walk(b)) for b in orelse)
                if (v and in_body) or (not v and in_else):
                    return True
        child = a
    # early-exit guards: a dominating test whose schema side leaves the function / loop iteration
    ids = g.node_containing(attr_node)
    for t in g.nodes.values():
        if t.kind != "test":
            continue
        v = verdict(t.ast)
        if v is None:
            continue
        token_side = "t" if v else "f"
        other = "f" if v else "t"
        if ids and all(g.dominates(t.id, i) for i in ids):
            if all(i not in g.reach(branch_succ(g, t.id, other), avoid=[t.id], include_src=True) for i in ids) and any(
                    i in g.reach(branch_succ(g, t.id, token_side), avoid=[t.id], include_src=True) for i in ids):
                return True
    return False


def r5(ctx):
    p = ctx.prog
    classes = [COMB] + p.subclasses(COMB)
    ctx.require(len(classes) >= 4, "C02.R5: Combinator class table too small")
    n_sites = 0
    for cq in classes:
        c = p.cls(cq)
        for f in c.methods.values():
            uses_tv = any(isinstance(n, ast.Attribute) and n.attr in ("_token_values",) for n in f.body_nodes())
            union_param = any(_ann_is_union_with_mapping(a.annotation) or (a.arg != "self" and _ann_is_map_of_any_lists(a.annotation))
                              for a in f.node.args.posonlyargs + f.node.args.args + f.node.args.kwonlyargs)
            if not (uses_tv or union_param):
                continue
            taint = _Taint(p, f)
            g = f.cfg
            groups: dict[tuple[str, bool], list[ast.Attribute]] = {}
            for n in f.body_nodes():
                if not (isinstance(n, ast.Attribute) and n.attr in TOKEN_ATTRS and isinstance(n.value, ast.Name) and isinstance(n.ctx, ast.Load)):
                    continue
                if taint.kind.get(n.value.id) != "U":
                    continue
                n_sites += 1
                groups.setdefault((n.value.id, _discriminated(p, f, g, n, taint)), []).append(n)
            # one instance per (method, variable): a variable that is dereferenced unguarded is one defect
            for (var, ok), nodes in sorted(groups.items(), key=lambda kv: (kv[0][0], kv[0][1])):
                nodes.sort(key=lambda x: (x.lineno, x.col_offset))
                attrs = sorted({x.attr for x in nodes})
                ctx.ob(
                    "R5",
                    f"{c.name}.{f.name}: Token attributes {attrs} of `{var}` (may be an inner-combinator schema) are read "
                    + ("after discrimination" if ok else "without discrimination"),
                    ok,
                    func=f,
                    node=nodes[0],
                    instance=f"union-deref:{var}",
                    message=(
                        f"{f.qualname}: `{var}` is a schema mapping when the port belongs to a nested combinator, but "
                        f"{', '.join(f'`{var}.{a}`' for a in attrs)} {'is' if len(attrs) == 1 else 'are'} read without "
                        f"isinstance(..., MutableMapping) / `key in self.combinators` discrimination (AttributeError: 'dict' object has no attribute '{attrs[-1]}')"
                    ),
                    witness=[f"L{x.lineno}: {var}.{x.attr}" for x in nodes] + [f"kinds: {dict(sorted(taint.kind.items()))}"],
                )
    ctx.require(n_sites >= 3, f"C02.R5: only {n_sites} Token-attribute reads on possibly-schema values found (the taint analysis is blind)")


RULES = [("R1", r1), ("R2", r2), ("R3", r3), ("R4", r4), ("R5", r5)]
# R1: 2 combine() x (2 product calls + 2 add calls) + 2 cartesian product-operand checks + 4 cartesian shape checks;
# + 1 composite-tag order check in cartesian _product (a second one, LoopCombinator._product, exists today but is not required);
# R2: 6 shape checks + scan-complete + no-skip (seeded change C02 round 3 #2);
# R3: 11 with the scan-complete check;
# R5: 2 discriminated variables (Combinator._add_to_list token, dot _product element) + 3 undiscriminated (S11) today
FLOORS = {"R1": 23, "R2": 8, "R3": 11, "R4": 6, "R5": 2}

_CCOMB = f"{CART}.combine"
_DCOMB = f"{DOT}.combine"
_CPROD = f"{CART}._product"
_DPROD = f"{DOT}._product"
_CPORT = f"{CART}._add_to_port"
_ADD = f"{COMB}._add_to_list"

_CPORT_BODY = ("    if port_name not in tag_values:\n        tag_values[port_name] = deque()\n    for t in tag_values[port_name]:\n"
               "        if t.tag == token.tag:\n            return\n    tag_values[port_name].append(token)")
_BPORT_BODY = "    if port_name not in tag_values:\n        tag_values[port_name] = deque()\n    tag_values[port_name].append(token)"

_ADD_BLOCK = ("    if propagate:\n        for key in list(self._token_values.keys()):\n            if tag == key:\n                continue\n            elif _is_parent_tag(key, tag):\n                self._add_to_port(token, self._token_values[key], port_name)\n            elif _is_parent_tag(tag, key):\n                for p in self._token_values[key]:\n                    for t in self._token_values[key][p]:\n                        self._add_to_port(t, self._token_values.setdefault(tag, {}), p)\n    self._add_to_port(token, self._token_values.setdefault(tag, {}), port_name)")

VARIANTS = [
    # ---- R1
    V("cartesian: _product before _add_to_list (direct branch)", CFILE, _CCOMB,
      "self._add_to_list(token, port_name, self.depth)\n        async for product in self._product(port_name, token):\n            yield product",
      "async for product in self._product(port_name, token):\n            yield product\n        self._add_to_list(token, port_name, self.depth)", "R1", control=True),
    V("cartesian: _product before _add_to_list (inner branch)", CFILE, _CCOMB,
      "self._add_to_list(schema, c.name, self.depth)\n            async for product in self._product(port_name, token):\n                yield product",
      "async for product in self._product(port_name, token):\n                yield product\n            self._add_to_list(schema, c.name, self.depth)", "R1"),
    V("dot: token stored only when the port map is new", CFILE, _DCOMB, "        self._add_to_list(token, port_name, propagate=self._propagate)",
      "        if token.tag not in self._token_values:\n            self._add_to_list(token, port_name, propagate=self._propagate)", "R1"),
    V("cartesian: depth not passed", CFILE, _CCOMB, "self._add_to_list(token, port_name, self.depth)", "self._add_to_list(token, port_name)", "R1"),
    V("cartesian: inner schema filed under the port name", CFILE, _CCOMB, "self._add_to_list(schema, c.name, self.depth)", "self._add_to_list(schema, port_name, self.depth)", "R1"),
    V("dot: propagate flag dropped", CFILE, _DCOMB, "self._add_to_list(token, port_name, propagate=self._propagate)", "self._add_to_list(token, port_name)", "R1"),
    V("dot: inner branch stores the raw token", CFILE, _DCOMB, "self._add_to_list(schema, c.name, propagate=self._propagate)", "self._add_to_list(token, c.name, propagate=self._propagate)", "R1"),
    V("cartesian: full list instead of the singleton", CFILE, _CPROD, "[token] if k == port_name else v", "v", "R1"),
    V("cartesian: singleton on the other ports", CFILE, _CPROD, "[token] if k == port_name else v", "[token] if k != port_name else v", "R1"),
    V("cartesian: completeness == -> <=", CFILE, _CPROD, "if len(self._token_values[tag]) == len(self.items):", "if len(self._token_values[tag]) <= len(self.items):", "R1"),
    V("cartesian: completeness guard removed", CFILE, _CPROD, "if len(self._token_values[tag]) == len(self.items):", "if True:", "R1"),
    V("cartesian: key strips one component regardless of depth", CFILE, _CPROD, "token.tag.split('.')[:-self.depth]", "token.tag.split('.')[:-1]", "R1"),
    V("cartesian: only the first combination is emitted", CFILE, _CPROD, "for k, t in schema.items()}", "for k, t in schema.items()}\n            break", "R1"),
    V("cartesian: de-dup loop removed", CFILE, _CPORT, "    for t in tag_values[port_name]:\n        if t.tag == token.tag:\n            return\n", "", "R1"),
    V("cartesian: de-dup inverted", CFILE, _CPORT, "if t.tag == token.tag:", "if t.tag != token.tag:", "R1"),
    V("cartesian: de-dup compares values", CFILE, _CPORT, "if t.tag == token.tag:", "if t.value == token.value:", "R1"),
    V("cartesian: products computed but not yielded", CFILE, _CCOMB, "            yield product\n    else:", "            pass\n    else:", "R1"),
    V("cartesian: suffix from the first tag component", CFILE, _CPROD, "t.tag.split('.')[-1] for t in schema.values()", "t.tag.split('.')[0] for t in schema.values()", "R1"),
    V("cartesian: own tag not shortened", CFILE, _CPROD, "t.tag.split('.')[:-1] + suffix", "t.tag.split('.') + suffix", "R1"),
    V("add_combinator maps the wrong way round", SFILE, f"{COMB}.add_combinator", "{p: combinator.name for p in items}", "{combinator.name: p for p in items}", "R1"),
    V("add_combinator does not list the combinator", SFILE, f"{COMB}.add_combinator", "self.items.append(combinator.name)\n    ", "", "R1"),
    V("dict_product zips instead of multiplying", "streamflow/core/utils.py", DICT_PRODUCT, "itertools.product(*vals)", "zip(*vals)", "R1"),
    # order provenance of the composite tag (seeded changes C02-2 / C05-1)
    V("cartesian: schema assembled in the key order of the product entry (first-arrival order of the ports)", CFILE, _CPROD,
      "for key in self.items:\n                if key in self.combinators:\n                    schema |= config[key]\n                else:\n                    schema[key] = config[key]",
      "for key, value in config.items():\n                if key in self.combinators:\n                    schema |= value\n                else:\n                    schema[key] = value", "R1", control=True),
    V("cartesian: suffix read from the product entry", CFILE, _CPROD, "for t in schema.values()]", "for t in config.values()]", "R1"),
    V("cartesian: schema assembled by scanning the port map", CFILE, _CPROD, "for key in self.items:", "for key in self._token_values[tag]:", "R1"),
    V("cartesian: schema is a copy of the product entry", CFILE, _CPROD,
      "schema: dict[str, Token] = {}\n            for key in self.items:\n                if key in self.combinators:\n                    schema |= config[key]\n                else:\n                    schema[key] = config[key]", "schema = {k: v for k, v in config.items()}", "R1"),
    V("cartesian: suffix order by port name instead of declaration order", CFILE, _CPROD, "for key in self.items:", "for key in sorted(self.items):", "R1"),
    V("dot: composite tag in the key order of the port map", CFILE, _DPROD, "t['token'].retag(tag)",
      "t['token'].retag('.'.join(['0'] + [x['token'].tag.split('.')[-1] for x in schema.values()]))", "R1"),
    V("benign: declaration order through a copy", CFILE, _CPROD, "for key in self.items:", "for key in list(self.items):", None),
    V("benign: declaration order through a local and enumerate", CFILE, _CPROD, "            for key in self.items:",
      "            order = tuple(self.items)\n            for _, key in enumerate(order):", None),
    V("benign: product entry value in a temporary", CFILE, _CPROD,
      "for key in self.items:\n                if key in self.combinators:\n                    schema |= config[key]\n                else:\n                    schema[key] = config[key]",
      "for key in self.items:\n                value = config[key]\n                if key in self.combinators:\n                    schema |= value\n                else:\n                    schema[key] = value", None),
    # ---- R2
    V("dot: element stored under the tag instead of the port", CFILE, _DPROD, "schema[key] = {'token': element", "schema[tag] = {'token': element", "R2"),
    V("dot: completeness == -> <=", CFILE, _DPROD, "if len(self._token_values[tag]) == len(self.items):", "if len(self._token_values[tag]) <= len(self.items):", "R2", control=True),
    V("dot: reads elements[-1] without removing", CFILE, _DPROD, "element = elements.pop()", "element = elements[-1]", "R2"),
    V("dot: consumes only inner-combinator ports", CFILE, _DPROD,
      "element = elements.pop()\n                    if key in self.combinators:\n                        schema |= element",
      "if key in self.combinators:\n                        element = elements.pop()\n                        schema |= element", "R2"),
    V("dot: emits max instead of min", CFILE, _DPROD, "num_items = min(", "num_items = max(", "R2"),
    V("dot: only the first pending tag", CFILE, _DPROD, "for tag in list(self._token_values):", "for tag in list(self._token_values)[:1]:", "R2"),
    V("dot: tokens keep their own tags", CFILE, _DPROD, "t['token'].retag(tag)", "t['token']", "R2"),
    V("dot: retag with the map key computed before the loop", CFILE, _DPROD,
      "tag = utils.get_tag([t['token'] for t in schema.values()])\n                ", "", "R2"),
    V("dot: one off in the emission count", CFILE, _DPROD, "for _ in range(num_items):", "for _ in range(num_items - 1):", "R2"),
    # every pending bucket is examined on every call (seeded change: `if num_items: break` after the first emitting bucket)
    V("dot: scan stops after the first bucket that emitted", CFILE, _DPROD, "for k, t in schema.items()}",
      "for k, t in schema.items()}\n            if num_items:\n                break", "R2", control=True),
    V("dot: returns after the first complete bucket", CFILE, _DPROD, "for k, t in schema.items()}",
      "for k, t in schema.items()}\n            return", "R2"),
    V("dot: scan stops at the first incomplete bucket", CFILE, _DPROD, "        if len(self._token_values[tag]) == len(self.items):",
      "        if len(self._token_values[tag]) != len(self.items):\n            break\n        if True:", "R2"),
    V("dot: later buckets skipped through a loop-carried flag instead of break", CFILE, _DPROD,
      "    for tag in list(self._token_values):\n        if len(self._token_values[tag]) == len(self.items):",
      "    num_items = 0\n    for tag in list(self._token_values):\n        if num_items:\n            continue\n        if len(self._token_values[tag]) == len(self.items):", "R2"),
    V("benign: empty bucket skipped through a per-iteration temporary", CFILE, _DPROD,
      "    for tag in list(self._token_values):\n        if len(self._token_values[tag]) == len(self.items):",
      "    for tag in list(self._token_values):\n        bucket = self._token_values[tag]\n        if not bucket:\n            continue\n        if len(self._token_values[tag]) == len(self.items):", None),
    V("benign: emission counter kept across buckets (logging only)", CFILE, _DPROD,
      "    for tag in list(self._token_values):\n        if len(self._token_values[tag]) == len(self.items):",
      "    emitted = 0\n    for tag in list(self._token_values):\n        if emitted:\n            logger.debug(f'{emitted} buckets so far')\n        emitted += 1\n        if len(self._token_values[tag]) == len(self.items):", None),
    # ---- R3
    V("_is_parent_tag via str.startswith", SFILE, PARENT, "parent_idx = parent.split('.')\n    return tag.split('.')[:len(parent_idx)] == parent_idx", "return tag.startswith(parent)", "R3", control=True),
    V("_is_parent_tag compares the wrong prefix length", SFILE, PARENT, "[:len(parent_idx)]", "[:len(parent_idx) - 1]", "R3"),
    V("_is_parent_tag arguments swapped inside", SFILE, PARENT, "return tag.split('.')[:len(parent_idx)] == parent_idx", "return parent_idx[:len(tag.split('.'))] == tag.split('.')", "R3"),
    V("final insertion only without propagation", SFILE, _ADD, "    self._add_to_port(token, self._token_values.setdefault(tag, {}), port_name)",
      "    else:\n        self._add_to_port(token, self._token_values.setdefault(tag, {}), port_name)", "R3"),
    V("child direction dropped", SFILE, _ADD, "elif _is_parent_tag(key, tag):\n                self._add_to_port(token, self._token_values[key], port_name)\n            ", "", "R3"),
    V("parent direction dropped", SFILE, _ADD, "            elif _is_parent_tag(tag, key):\n                for p in self._token_values[key]:\n                    for t in self._token_values[key][p]:\n                        self._add_to_port(t, self._token_values.setdefault(tag, {}), p)\n", "", "R3"),
    V("both directions test the same relation", SFILE, _ADD, "elif _is_parent_tag(tag, key):", "elif _is_parent_tag(key, tag):", "R3"),
    V("parent tokens copied under the wrong port", SFILE, _ADD, "self._add_to_port(t, self._token_values.setdefault(tag, {}), p)", "self._add_to_port(t, self._token_values.setdefault(tag, {}), port_name)", "R3"),
    V("parent direction copies the arriving token", SFILE, _ADD, "self._add_to_port(t, self._token_values.setdefault(tag, {}), p)", "self._add_to_port(token, self._token_values.setdefault(tag, {}), p)", "R3"),
    V("depth strips one component too many", SFILE, _ADD, "tag.split('.')[:-depth]", "tag.split('.')[:-depth - 1]", "R3"),
    V("propagation ignores the flag", SFILE, _ADD, "if propagate:", "if True:", "R3"),
    V("schema tag from the first token only", SFILE, _ADD, "utils.get_tag([t['token'] for t in token.values()]) if isinstance(token, MutableMapping) else token.tag",
      "next(iter(token.values()))['token'].tag if isinstance(token, MutableMapping) else token.tag", "R3"),
    V("equal tag propagated to itself", SFILE, _ADD, "if tag == key:\n                continue\n            elif _is_parent_tag(key, tag):", "if _is_parent_tag(key, tag):", "R3"),
    V("base _add_to_port keeps only the first token of a port", SFILE, f"{COMB}._add_to_port", "    tag_values[port_name].append(token)", "        tag_values[port_name].append(token)", "R3"),
    V("scan stops at the entry with the same tag (seeded change C05-2)", SFILE, _ADD, "if tag == key:\n                continue", "if tag == key:\n                break", "R3"),
    V("scan stops after the first child tag", SFILE, _ADD, "self._add_to_port(token, self._token_values[key], port_name)\n",
      "self._add_to_port(token, self._token_values[key], port_name)\n                break\n", "R3"),
    V("only the direct parent tag is copied (seeded change C02-3)", SFILE, _ADD, "elif _is_parent_tag(tag, key):", "elif key == '.'.join(tag.split('.')[:-1]):", "R3"),
    V("benign: equal tag skipped with a nested test", SFILE, _ADD,
      "if tag == key:\n                continue\n            elif _is_parent_tag(key, tag):\n                self._add_to_port(token, self._token_values[key], port_name)\n            elif _is_parent_tag(tag, key):\n                for p in self._token_values[key]:\n                    for t in self._token_values[key][p]:\n                        self._add_to_port(t, self._token_values.setdefault(tag, {}), p)",
      "if tag != key:\n                if _is_parent_tag(key, tag):\n                    self._add_to_port(token, self._token_values[key], port_name)\n                elif _is_parent_tag(tag, key):\n                    for p in self._token_values[key]:\n                        for t in self._token_values[key][p]:\n                            self._add_to_port(t, self._token_values.setdefault(tag, {}), p)", None),
    # local alias of self._token_values + items() instead of re-indexing (benign refactoring B18-3)
    V("benign: _add_to_list through a local alias of self._token_values, parent ports via items()", SFILE, _ADD, _ADD_BLOCK,
      "    token_values = self._token_values\n    if propagate:\n        for key in list(token_values):\n            if tag == key:\n                continue\n            elif _is_parent_tag(key, tag):\n                self._add_to_port(token, token_values[key], port_name)\n            elif _is_parent_tag(tag, key):\n                for p, ancestor_tokens in token_values[key].items():\n                    for t in ancestor_tokens:\n                        self._add_to_port(t, token_values.setdefault(tag, {}), p)\n    self._add_to_port(token, token_values.setdefault(tag, {}), port_name)", None),
    V("alias form: the alias is a copy of self._token_values (the arriving token is stored in the copy only)", SFILE, _ADD, _ADD_BLOCK,
      "    token_values = dict(self._token_values)\n    if propagate:\n        for key in list(token_values):\n            if tag == key:\n                continue\n            elif _is_parent_tag(key, tag):\n                self._add_to_port(token, token_values[key], port_name)\n            elif _is_parent_tag(tag, key):\n                for p, ancestor_tokens in token_values[key].items():\n                    for t in ancestor_tokens:\n                        self._add_to_port(t, token_values.setdefault(tag, {}), p)\n    self._add_to_port(token, token_values.setdefault(tag, {}), port_name)", "R3"),
    V("alias form: parent tokens copied under the arriving port", SFILE, _ADD, _ADD_BLOCK,
      "    token_values = self._token_values\n    if propagate:\n        for key in list(token_values):\n            if tag == key:\n                continue\n            elif _is_parent_tag(key, tag):\n                self._add_to_port(token, token_values[key], port_name)\n            elif _is_parent_tag(tag, key):\n                for p, ancestor_tokens in token_values[key].items():\n                    for t in ancestor_tokens:\n                        self._add_to_port(t, token_values.setdefault(tag, {}), port_name)\n    self._add_to_port(token, token_values.setdefault(tag, {}), port_name)", "R3"),
    # ---- R4
    V("driver: re-arm removed", SFILE, f"{CSTEP}.run",
      "\n                if task_name not in terminated:\n                    input_tasks.append(asyncio.create_task(self.get_input_ports()[task_name].get(posixpath.join(self.name, task_name)), name=task_name))", "", "R4"),
    V("driver: re-arm under another name", SFILE, f"{CSTEP}.run",
      "get(posixpath.join(self.name, task_name)), name=task_name))", "get(posixpath.join(self.name, task_name)), name=port_name))", "R4"),
    V("driver: combine gets the port of the last loop", SFILE, f"{CSTEP}.run", "self.combinator.combine(task_name, token)", "self.combinator.combine(port_name, token)", "R4"),
    V("driver: tokens of one port are not combined", SFILE, f"{CSTEP}.run", "                    status = Status.COMPLETED\n                    async for schema in",
      "                    status = Status.COMPLETED\n                    if task_name == '__skip__':\n                        continue\n                    async for schema in", "R4"),
    V("driver: persisted on one port, put on another", SFILE, f"{LSTEP}.run", "self.get_output_port(port_name).put(await", "self.get_output_port().put(await", "R4"),
    V("driver: only the first port of a schema is emitted", SFILE, f"{LSTEP}.run", "input_token_ids=ins))", "input_token_ids=ins))\n                            break", "R4"),
    V("driver: provenance of the emitting entry only", SFILE, f"{CSTEP}.run", "input_token_ids=ins))", "input_token_ids=new_token['input_ids']))", "R4"),
    V("loop driver: termination tokens are combined", SFILE, f"{LSTEP}.run", "if check_termination(token):", "if False:", "R4"),
    V("driver: termination branch inverted", SFILE, f"{CSTEP}.run", "if check_termination(token):", "if not check_termination(token):", "R4"),
    # ---- R5
    V("_add_to_list dereferences before discriminating", SFILE, _ADD, "if isinstance(token, MutableMapping) else token.tag", "if not hasattr(token, 'tag') else token.tag", "R5"),
    V("dot: persistent_id read from an inner schema", CFILE, _DPROD,
      "if key in self.combinators:\n                        schema |= element\n                    else:\n                        schema[key] = {'token': element, 'input_ids': [element.persistent_id]}",
      "schema[key] = {'token': element, 'input_ids': [element.persistent_id]}", "R5"),
    V("base _add_to_port compares tags", SFILE, f"{COMB}._add_to_port", "tag_values[port_name].append(token)", "if all(t.tag != token.tag for t in tag_values[port_name]):\n        tag_values[port_name].append(token)", "R5"),
    # ---- benign
    V("benign: popleft instead of pop", CFILE, _DPROD, "elements.pop()", "elements.popleft()", None),
    V("benign: rename locals in dot _product", CFILE, _DPROD, "elements", "pending", None, count=2),
    V("benign: dict comprehension extracted into a local", CFILE, _CPROD,
      "cartesian_product = utils.dict_product(**{k: [token] if k == port_name else v for k, v in self._token_values[tag].items()})",
      "lists = {k: [token] if k == port_name else v for k, v in self._token_values[tag].items()}\n        cartesian_product = utils.dict_product(**lists)", None),
    V("benign: de-dup as a comprehension", CFILE, _CPORT, "    for t in tag_values[port_name]:\n        if t.tag == token.tag:\n            return\n    tag_values[port_name].append(token)",
      "    if not any(t.tag == token.tag for t in tag_values[port_name]):\n        tag_values[port_name].append(token)", None),
    V("de-dup comprehension with the wrong quantifier", CFILE, _CPORT, "    for t in tag_values[port_name]:\n        if t.tag == token.tag:\n            return\n    tag_values[port_name].append(token)",
      "    if any(t.tag == token.tag for t in tag_values[port_name]):\n        tag_values[port_name].append(token)", "R1"),
    # equivalent library calls (benign refactoring B1-6): dict.setdefault for test + assignment, any() for the loop with early return
    V("benign: cartesian de-dup over the setdefault port list kept in a local, any() with early return", CFILE, _CPORT, _CPORT_BODY,
      "    port_values = tag_values.setdefault(port_name, deque())\n    if any((t.tag == token.tag for t in port_values)):\n        return\n    port_values.append(token)", None),
    V("benign: cartesian de-dup loop over the setdefault port list", CFILE, _CPORT, _CPORT_BODY,
      "    port_values = tag_values.setdefault(port_name, [])\n    for t in port_values:\n        if t.tag == token.tag:\n            return\n    port_values.append(token)", None),
    V("benign: base _add_to_port appends to the setdefault port list", SFILE, f"{COMB}._add_to_port", _BPORT_BODY,
      "    tag_values.setdefault(port_name, deque()).append(token)", None),
    V("setdefault form: de-dup test inverted (new tags are refused, duplicates stored)", CFILE, _CPORT, _CPORT_BODY,
      "    port_values = tag_values.setdefault(port_name, deque())\n    if not any((t.tag == token.tag for t in port_values)):\n        return\n    port_values.append(token)", "R1"),
    V("setdefault form: scan of one list, append to another port's list", CFILE, _CPORT, _CPORT_BODY,
      "    port_values = tag_values.setdefault(port_name, deque())\n    if any((t.tag == token.tag for t in port_values)):\n        return\n    tag_values.setdefault(token.tag, deque()).append(token)", "R1"),
    V("setdefault form: the default already holds the token (stored twice on a new port)", SFILE, f"{COMB}._add_to_port", _BPORT_BODY,
      "    tag_values.setdefault(port_name, deque([token])).append(token)", "R3"),
    V("setdefault form: port list created but the token is not stored", SFILE, f"{COMB}._add_to_port", _BPORT_BODY,
      "    tag_values.setdefault(port_name, deque())", "R3"),
    V("setdefault form: element tags still read from a possibly-schema element", SFILE, f"{COMB}._add_to_port", _BPORT_BODY,
      "    stored = tag_values.setdefault(port_name, deque())\n    if all((t.tag != token.tag for t in stored)):\n        stored.append(token)", "R5"),
    # guard clauses / result temporaries (mechanical refactorings `guard`, `tempret`): the completeness guard is decided on branch facts
    V("benign: cartesian completeness as a guard clause (negated test + return)", CFILE, _CPROD, "    if len(self._token_values[tag]) == len(self.items):",
      "    if not len(self._token_values[tag]) == len(self.items):\n        return\n    if True:", None),
    V("benign: cartesian completeness as a `!=` guard clause", CFILE, _CPROD, "    if len(self._token_values[tag]) == len(self.items):",
      "    if len(self.items) != len(self._token_values[tag]):\n        return\n    if True:", None),
    V("benign: cartesian completeness in a flag local", CFILE, _CPROD, "    if len(self._token_values[tag]) == len(self.items):",
      "    complete = len(self._token_values[tag]) == len(self.items)\n    if not complete:\n        return\n    if True:", None),
    V("benign: dot completeness as a guard clause (negated test + continue)", CFILE, _DPROD, "        if len(self._token_values[tag]) == len(self.items):",
      "        if not len(self._token_values[tag]) == len(self.items):\n            continue\n        if True:", None),
    V("benign: dot completeness conjoined with another condition", CFILE, _DPROD, "        if len(self._token_values[tag]) == len(self.items):",
      "        if tag is not None and len(self._token_values[tag]) == len(self.items):", None),
    V("cartesian: guard clause leaves on the complete side", CFILE, _CPROD, "    if len(self._token_values[tag]) == len(self.items):",
      "    if len(self._token_values[tag]) == len(self.items):\n        return\n    if True:", "R1"),
    V("cartesian: guard clause only refuses larger maps", CFILE, _CPROD, "    if len(self._token_values[tag]) == len(self.items):",
      "    if not len(self._token_values[tag]) <= len(self.items):\n        return\n    if True:", "R1"),
    V("cartesian: completeness or-ed with another condition", CFILE, _CPROD, "    if len(self._token_values[tag]) == len(self.items):",
      "    if len(self._token_values[tag]) == len(self.items) or self.depth:", "R1"),
    V("dot: guard clause skips the complete tags", CFILE, _DPROD, "        if len(self._token_values[tag]) == len(self.items):",
      "        if not len(self._token_values[tag]) != len(self.items):\n            continue\n        if True:", "R2"),
    V("dot: guard clause does not leave the iteration", CFILE, _DPROD, "        if len(self._token_values[tag]) == len(self.items):",
      "        if not len(self._token_values[tag]) == len(self.items):\n            pass\n        if True:", "R2"),
    # the tested length held in a temporary (read through its single reaching definition)
    V("benign: cartesian completeness operand in a temporary", CFILE, _CPROD, "    if len(self._token_values[tag]) == len(self.items):",
      "    _sf_l1 = len(self._token_values[tag])\n    if _sf_l1 == len(self.items):", None),
    V("benign: dot completeness operand in a temporary", CFILE, _DPROD, "        if len(self._token_values[tag]) == len(self.items):",
      "        _sf_l2 = len(self._token_values[tag])\n        if _sf_l2 == len(self.items):", None),
    V("benign: both completeness operands in temporaries, logging in between, guard clause", CFILE, _DPROD,
      "        if len(self._token_values[tag]) == len(self.items):",
      "        have = len(self._token_values[tag])\n        want = len(self.items)\n        logger.debug(f'{tag}: {have} of {want}')\n        pass\n"
      "        if want != have:\n            continue\n        if True:", None),
    V("cartesian: the tested temporary is the number of tags, not of ports", CFILE, _CPROD, "    if len(self._token_values[tag]) == len(self.items):",
      "    _sf_l1 = len(self._token_values)\n    if _sf_l1 == len(self.items):", "R1"),
    V("cartesian: the tested temporary is stale (a port is dropped before the test)", CFILE, _CPROD, "    if len(self._token_values[tag]) == len(self.items):",
      "    n_ports = len(self._token_values[tag])\n    self._token_values[tag].pop(port_name, None)\n    if n_ports == len(self.items):", "R1"),
    V("dot: the tested temporary holds the length of the first bucket only", CFILE, _DPROD,
      "    for tag in list(self._token_values):\n        if len(self._token_values[tag]) == len(self.items):",
      "    n_ports = len(next(iter(self._token_values.values()), {}))\n    for tag in list(self._token_values):\n        if n_ports == len(self.items):", "R2"),
    V("dot: the tested temporary is re-bound on one path", CFILE, _DPROD, "        if len(self._token_values[tag]) == len(self.items):",
      "        n_ports = len(self._token_values[tag])\n        if tag:\n            n_ports = len(self.items)\n        if n_ports == len(self.items):", "R2"),
    V("benign: _is_parent_tag result in a temporary", SFILE, PARENT, "    return tag.split('.')[:len(parent_idx)] == parent_idx",
      "    _sf_ret = tag.split('.')[:len(parent_idx)] == parent_idx\n    return _sf_ret", None),
    V("_is_parent_tag: result temporary holds a string-prefix test", SFILE, PARENT, "    return tag.split('.')[:len(parent_idx)] == parent_idx",
      "    res = tag.split('.')[:len(parent_idx)] == parent_idx\n    if len(parent_idx) == 1:\n        res = tag.split('.')[0] >= parent_idx[0]\n    return res", "R3"),
    V("benign: guard operands swapped", CFILE, _CPROD, "if len(self._token_values[tag]) == len(self.items):", "if len(self.items) == len(self._token_values[tag]):", None),
    V("benign: logging in combine", CFILE, _CCOMB, "self._add_to_list(token, port_name, self.depth)", "logger.debug(f'combine {port_name}')\n        self._add_to_list(token, port_name, self.depth)", None),
    V("benign: keyword arguments", CFILE, _CCOMB, "self._add_to_list(token, port_name, self.depth)", "self._add_to_list(token=token, port_name=port_name, depth=self.depth)", None),
    V("benign: _is_parent_tag without the temporary", SFILE, PARENT, "parent_idx = parent.split('.')\n    return tag.split('.')[:len(parent_idx)] == parent_idx",
      "return parent.split('.') == tag.split('.')[:len(parent.split('.'))]", None),
    V("benign: driver computes the output port once", SFILE, f"{CSTEP}.run",
      "ins = [in_id for t in schema.values() for in_id in t['input_ids']]", "ins = [in_id for t in schema.values() for in_id in t['input_ids']]\n                        logger.debug(f'{len(ins)} inputs')", None),
    V("benign: driver keeps the output port in a local", SFILE, f"{CSTEP}.run",
      "self.get_output_port(port_name).put(await self._persist_token(token=new_token['token'], port=self.get_output_port(port_name), input_token_ids=ins))",
      "out_port = self.get_output_port(port_name)\n                            persisted = await self._persist_token(token=new_token['token'], port=out_port, input_token_ids=ins)\n                            out_port.put(persisted)", None),
    V("benign: tag computed with an if statement", SFILE, _ADD,
      "tag = utils.get_tag([t['token'] for t in token.values()]) if isinstance(token, MutableMapping) else token.tag",
      "if not isinstance(token, MutableMapping):\n        tag = token.tag\n    else:\n        tag = utils.get_tag([t['token'] for t in token.values()])", None),
    V("benign: rename comprehension variables in the product", CFILE, _CPROD, "{k: [token] if k == port_name else v for k, v in self._token_values[tag].items()}",
      "{name: [token] if port_name == name else values for name, values in self._token_values[tag].items()}", None),
    V("benign: dot product over a tuple of keys", CFILE, _DPROD, "for tag in list(self._token_values):", "for tag in tuple(self._token_values.keys()):", None),
    V("benign: rename the task variable", SFILE, f"{LSTEP}.run", "task_name", "finished_name", None, count=16),
]
