"""C03 Ports deliver every token to every consumer exactly once, in order.

Clauses decided (each a necessary condition of the delivery property):
R1 `Port.put` is a plain function (no suspension point, P5), records the token in `token_list`
   exactly once on every path and enqueues it with `put_nowait` on *every* queue of
   `self.queues` exactly once; every `put` override of a Port subclass is a plain function
   that delivers through `super().put`.
R2 `Port._init_consumer` is a plain function that creates an unbounded FIFO `asyncio.Queue`
   for the consumer and then replays the *whole* `token_list` in list order into that queue,
   unconditionally -- a late subscriber misses / duplicates / reorders nothing.
R3 `Port.get` initialises an unknown consumer before its first dequeue, with no suspension
   between the membership test and the initialisation; dequeues exactly once per call from the
   consumer's own queue and returns the dequeued token on every path.  Decided on branch facts
   (sfverif.facts): no dequeue is reachable from the entry once the edges on which
   `consumer in self.queues` holds and the `_init_consumer` nodes are cut; no `_init_consumer` is
   reachable once the edges on which the consumer is absent are cut (a known consumer is never
   re-initialised: its queue would be replaced by a fresh replay); from a suspension point no
   `_init_consumer` is reachable without evaluating the membership again.  The test may be spelled
   with either polarity, as a guard clause, inside a conjunction, or stored in a local flag that is
   assigned once outside every loop (the membership is then evaluated at the assignment, so an
   await between the assignment and the initialisation is a violation).
R4 ownership (whole program, P8): `token_list` / `queues` are mutated only by
   `Port.put/_init_consumer/__init__`; per-consumer queues are written/read only by
   `Port.put/_init_consumer/get` (a foreign `get` would steal a token, a foreign `put` duplicate one).
R5 `FilterTokenPort.put` forwards through `super().put(token)` exactly once iff
   `isinstance(token, TerminationToken) or self.filter_function(token)` (P10 over the CFG paths); the default
   filter admits every token (a lambda, or a named nested / module-level function, whose every path returns True;
   locals and a rebound parameter are followed through their assignments).  The class test that exempts tokens
   from the filter names TerminationToken (or a subclass) only: `isinstance(token, (IterationTerminationToken, TerminationToken))` still "contains" the
   termination test but lets a further token kind bypass filter_function.
R6 `InterWorkflowPort`: `put` sends a termination token straight to `super().put`; any other token
   visits *every* boundary: `remove_tag(token.tag)`, then the boundary action iff `is_satisfied()`;
   local delivery happens iff no satisfied boundary targets `self` (path enumeration with the loop
   unrolled twice).  `_execute_boundary_action` propagates before it terminates and never calls
   `self.put` for a boundary on itself (the receiver is `super()` exactly where the branch fact `boundary.port is self`
   holds and `boundary.port` where it does not -- sfverif.facts, so any spelling of the test, a conditional
   expression or an if statement around the temporary is read alike); `add_inter_port` copies the tag list,
   registers the boundary and replays the already present non-termination tokens in order through the same
   sequence; `BoundaryRule.is_satisfied` <=> no tag left; `remove_tag` removes the given tag.  As in R5, the
   termination tests of `put` / `add_inter_port` may not be widened to further token classes.

All rules of DESIGN section 3 (C03.R1-R6) are implemented.  Not armed: the order "register the rule, then replay"
inside add_inter_port (either order is behaviour-preserving: Port.put does not consult the boundaries),
`Port.close`/`task_done` bookkeeping, `JobPort`/`ConnectorPort` value unwrapping (not part of the delivery property).
"""

from __future__ import annotations

import ast
import itertools

from ..cfg import NORMAL
from ..dataflow import defs_of
from ..facts import atoms, facts_at
from ..facts import key as fact_key
from ..model import contains_await, dotted, parent, unparse, walk_no_nested
from ..selftest import V
from ._util_B import (
    TERMINATION_TOKEN,
    Unfoldable,
    all_origins,
    any_origin,
    arg_of,
    calls_in,
    class_test,
    class_test_extras,
    explore,
    is_len_of,
    is_name,
    is_param,
    is_self_attr,
    iter_base,
    iteration_tags,
    loop_unconditional,
    loop_value_names,
    method_call,
    orig,
    self_call,
    strip_cast,
    super_call,
    termination_subject,
    whole,
)

PORT = "streamflow.core.workflow.Port"
FILTER = "streamflow.workflow.port.FilterTokenPort"
INTER = "streamflow.workflow.port.InterWorkflowPort"
RULE = "streamflow.workflow.port.BoundaryRule"
CFILE = "streamflow/core/workflow.py"
PFILE = "streamflow/workflow/port.py"

META = {
    "explanation": (
        "CFG / def-use rules on Port.put, _init_consumer, get (must-pass-through, exactly-once, whole-container "
        "iteration, suspension-freedom), a whole-program who-may-write scan of `token_list` / `queues` (including "
        "local aliases), and bounded path enumeration with guard folding for FilterTokenPort.put and "
        "InterWorkflowPort.put/add_inter_port/_execute_boundary_action (loops unrolled twice, one truth value per "
        "atom and iteration). Decides necessary structural conditions of exactly-once in-order delivery."
    ),
    "undecided": (
        "'no token after termination' (depends on the callers' order of put calls), fairness of asyncio.Queue, "
        "aliases of token_list/queues passed through parameters or stored in other objects, more than two boundaries "
        "per port (loop unrolled twice)"
    ),
    "assumptions": [
        "asyncio.Queue() without maxsize is an unbounded FIFO; put_nowait on it never fails",
        "consumer names are the keys of Port.queues",
    ],
}


def _plain(f) -> bool:
    return not f.is_async and not contains_await(f.node)


def _second_param(ctx, f, what: str) -> str:
    ps = [p for p in f.params if p != "self"]
    ctx.require(len(ps) >= 1, f"C03: {f.qualname} lost its {what} parameter")
    ctx.require(is_param(f, ast.Name(id=ps[0], ctx=ast.Load())), f"C03: {f.qualname} rebinds its {what} parameter `{ps[0]}`")
    return ps[0]


def _exactly_once(g, ids: list[int]) -> tuple[bool, str]:
    """Every normal path entry->exit passes exactly one node of `ids`."""
    if not ids:
        return False, "no such statement"
    w = g.escape(g.entry, ids)
    if w is not None:
        return False, "a path avoids it: " + " -> ".join(g.describe(w))
    for a in ids:
        if set(ids) & g.reach([a]):
            return False, "it can execute twice on one path"
    return True, ""


def _must_pass(g, ids: list[int]) -> tuple[bool, str]:
    w = g.escape(g.entry, ids)
    return (True, "") if w is None else (False, "a path avoids the loop: " + " -> ".join(g.describe(w)))


def _exempt_only_termination(ctx, rule: str, f, label: str, consequence: str) -> None:
    """Every class test of `f` that the path enumeration reads as the atom
    "token is a TerminationToken" (`termination_subject`) names TerminationToken (or a subclass)
    *only*.  `isinstance(token, (IterationTerminationToken, TerminationToken))` still contains
    TerminationToken -- so the atom is recognised and the truth tables look unchanged -- but it
    exempts a wider set of tokens from the filter / boundary rules.  One obligation per test."""
    p = ctx.prog
    tests = [c for c in calls_in(f.node) if termination_subject(p, f, c) is not None]
    for i, c in enumerate(tests):
        extras = class_test_extras(p, f, c, TERMINATION_TOKEN)
        ctx.ob(
            rule,
            f"{label}: the termination exemption tests TerminationToken only",
            not extras,
            func=f,
            node=c,
            instance=f"{label}:exempt-class:{i}" if len(tests) > 1 else f"{label}:exempt-class",
            message=(
                f"{f.qualname}: `{unparse(c)}` also holds for {', '.join(extras)} tokens, which are not "
                f"termination tokens: {consequence}"
            ),
        )


# --------------------------------------------------------------------------- R1


def r1(ctx):
    p = ctx.prog
    f = p.func(f"{PORT}.put")
    ctx.require(f.cls is not None and f.cls.qualname == PORT, "C03.R1: Port.put is no longer defined in Port")
    tok = _second_param(ctx, f, "token")
    g = f.cfg
    ctx.ob("R1", "Port.put is a plain function (no suspension point)", _plain(f), func=f, node=f.node,
           instance="put:plain", message="Port.put can suspend: a concurrent put/_init_consumer may interleave with it")

    def is_tok(e):
        return is_param(f, e, tok)

    def is_token_list(e):
        return any_origin(f, e, lambda o: is_self_attr(o, "token_list"))

    # (b) history append
    appends = []
    for n in g.nodes.values():
        if n.kind != "stmt":
            continue
        a = n.ast
        if isinstance(a, ast.AugAssign) and isinstance(a.op, ast.Add) and is_self_attr(a.target, "token_list"):
            if isinstance(a.value, ast.List) and len(a.value.elts) == 1 and is_tok(a.value.elts[0]):
                appends.append(n.id)
        for c in n.calls():
            if method_call(c, "append") and is_token_list(c.func.value) and len(c.args) == 1 and is_tok(c.args[0]):
                appends.append(n.id)
    ok, why = _exactly_once(g, appends)
    ctx.ob("R1", "Port.put appends the token to token_list exactly once on every path", ok, func=f, node=f.node,
           instance="put:append", message=f"Port.put does not record the token in token_list exactly once ({why}): late subscribers miss it")
    # (c) every queue
    loops = [n for n in f.body_nodes() if isinstance(n, ast.For)]
    found = False
    for lp in loops:
        names = loop_value_names(f, lp.target, lp.iter, lambda e: is_self_attr(e, "queues"))
        if names is None:
            continue
        vals, keys = names

        def is_queue(e, vals=vals, keys=keys):
            if isinstance(e, ast.Name) and e.id in vals:
                return True
            return (
                isinstance(e, ast.Subscript)
                and is_self_attr(e.value, "queues")
                and isinstance(e.slice, ast.Name)
                and e.slice.id in keys
            )

        puts = [
            n.id
            for n in g.nodes.values()
            if any(method_call(c, "put_nowait") and is_queue(c.func.value) and len(c.args) == 1 and is_tok(c.args[0]) for c in n.calls())
        ]
        heads = g.ids_of(lp)
        if not heads:
            continue
        found = True
        ok1, why1 = _must_pass(g, heads)
        ok2, why2 = loop_unconditional(g, heads[0], puts)
        ctx.ob("R1", "Port.put enqueues the token on every consumer queue exactly once", ok1 and ok2, func=f, node=lp,
               instance="put:enqueue-all",
               message=f"Port.put does not enqueue the token on every queue exactly once ({why1 or why2})")
    if not found:
        # no loop over the whole queue map at all
        ctx.ob("R1", "Port.put enqueues the token on every consumer queue exactly once", False, func=f, node=f.node,
               instance="put:enqueue-all", message="Port.put has no loop over all of self.queues: some consumer never receives the token")
    # siblings: every override delivers through super().put and cannot suspend
    for o in p.overrides(PORT, "put"):
        if o.qualname == f.qualname:
            continue
        sup = [c for c in o.calls() if super_call(c, "put")]
        ctx.ob("R1", f"{o.cls.name}.put is a plain function delivering through super().put", _plain(o) and bool(sup),
               func=o, node=o.node, instance=f"{o.cls.name}.put:override",
               message=f"{o.qualname} overrides Port.put but {'can suspend' if not _plain(o) else 'never delivers through super().put'}")


# --------------------------------------------------------------------------- R2


def r2(ctx):
    p = ctx.prog
    f = p.func(f"{PORT}._init_consumer")
    ctx.require(f.cls is not None and f.cls.qualname == PORT, "C03.R2: Port._init_consumer is no longer defined in Port")
    cons = _second_param(ctx, f, "consumer")
    g = f.cfg
    ctx.ob("R2", "Port._init_consumer is a plain function (no suspension point)", _plain(f), func=f, node=f.node,
           instance="init:plain", message="_init_consumer can suspend between queue creation and replay: a concurrent put is duplicated or lost")

    def is_slot(e):
        return isinstance(e, ast.Subscript) and is_self_attr(e.value, "queues") and is_param(f, e.slice, cons)

    creates, qnames, bad_ctor = [], set(), ""
    for n in g.nodes.values():
        if n.kind != "stmt" or not isinstance(n.ast, (ast.Assign, ast.AnnAssign)):
            continue
        tgts = n.ast.targets if isinstance(n.ast, ast.Assign) else [n.ast.target]
        if not any(is_slot(t) for t in tgts) or n.ast.value is None:
            continue
        for o in orig(f, n.ast.value):
            if isinstance(o, ast.Call) and p.resolve_call(f, o, fanout=False) == ["asyncio.Queue"]:
                ms = arg_of(o, 0, "maxsize")
                if ms is None or (isinstance(ms, ast.Constant) and ms.value == 0):
                    creates.append(n.id)
                    if isinstance(n.ast.value, ast.Name):
                        qnames.add(n.ast.value.id)
                else:
                    bad_ctor = f"bounded queue `{unparse(o)}`"
            else:
                bad_ctor = bad_ctor or f"`{unparse(o)}` is not asyncio.Queue()"
    ok, why = _exactly_once(g, creates)
    ctx.ob("R2", "_init_consumer creates an unbounded FIFO asyncio.Queue for the consumer", ok and not bad_ctor, func=f,
           node=f.node, instance="init:create",
           message=f"_init_consumer does not create exactly one unbounded asyncio.Queue for the consumer ({bad_ctor or why})")

    def is_consumer_queue(e):
        if isinstance(e, ast.Name) and e.id in qnames:
            return True
        return any_origin(f, e, is_slot)

    loops = [n for n in f.body_nodes() if isinstance(n, ast.For)]
    replay = None
    for lp in loops:
        if isinstance(lp.target, ast.Name) and iter_base(f, lp.iter, ordered=False) and all(
            is_self_attr(b, "token_list") for b in iter_base(f, lp.iter, ordered=False)
        ):
            replay = lp
    if replay is None:
        ctx.ob("R2", "_init_consumer replays token_list into the new queue", False, func=f, node=f.node,
               instance="init:replay", message="_init_consumer does not replay token_list: a late subscriber misses every earlier token")
        ctx.ob("R2", "the replay enumerates the whole token_list in list order", False, func=f, node=f.node, trivial=True,
               instance="init:replay-order", message="no replay loop over token_list")
        return
    in_order = whole(f, replay.iter, lambda e: is_self_attr(e, "token_list"), ordered=True)
    ctx.ob("R2", "the replay enumerates the whole token_list in list order", in_order, func=f, node=replay,
           instance="init:replay-order", message=f"replay iterates `{unparse(replay.iter)}`: not the whole history in put order")
    var = replay.target.id
    puts = [
        n.id
        for n in g.nodes.values()
        if any(method_call(c, "put_nowait") and is_consumer_queue(c.func.value) and len(c.args) == 1 and is_name(c.args[0], var)
               for c in n.calls())
    ]
    heads = g.ids_of(replay)
    ctx.require(len(heads) == 1, "C03.R2: replay loop has no CFG node")
    ok1, why1 = _must_pass(g, heads)
    ok2, why2 = loop_unconditional(g, heads[0], puts)
    ok3 = bool(creates) and g.dominates(creates, heads[0])
    ctx.ob("R2", "every token of the history is put into the consumer's queue, after the queue exists", ok1 and ok2 and ok3,
           func=f, node=replay, instance="init:replay",
           message="replay incomplete: " + (why1 or why2 or "the queue is created after the replay"))
    for o in p.overrides(PORT, "_init_consumer"):
        if o.qualname == f.qualname:
            continue
        sup = [n.id for n in o.cfg.nodes.values() if any(super_call(c, "_init_consumer") for c in n.calls())]
        ctx.ob("R2", f"{o.cls.name}._init_consumer goes through Port._init_consumer", _plain(o) and bool(sup) and o.cfg.escape(o.cfg.entry, sup) is None,
               func=o, node=o.node, instance=f"{o.cls.name}._init_consumer:override")


# --------------------------------------------------------------------------- R3


def r3(ctx):
    p = ctx.prog
    f = p.func(f"{PORT}.get")
    ctx.require(f.cls is not None and f.cls.qualname == PORT, "C03.R3: Port.get is no longer defined in Port")
    cons = _second_param(ctx, f, "consumer")
    g = f.cfg

    def is_slot(e):
        return any_origin(f, e, lambda o: isinstance(o, ast.Subscript) and is_self_attr(o.value, "queues") and is_param(f, o.slice, cons))

    def is_membership(a):
        """canonical atom `consumer in self.queues` (facts.atoms folds `not in` / `not` into the truth value)"""
        return (
            isinstance(a, ast.Compare)
            and len(a.ops) == 1
            and isinstance(a.ops[0], ast.In)
            and is_param(f, a.left, cons)
            and all_origins(f, a.comparators[0], lambda o: is_self_attr(o, "queues"))
        )

    def flag_def(name: str):
        """The single plain assignment of a local flag (assigned once, outside every loop), or None."""
        ds = defs_of(f, name)
        if len(ds) != 1 or ds[0].kind not in ("assign", "walrus") or ds[0].index is not None or ds[0].value is None:
            return None
        d = ds[0]
        ids = list(g.node_containing(d.stmt) if d.kind == "walrus" else (g.ids_of(d.stmt) or g.node_containing(d.stmt)))
        if len(ids) != 1 or ids[0] in g.reach(ids):
            return None
        return d.value, ids[0]

    def implied(e, truth: bool, at: int, depth: int = 0) -> set[tuple[bool, int]]:
        """(value, evaluation node) pairs: the values of `consumer in self.queues` implied by the expression `e`
        (evaluated at CFG node `at`) being `truth`, with the CFG node that evaluated the membership.  Any spelling of
        the test is read alike (sfverif.facts.atoms); a local flag assigned once is followed to its assignment,
        which is then the evaluation node (the value of the flag is the membership *there*, not at the test)."""
        out: set[tuple[bool, int]] = set()
        for a, v in atoms(e, truth):
            if isinstance(a, ast.NamedExpr):
                out |= implied(a.value, v, at, depth)
            elif isinstance(a, ast.Name) and depth < 4:
                fd = flag_def(a.id)
                if fd is not None:
                    out |= implied(fd[0], v, fd[1], depth + 1)
            elif is_membership(a):
                out.add((v, at))
        return out

    # per test node: the membership value each edge implies, and where the membership was evaluated
    tests, evals = [], set()
    cut_known: set[tuple[int, str]] = set()  # edges on which `consumer in self.queues` holds
    cut_unknown: set[tuple[int, str]] = set()  # edges on which it does not
    for n in g.nodes.values():
        if n.kind != "test" or n.ast is None:
            continue
        on = {"t": implied(n.ast, True, n.id), "f": implied(n.ast, False, n.id)}
        if not on["t"] and not on["f"]:
            continue
        tests.append(n)
        for k, vs in on.items():
            for v, at in vs:
                evals.add(at)
                (cut_known if v else cut_unknown).add((n.id, k))

    def cut_path(dsts, cut_nodes, cut_edges):
        """Shortest normal path entry -> dsts that enters no node of `cut_nodes` and follows no edge of `cut_edges`."""
        dsts, cut_nodes = set(dsts), set(cut_nodes)
        prev, todo = {g.entry: None}, [g.entry]
        while todo:
            nxt = []
            for a in todo:
                for b, k in g.succ[a]:
                    if k not in NORMAL or (a, k) in cut_edges or b in prev:
                        continue
                    prev[b] = a
                    if b in dsts:
                        w = [b]
                        while prev[w[-1]] is not None:
                            w.append(prev[w[-1]])
                        return list(reversed(w))
                    if b not in cut_nodes:
                        nxt.append(b)
            todo = nxt
        return None

    deq = [n.id for n in g.nodes.values() if any(
        isinstance(a, ast.Await) and method_call(a.value, "get") and not a.value.args and is_slot(a.value.func.value)
        for a in n.walk())]
    inits = [n.id for n in g.nodes.values() if any(
        self_call(c, "_init_consumer") and len(c.args) == 1 and is_param(f, c.args[0], cons) for c in n.calls())]
    ctx.require(bool(deq), "C03.R3: Port.get does not await `self.queues[consumer].get()` any more")
    ok = bool(tests) and bool(inits)
    why = "" if ok else "no membership test / no _init_consumer(consumer) call"
    witness = []
    if ok:
        # (a) no dequeue without either `consumer in self.queues` established by a test or _init_consumer run before:
        #     once true the membership stays true (R4: nobody removes a queue), so a flag computed earlier is as good
        #     as the test itself on its "known" edge
        w = cut_path(deq, set(inits) - set(deq), cut_known)
        if w is not None:
            ok, why, witness = False, "an unknown consumer reaches `" + g.nodes[w[-1]].text(60) + "` without _init_consumer", g.describe(w)
        # (b) _init_consumer replaces the queue: it may only run where the consumer is known to be absent
        if ok:
            w = cut_path(inits, (), cut_unknown)
            if w is not None:
                ok, why, witness = False, (
                    "`" + g.nodes[w[-1]].text(60) + "` can run for a consumer that already has a queue "
                    "(the queue is replaced by a fresh replay: tokens are duplicated)"), g.describe(w)
            elif any(set(inits) & g.reach([i], avoid=evals) for i in inits):
                ok, why = False, "_init_consumer can run twice for the same consumer without a new membership test"
        # (c) "absent" is only valid until the next suspension point: from a suspension no initialisation may be
        #     reached without evaluating the membership again (the evaluation is the flag assignment for a flag)
        if ok:
            for s_ in sorted(g.suspension_nodes()):
                w = g.path(s_, inits, avoid=evals)
                if w is not None:
                    ok, why, witness = False, (
                        "suspension point `" + g.nodes[s_].text(60) + "` between the membership test and _init_consumer"), g.describe(w)
                    break
        if ok and not all(g.dominates([t.id for t in tests] + inits, d) for d in deq):
            ok, why = False, "a dequeue is reachable without testing whether the consumer is known"
    ctx.ob("R3", "an unknown consumer is initialised (atomically with the test) before its first dequeue", ok, func=f,
           node=f.node, instance="get:init-first", message=f"Port.get: {why}", witness=witness)
    once = all(not (set(deq) & g.reach([d])) for d in deq) and g.escape(g.entry, deq) is None
    ctx.ob("R3", "every call dequeues exactly once from the consumer's queue", once, func=f, node=f.node, instance="get:one-dequeue",
           message="Port.get dequeues zero or several tokens on some path: a token is skipped or the caller gets None")
    rets = [n for n in g.nodes.values() if n.kind == "return"]

    def is_dequeued(e):
        return all_origins(f, e, lambda o: method_call(o, "get") and is_slot(o.func.value)) and (
            isinstance(e, ast.Await) or isinstance(e, ast.Name)
        )

    good = [n.id for n in rets if n.ast.value is not None and is_dequeued(n.ast.value)]
    bad = [n for n in rets if n.id not in good]
    w = g.escape(g.entry, good)
    ctx.ob("R3", "every path returns the dequeued token", not bad and w is None, func=f, node=(bad[0].ast if bad else f.node),
           instance="get:return", message="Port.get does not return the dequeued token on every path",
           witness=g.describe(w) if w else [])
    for o in p.overrides(PORT, "get"):
        if o.qualname == f.qualname:
            continue
        sup = [n.id for n in o.cfg.nodes.values() if any(super_call(c, "get") for c in n.calls())]
        ctx.ob("R3", f"{o.cls.name}.get dequeues through Port.get", bool(sup) and o.cfg.escape(o.cfg.entry, sup) is None,
               func=o, node=o.node, instance=f"{o.cls.name}.get:override")


# --------------------------------------------------------------------------- R4


FIELDS = ("token_list", "queues")
CONTAINER_MUTATORS = {
    "append", "insert", "extend", "pop", "remove", "clear", "sort", "reverse", "popleft", "appendleft",
    "update", "setdefault", "popitem", "__setitem__", "__delitem__", "__iadd__",
}
QUEUE_OPS = {"put_nowait", "put", "get", "get_nowait"}
OWN_CONTAINER = {f"{PORT}.put", f"{PORT}._init_consumer", f"{PORT}.__init__"}
OWN_QUEUE = {f"{PORT}.put", f"{PORT}._init_consumer", f"{PORT}.get"}


def _field_of(e: ast.AST) -> str | None:
    return e.attr if isinstance(e, ast.Attribute) and e.attr in FIELDS else None


def _classify_use(node: ast.AST) -> tuple[str, str] | None:
    """How the expression `node` (a container or a queue) is used by its parent:
    ('mutate', how) / ('queue-op', how) / None (read)."""
    par = parent(node)
    if isinstance(par, (ast.Assign, ast.AnnAssign, ast.AugAssign)) and (
        node in getattr(par, "targets", []) or node is getattr(par, "target", None)
    ):
        return ("mutate", "rebound" if not isinstance(par, ast.AugAssign) else "augmented assignment")
    if isinstance(par, ast.Delete):
        return ("mutate", "del")
    if isinstance(par, ast.Subscript) and par.value is node:
        if isinstance(par.ctx, (ast.Store, ast.Del)):
            return ("mutate", "item " + ("assignment" if isinstance(par.ctx, ast.Store) else "deletion"))
        gp = parent(par)
        if isinstance(gp, ast.AugAssign) and gp.target is par:
            return ("mutate", "item augmented assignment")
    if isinstance(par, ast.Attribute) and par.value is node:
        gp = parent(par)
        if isinstance(gp, ast.Call) and gp.func is par and par.attr in CONTAINER_MUTATORS:
            return ("mutate", f".{par.attr}()")
    return None


def _queue_use(node: ast.AST) -> str | None:
    par = parent(node)
    if isinstance(par, ast.Attribute) and par.value is node and par.attr in QUEUE_OPS:
        gp = parent(par)
        if isinstance(gp, ast.Call) and gp.func is par:
            return f".{par.attr}()"
    return None


def _is_foreign_receiver(p, f, recv: ast.AST) -> bool:
    t = p.type_of(f, recv)
    return bool(t) and t in p.classes and not p.is_subclass(t, PORT)


def _line_has_field_attr(m, ln: int) -> bool:
    return any(isinstance(n, ast.Attribute) and n.attr in FIELDS and getattr(n, "lineno", 0) == ln for n in ast.walk(m.tree))


def r4(ctx):
    p = ctx.prog
    ctx.require(p.has(f"{PORT}.put") and p.has(f"{PORT}._init_consumer"), "C03.R4: owner methods vanished")
    seen_owner_writes = set()
    # the field names must occur textually in a module that touches them: skip the others
    touched: dict[str, object] = {}
    by_file: dict[str, list] = {}
    for f in p.all_funcs():
        by_file.setdefault(f.file, []).append(f)
    for m in p.modules.values():
        if m.relpath.startswith("streamflow/cwl/antlr/") or not any(fld in m.source for fld in FIELDS):
            continue
        hits = [i + 1 for i, line in enumerate(m.source.splitlines()) if any(fld in line for fld in FIELDS)]
        for ln in hits:
            inside = [f for f in by_file.get(m.relpath, []) if f.node.lineno <= ln <= (f.node.end_lineno or f.node.lineno)]
            if not inside and _line_has_field_attr(m, ln):
                ctx.require(False, f"C03.R4: token_list/queues used outside any function at {m.relpath}:{ln}")
            for f in inside:
                touched[f.qualname] = f
    for f in touched.values():
        # names bound to the containers / to single queues inside f
        cont_alias: dict[str, str] = {}
        queue_alias: set[str] = set()

        def field_root(e):
            e = strip_cast(e)
            if _field_of(e) is None:
                return None
            return _field_of(e) if not _is_foreign_receiver(p, f, e.value) else None

        def queue_elem(e):
            """`X.queues[k]`"""
            e = strip_cast(e)
            return isinstance(e, ast.Subscript) and field_root(e.value) == "queues" and not isinstance(e.slice, ast.Slice)

        def queues_view(e, views=("values",)):
            if not any(isinstance(x, ast.Attribute) and x.attr == "queues" for x in ast.walk(e)):
                return None
            e = strip_cast(e)
            for b in iter_base(f, e, ordered=False) or [e]:
                if method_call(b) and b.func.attr in views and field_root(b.func.value) == "queues":
                    return b.func.attr
            return None

        for n in f.body_nodes():
            if isinstance(n, ast.Assign) and len(n.targets) == 1 and isinstance(n.targets[0], ast.Name):
                r = field_root(n.value)
                if r:
                    cont_alias[n.targets[0].id] = r
                elif queue_elem(n.value):
                    queue_alias.add(n.targets[0].id)
            elif isinstance(n, ast.NamedExpr):
                r = field_root(n.value)
                if r:
                    cont_alias[n.target.id] = r
                elif queue_elem(n.value):
                    queue_alias.add(n.target.id)
            elif isinstance(n, (ast.For, ast.AsyncFor, ast.comprehension)):
                v = queues_view(n.iter, ("values", "items"))
                if v == "values" and isinstance(n.target, ast.Name):
                    queue_alias.add(n.target.id)
                elif v == "items" and isinstance(n.target, ast.Tuple) and len(n.target.elts) == 2 and isinstance(n.target.elts[1], ast.Name):
                    queue_alias.add(n.target.elts[1].id)
        sites = []  # (node, field, kind, how)
        for n in f.body_nodes():
            fld = None
            if isinstance(n, ast.Attribute) and n.attr in FIELDS and not _is_foreign_receiver(p, f, n.value):
                fld = n.attr
            elif isinstance(n, ast.Name) and isinstance(n.ctx, ast.Load) and n.id in cont_alias:
                fld = cont_alias[n.id]
            if fld is not None:
                use = _classify_use(n)
                if use is None and fld == "queues":
                    # X.queues[k].<op>()
                    par = parent(n)
                    if isinstance(par, ast.Subscript) and par.value is n and isinstance(par.ctx, ast.Load):
                        q = _queue_use(par)
                        if q:
                            use = ("queue-op", q)
                sites.append((n, fld, use))
            elif isinstance(n, ast.Name) and isinstance(n.ctx, ast.Load) and n.id in queue_alias:
                q = _queue_use(n)
                if q:
                    sites.append((n, "queues", ("queue-op", q)))
        for n, fld, use in sites:
            if f.name == "__init__" and f.cls is not None and p.is_subclass(f.cls.qualname, PORT) and f.qualname != f"{PORT}.__init__":
                owner_ok = False
            elif use is None:
                owner_ok = True
            elif use[0] == "mutate":
                owner_ok = f.qualname in OWN_CONTAINER
            else:
                owner_ok = f.qualname in OWN_QUEUE
            if use is not None and owner_ok:
                seen_owner_writes.add((f.qualname, fld))
            what = "read" if use is None else f"{use[0]} {use[1]}"
            ctx.ob(
                "R4",
                f"`{fld}` {what} in {f.qualname}",
                owner_ok if use is not None else True,
                func=f,
                node=n,
                instance=f"{fld}:{what}:{unparse(n)}",
                message=(
                    f"`{unparse(n)}` is {what.replace('mutate', 'mutated by').replace('queue-op', 'used through')} outside "
                    f"Port.put/_init_consumer{'/get' if use and use[0] == 'queue-op' else ''}: delivery is no longer exactly-once / in order"
                ),
            )
    ctx.require(bool(seen_owner_writes), "C03.R4: no owner write of token_list/queues was recognised (the scan is blind)")


# --------------------------------------------------------------------------- R5


def _valuations(names, fixed: dict):
    free = [n for n in names if fixed.get(n) is None]
    for bits in itertools.product((True, False), repeat=len(free)):
        v = {n: fixed[n] for n in names if fixed.get(n) is not None}
        v.update(dict(zip(free, bits)))
        yield v


def r5(ctx):
    p = ctx.prog
    f = p.func(f"{FILTER}.put")
    ctx.require(f.cls is not None and f.cls.qualname == FILTER, "C03.R5: FilterTokenPort.put vanished")
    tok = _second_param(ctx, f, "token")
    g = f.cfg

    def classify(e):
        s = termination_subject(p, f, e)
        if s is not None and is_param(f, s, tok):
            return "A"
        if self_call(e, "filter_function") and len(e.args) == 1 and is_param(f, e.args[0], tok) and not e.keywords:
            return "B"
        return None

    fwd = {n.id for n in g.nodes.values() if any(super_call(c, "put") and len(c.args) == 1 and is_param(f, c.args[0], tok) for c in n.calls())}
    other_put = [n for n in g.nodes.values() if any((super_call(c, "put") or self_call(c, "put")) for c in n.calls()) and n.id not in fwd]
    ctx.require(not other_put, "C03.R5: FilterTokenPort.put forwards something else than its token parameter")
    try:
        paths = [q for q in explore(g, classify) if q.end != "cut"]
    except Unfoldable as e:
        ctx.require(False, f"C03.R5: FilterTokenPort.put cannot be folded: {e}")
    ctx.require(bool(paths), "C03.R5: no path through FilterTokenPort.put")
    table: dict[tuple, set[int]] = {}
    for q in paths:
        if q.end != "exit":
            continue
        cnt = sum(1 for n in q.nodes() if n in fwd)
        fixed = {"A": q.val.get(((), "A")), "B": q.val.get(((), "B"))}
        for v in _valuations(("A", "B"), fixed):
            table.setdefault((v["A"], v["B"]), set()).add(cnt)
    for a, b in itertools.product((True, False), repeat=2):
        want = 1 if (a or b) else 0
        got = table.get((a, b), set())
        ctx.ob(
            "R5",
            f"termination={a}, filter={b}: token forwarded {want}x through super().put",
            got == {want},
            func=f,
            node=f.node,
            instance=f"filter.put:A={int(a)},B={int(b)}",
            message=(
                f"FilterTokenPort.put with isinstance(token, TerminationToken)={a} and filter_function(token)={b} "
                f"forwards the token {sorted(got)} times (expected {want})"
            ),
        )
    # A is "token is a TerminationToken", not a wider class test that merely contains TerminationToken
    _exempt_only_termination(ctx, "R5", f, "filter.put", "they are delivered although filter_function rejects them")

    # the default filter admits every token
    init = p.func(f"{FILTER}.__init__")
    asg = [n for n in init.body_nodes() if isinstance(n, (ast.Assign, ast.AnnAssign)) and n.value is not None and any(
        is_self_attr(t, "filter_function") for t in (n.targets if isinstance(n, ast.Assign) else [n.target]))]
    ctx.require(len(asg) >= 1, "C03.R5: FilterTokenPort.__init__ no longer assigns self.filter_function")
    cands, unread = [], []
    for a in asg:
        _default_filters(p, init, a.value, cands, unread)
    ctx.require(bool(cands) or not unread,
                "C03.R5: the default filter of FilterTokenPort is not a lambda / named function the rule can read"
                + (f" (`{unparse(unread[0])}`)" if unread else ""))
    ok = all(_admits_everything(c) for c in cands)
    ctx.ob("R5", "the default filter of FilterTokenPort admits every token", ok, func=init, node=asg[0], instance="filter.init:default",
           trivial=not cands, message="FilterTokenPort without an explicit filter_function does not admit every token")


def _named_function(p, f, name: str):
    """The function a bare name denotes inside `f`: a nested def of `f` (or of an enclosing function), else a
    module-level function / imported function of the program.  None when the name is (also) a variable."""
    from ..dataflow import defs_of

    if defs_of(f, name):
        return None
    g = f
    while g is not None:
        q = f"{g.qualname}.<locals>.{name}"
        if q in p.functions:
            return p.functions[q]
        g = g.outer
    q = p.resolve_dotted(f.module, name)
    return p.functions.get(q) if q else None


def _default_filters(p, init, e: ast.AST, cands: list, unread: list, depth: int = 0) -> None:
    """Collect the callables other than a constructor parameter that the expression `e` (assigned to
    `self.filter_function`) may denote: lambdas and named functions (`ast.Lambda` nodes / `Func` objects) go to
    `cands`; names that cannot be read go to `unread`.  Locals and a rebound parameter are followed through
    their assignments."""
    from ..dataflow import defs_of

    stack = [strip_cast(e)]
    while stack:
        x = stack.pop()
        if isinstance(x, ast.Lambda):
            cands.append(x)
            continue
        if isinstance(x, ast.Name):
            if not isinstance(x.ctx, ast.Load) or is_param(init, x):
                continue
            fn = _named_function(p, init, x.id)
            if fn is not None:
                cands.append(fn)
                continue
            ds = defs_of(init, x.id)
            if ds and depth < 4 and all(d.kind == "param" or (d.kind in ("assign", "walrus") and d.index is None) for d in ds):
                for d in ds:
                    if d.kind != "param":
                        _default_filters(p, init, d.value, cands, unread, depth + 1)
                continue
            unread.append(x)
            continue
        stack.extend(ast.iter_child_nodes(x))


def _admits_everything(c) -> bool:
    """A lambda whose body is the constant True / a plain named function that returns the constant True on every
    path (no path falls off the end, no raise)."""

    def true(o):
        return isinstance(o, ast.Constant) and o.value is True

    if isinstance(c, ast.Lambda):
        return true(c.body)
    if c.is_async or any(isinstance(n, (ast.Yield, ast.YieldFrom)) for n in c.body_nodes()):
        return False
    g = c.cfg
    rets = [n for n in g.nodes.values() if n.kind == "return"]
    good = [n.id for n in rets if n.ast.value is not None and all_origins(c, n.ast.value, true)]
    if not rets or len(good) != len(rets) or any(n.kind == "raise_stmt" for n in g.nodes.values()):
        return False
    return g.escape(g.entry, good) is None


# --------------------------------------------------------------------------- R6


def _sig(q, tags):
    return tuple((q.val.get((t, "S")), q.val.get((t, "P"))) for t in tags)


def _check_boundary_sequence(ctx, f, g, q, tags, rem, exe, what: str) -> str:
    """Per iteration: remove_tag before the is_satisfied test, action iff satisfied."""
    for t in tags:
        evs = [n for n, tg in q.events if tg == t]
        s = q.val.get((t, "S"))
        rpos = [i for i, n in enumerate(evs) if n in rem]
        spos = [i for i, n in enumerate(evs) if g.nodes[n].kind == "test" and any(method_call(c, "is_satisfied") for c in g.nodes[n].calls())]
        if len(rpos) != 1:
            return f"remove_tag runs {len(rpos)} times for a boundary"
        if s is None or not spos:
            return "is_satisfied() is not tested for a boundary"
        if rpos[0] > spos[0]:
            return "is_satisfied() is tested before remove_tag"
        n_exe = sum(1 for n in evs if n in exe)
        if n_exe != (1 if s else 0):
            return f"boundary action runs {n_exe} times although is_satisfied()={s}"
    return ""


def r6(ctx):
    p = ctx.prog
    # ---- put
    f = p.func(f"{INTER}.put")
    ctx.require(f.cls is not None and f.cls.qualname == INTER, "C03.R6: InterWorkflowPort.put vanished")
    tok = _second_param(ctx, f, "token")
    g = f.cfg
    loops = [n for n in f.body_nodes() if isinstance(n, ast.For)]
    bl = [lp for lp in loops if isinstance(lp.target, ast.Name) and whole(f, lp.iter, lambda e: is_self_attr(e, "boundaries"))]
    ctx.ob("R6", "put visits every boundary of self.boundaries", len(bl) == 1, func=f, node=f.node, instance="inter.put:all-boundaries",
           message="InterWorkflowPort.put does not loop over the whole self.boundaries list")
    if len(bl) == 1:
        bvar = bl[0].target.id

        def is_tag(e):
            return isinstance(e, ast.Attribute) and e.attr == "tag" and is_param(f, e.value, tok)

        def classify(e):
            s = termination_subject(p, f, e)
            if s is not None and is_param(f, s, tok):
                return "A"
            if method_call(e, "is_satisfied") and is_name(e.func.value, bvar) and not e.args:
                return "S"
            if isinstance(e, ast.Compare) and len(e.ops) == 1 and isinstance(e.ops[0], (ast.Is, ast.IsNot, ast.Eq, ast.NotEq)):
                l, r = e.left, e.comparators[0]
                if is_name(l, "self"):
                    l, r = r, l
                if is_name(r, "self") and isinstance(l, ast.Attribute) and l.attr == "port" and is_name(l.value, bvar):
                    return "P" if isinstance(e.ops[0], (ast.Is, ast.Eq)) else "!P"
            return None

        rem = {n.id for n in g.nodes.values() if any(
            method_call(c, "remove_tag") and is_name(c.func.value, bvar) and len(c.args) == 1 and is_tag(c.args[0]) for c in n.calls())}
        exe = {n.id for n in g.nodes.values() if any(
            self_call(c, "_execute_boundary_action") and len(c.args) == 2 and is_name(c.args[0], bvar) and is_param(f, c.args[1], tok)
            for c in n.calls())}
        loc = {n.id for n in g.nodes.values() if any(super_call(c, "put") and len(c.args) == 1 and is_param(f, c.args[0], tok) for c in n.calls())}
        flags = {n.targets[0].id for n in f.body_nodes() if isinstance(n, ast.Assign) and len(n.targets) == 1
                 and isinstance(n.targets[0], ast.Name) and isinstance(n.value, ast.Constant) and isinstance(n.value.value, bool)}
        try:
            paths = explore(g, classify, max_iter=2, strict_names=flags)
        except Unfoldable as e:
            ctx.require(False, f"C03.R6: InterWorkflowPort.put cannot be folded: {e}")
        paths = [q for q in paths if q.end == "exit"]
        ctx.require(bool(paths), "C03.R6: no path through InterWorkflowPort.put")
        scen: dict[tuple, str] = {}
        for q in paths:
            a = q.val.get(((), "A"))
            tags = [t for t in iteration_tags(q)]
            nloc = sum(1 for n in q.nodes() if n in loc)
            if a is True or (a is None and not tags and not rem & set(q.nodes())):
                key = ("termination",)
                err = ""
                if a is None:
                    err = "the token kind is not tested"
                elif nloc != 1:
                    err = f"termination token delivered {nloc} times locally"
                elif (rem | exe) & set(q.nodes()):
                    err = "termination token is run through the boundary rules"
            else:
                sig = _sig(q, tags)
                key = ("token", sig)
                err = "" if a is False else "the token kind is not tested"
                err = err or _check_boundary_sequence(ctx, f, g, q, tags, rem, exe, "put")
                if not err:
                    any_self = any(s and pp for s, pp in sig)
                    undecided_p = any(s and pp is None for s, pp in sig)
                    if undecided_p:
                        err = "a satisfied boundary is not compared with `self`"
                    elif nloc != (0 if any_self else 1):
                        err = f"token delivered locally {nloc} times although " + (
                            "a satisfied boundary targets this port" if any_self else "no satisfied boundary targets this port")
            if key not in scen or (err and not scen[key]):
                scen[key] = err
        ctx.require(len(scen) >= 4, f"C03.R6: only {len(scen)} put scenarios enumerated")
        for key, err in sorted(scen.items(), key=str):
            label = "termination token" if key[0] == "termination" else "boundaries (satisfied, targets self) = " + str(
                [(int(bool(s)), int(bool(pp))) for s, pp in key[1]])
            ctx.ob("R6", f"InterWorkflowPort.put, {label}", not err, func=f, node=f.node, instance=f"inter.put:{label}",
                   message=f"InterWorkflowPort.put, {label}: {err}")

    _exempt_only_termination(ctx, "R6", f, "inter.put", "they are delivered locally without visiting the boundary rules")

    # ---- _execute_boundary_action
    f = p.func(f"{INTER}._execute_boundary_action")
    ps = [x for x in f.params if x != "self"]
    ctx.require(len(ps) == 2, "C03.R6: _execute_boundary_action signature changed")
    bnd, tok = ps
    g = f.cfg

    def flag_atom(e, member):
        if isinstance(e, ast.Compare) and len(e.ops) == 1 and isinstance(e.ops[0], ast.In):
            l = dotted(e.left) or ""
            r = e.comparators[0]
            return l.endswith("BoundaryAction." + member) and isinstance(r, ast.Attribute) and r.attr == "action" and is_name(r.value, bnd)
        if isinstance(e, ast.BinOp) and isinstance(e.op, ast.BitAnd):
            ds = [dotted(e.left) or "", dotted(e.right) or ""]
            return any(d.endswith("BoundaryAction." + member) for d in ds) and any(d == f"{bnd}.action" for d in ds)
        return False

    def classify2(e):
        if flag_atom(e, "PROPAGATE"):
            return "PR"
        if flag_atom(e, "TERMINATE"):
            return "TE"
        return None

    def put_nodes(pred):
        return {n.id for n in g.nodes.values() if any(method_call(c, "put") and len(c.args) == 1 and pred(c.args[0]) for c in n.calls())}

    def is_term_ctor(e):
        return isinstance(e, ast.Call) and p.resolve_call(f, e, fanout=False) == [TERMINATION_TOKEN]

    put_tok = put_nodes(lambda a: is_param(f, a, tok))
    put_term = put_nodes(lambda a: any_origin(f, a, is_term_ctor))
    try:
        paths = [q for q in explore(g, classify2) if q.end == "exit"]
    except Unfoldable as e:
        ctx.require(False, f"C03.R6: _execute_boundary_action cannot be folded: {e}")
    table: dict[tuple, list[str]] = {}
    for q in paths:
        fixed = {"PR": q.val.get(((), "PR")), "TE": q.val.get(((), "TE"))}
        seq = ["tok" if n in put_tok else "term" for n in q.nodes() if n in put_tok or n in put_term]
        for v in _valuations(("PR", "TE"), fixed):
            table.setdefault((v["PR"], v["TE"]), []).append(",".join(seq))
    for pr, te in itertools.product((True, False), repeat=2):
        want = ",".join((["tok"] if pr else []) + (["term"] if te else []))
        got = set(table.get((pr, te), ["<no path>"]))
        ctx.ob("R6", f"_execute_boundary_action PROPAGATE={pr} TERMINATE={te}: puts [{want}]", got == {want}, func=f, node=f.node,
               instance=f"boundary-action:PR={int(pr)},TE={int(te)}",
               message=f"_execute_boundary_action with PROPAGATE={pr}, TERMINATE={te} performs puts {sorted(got)} (expected [{want}]: propagate first, then terminate)")
    # the receiver of the puts: boundary.port, or super() when the boundary targets this port
    recv_ok = True
    why = ""
    for n in g.nodes.values():
        for c in n.calls():
            if method_call(c, "put") and (n.id in put_tok or n.id in put_term):
                for o, known in _receiver_defs(f, g, c.func.value, n.id):
                    if not _target_ok(o, known, bnd):
                        recv_ok, why = False, unparse(o)
    ctx.ob("R6", "boundary action delivers to boundary.port, and to super() (not self.put) when the boundary targets this port",
           recv_ok, func=f, node=f.node, instance="boundary-action:target",
           message=f"_execute_boundary_action delivers through `{why}`: a boundary on the port itself re-enters put / reaches the wrong port")

    # ---- add_inter_port
    f = p.func(f"{INTER}.add_inter_port")
    g = f.cfg
    ctor = [c for c in f.calls() if p.resolve_call(f, c, fanout=False) == [RULE]]
    ctx.require(len(ctor) == 1, "C03.R6: add_inter_port no longer builds exactly one BoundaryRule")
    tags_arg = arg_of(ctor[0], 2, "tags")
    port_arg = arg_of(ctor[0], 1, "port")
    act_arg = arg_of(ctor[0], 0, "action")
    ps = [x for x in f.params if x != "self"]
    ctx.require(len(ps) == 3 and tags_arg is not None and port_arg is not None and act_arg is not None, "C03.R6: add_inter_port/BoundaryRule signature changed")
    copied = tags_arg is not None and not any(is_param(f, o) for o in orig(f, tags_arg)) and any(
        is_param(f, b, ps[1]) for b in iter_base(f, tags_arg, ordered=False))
    wired = is_param(f, port_arg, ps[0]) and is_param(f, act_arg, ps[2])
    ctx.ob("R6", "add_inter_port gives the rule its own copy of the tag list and the given port/action", copied and wired, func=f,
           node=ctor[0], instance="add_inter_port:rule",
           message="BoundaryRule shares the caller's tag list (remove_tag would edit it) or is wired to the wrong port/action")
    bnames = {n.targets[0].id for n in f.body_nodes() if isinstance(n, ast.Assign) and n.value is ctor[0] and isinstance(n.targets[0], ast.Name)}
    reg = [n.id for n in g.nodes.values() if any(
        method_call(c, "append") and is_self_attr(c.func.value, "boundaries") and len(c.args) == 1
        and (c.args[0] is ctor[0] or (isinstance(c.args[0], ast.Name) and c.args[0].id in bnames)) for c in n.calls())]
    ok, why = _exactly_once(g, reg)
    ctx.ob("R6", "add_inter_port registers the boundary", ok, func=f, node=f.node, instance="add_inter_port:register",
           message=f"add_inter_port does not append the new rule to self.boundaries exactly once ({why})")
    loops = [n for n in f.body_nodes() if isinstance(n, ast.For) and isinstance(n.target, ast.Name)]
    rl = [lp for lp in loops if _replay_iter(p, f, lp.iter) is not None]
    ctx.ob("R6", "add_inter_port replays the tokens already on the port", len(rl) == 1, func=f, node=f.node, instance="add_inter_port:replay",
           message="add_inter_port has no loop over self.token_list: tokens that arrived before the rule was added never reach the boundary")
    if len(rl) == 1 and bnames:
        lp = rl[0]
        shape = _replay_iter(p, f, lp.iter)
        ctx.ob("R6", "the replay covers exactly the non-termination tokens of token_list, in order, over a snapshot", shape == "ok", func=f,
               node=lp, instance="add_inter_port:replay-filter", message=f"replay iterable `{unparse(lp.iter)[:120]}`: {shape}")
        tvar = lp.target.id

        def classify3(e):
            if method_call(e, "is_satisfied") and isinstance(e.func.value, ast.Name) and e.func.value.id in bnames and not e.args:
                return "S"
            return None

        rem = {n.id for n in g.nodes.values() if any(
            method_call(c, "remove_tag") and isinstance(c.func.value, ast.Name) and c.func.value.id in bnames and len(c.args) == 1
            and isinstance(c.args[0], ast.Attribute) and c.args[0].attr == "tag" and is_name(c.args[0].value, tvar) for c in n.calls())}
        exe = {n.id for n in g.nodes.values() if any(
            self_call(c, "_execute_boundary_action") and len(c.args) == 2 and isinstance(c.args[0], ast.Name) and c.args[0].id in bnames
            and is_name(c.args[1], tvar) for c in n.calls())}
        try:
            paths = [q for q in explore(g, classify3, max_iter=2) if q.end == "exit"]
        except Unfoldable as e:
            ctx.require(False, f"C03.R6: add_inter_port cannot be folded: {e}")
        errs = {}
        for q in paths:
            tags = iteration_tags(q)
            sig = tuple(q.val.get((t, "S")) for t in tags)
            err = _check_boundary_sequence(ctx, f, g, q, tags, rem, exe, "add_inter_port")
            if sig not in errs or (err and not errs[sig]):
                errs[sig] = err
        ctx.require(len(errs) >= 3, f"C03.R6: only {len(errs)} replay scenarios enumerated")
        for sig, err in sorted(errs.items(), key=str):
            label = "replayed tokens satisfied=" + str([int(bool(s)) for s in sig])
            ctx.ob("R6", f"add_inter_port, {label}", not err, func=f, node=lp, instance=f"add_inter_port:{label}",
                   message=f"add_inter_port, {label}: {err}")

    _exempt_only_termination(ctx, "R6", f, "add_inter_port", "tokens of that kind already on the port are never replayed to the new boundary")

    # ---- BoundaryRule
    f = p.func(f"{RULE}.is_satisfied")
    rets = [n for n in f.body_nodes() if isinstance(n, ast.Return)]
    ctx.require(len(rets) >= 1, "C03.R6: is_satisfied has no return")
    ok = all(r.value is not None and all(_empty_test(o) for o in orig(f, r.value)) for r in rets)
    ctx.ob("R6", "BoundaryRule.is_satisfied <=> no tag left", ok, func=f, node=rets[0], instance="rule:is_satisfied",
           message=f"is_satisfied returns `{unparse(rets[0].value) if rets[0].value else None}` instead of `len(self.tags) == 0`")
    f = p.func(f"{RULE}.remove_tag")
    tg = _second_param(ctx, f, "tag")
    g = f.cfg
    rm = [n.id for n in g.nodes.values() if any(
        method_call(c) and c.func.attr in ("remove", "discard") and is_self_attr(c.func.value, "tags") and len(c.args) == 1 and is_param(f, c.args[0], tg)
        for c in n.calls())]
    # the removal may only be skipped when the tag is absent
    guarded = True
    w = g.escape(g.entry, rm) if rm else [g.entry]
    if w is not None and rm:
        tests = [g.nodes[i] for i in w if g.nodes[i].kind == "test"]
        guarded = len(tests) == 1 and _membership(f, tests[0].ast, tg) is not None and all(
            (_membership(f, tests[0].ast, tg) is True and k == "f") or (_membership(f, tests[0].ast, tg) is False and k == "t")
            for b, k in g.succ[tests[0].id] if b in w)
    ctx.ob("R6", "BoundaryRule.remove_tag removes the given tag whenever it is present", bool(rm) and guarded, func=f, node=f.node,
           instance="rule:remove_tag", message="remove_tag does not remove the tag it is given: the boundary never (or too early) becomes satisfied")


def _membership(f, e, tg):
    """True for `tag in self.tags`, False for `tag not in self.tags`, None otherwise."""
    if isinstance(e, ast.Compare) and len(e.ops) == 1 and is_param(f, e.left, tg) and is_self_attr(e.comparators[0], "tags"):
        if isinstance(e.ops[0], ast.In):
            return True
        if isinstance(e.ops[0], ast.NotIn):
            return False
    if isinstance(e, ast.UnaryOp) and isinstance(e.op, ast.Not):
        v = _membership(f, e.operand, tg)
        return None if v is None else not v
    return None


def _empty_test(e: ast.AST) -> bool:
    def tags(x):
        return is_self_attr(x, "tags")

    if isinstance(e, ast.UnaryOp) and isinstance(e.op, ast.Not) and tags(e.operand):
        return True
    if isinstance(e, ast.Compare) and len(e.ops) == 1:
        l, op, r = e.left, e.ops[0], e.comparators[0]
        zero = lambda x: isinstance(x, ast.Constant) and x.value == 0 and not isinstance(x.value, bool)  # noqa: E731
        one = lambda x: isinstance(x, ast.Constant) and x.value == 1 and not isinstance(x.value, bool)  # noqa: E731
        if isinstance(op, ast.Eq) and ((is_len_of(l, tags) and zero(r)) or (zero(l) and is_len_of(r, tags))):
            return True
        if isinstance(op, ast.LtE) and is_len_of(l, tags) and zero(r):
            return True
        if isinstance(op, ast.Lt) and is_len_of(l, tags) and one(r):
            return True
    return False


def _facts_common(g, ids: list[int]) -> list[tuple[ast.AST, bool]]:
    """Branch facts (atom, truth) that hold at every one of the CFG nodes `ids`."""
    if not ids:
        return []
    per = [facts_at(g, i) for i in ids]
    keys = [{(fact_key(a), v) for a, v in fs} for fs in per]
    return [(a, v) for a, v in per[0] if all((fact_key(a), v) in k for k in keys)]


def _receiver_defs(f, g, e: ast.AST, use: int) -> list[tuple[ast.AST, list]]:
    """The expression(s) a receiver denotes (conditional expressions kept whole), each with the branch facts
    that hold where it is evaluated: at the assignment for a local temporary, at the call itself otherwise."""
    from ..dataflow import defs_of

    if isinstance(e, ast.Name):
        ds = defs_of(f, e.id)
        if ds and all(d.kind in ("assign", "walrus") and d.index is None for d in ds):
            out = []
            for d in ds:
                ids = g.node_containing(d.stmt) if d.kind == "walrus" else (g.ids_of(d.stmt) or g.node_containing(d.stmt))
                out.append((strip_cast(d.value), _facts_common(g, list(ids))))
            return out
    return [(strip_cast(e), facts_at(g, use))]


def _target_ok(o: ast.AST, known: list, bnd: str) -> bool:
    """The receiver expression `o`, evaluated where the branch facts `known` hold, is `super()` exactly when
    `boundary.port is self` holds and `boundary.port` exactly when it does not.  The test may be spelled in any way
    (`is not` / `not ... is` / swapped operands / swapped arms of a conditional expression / an if statement around
    the assignment of the temporary): only the truth of the canonical atom on the way to each arm counts."""

    def is_port(x):
        return isinstance(x, ast.Attribute) and x.attr == "port" and is_name(x.value, bnd)

    def is_super(x):
        return isinstance(x, ast.Call) and is_name(x.func, "super")

    def same_port_atom(a):
        if not (isinstance(a, ast.Compare) and len(a.ops) == 1 and isinstance(a.ops[0], ast.Is)):
            return False
        l, r = a.left, a.comparators[0]
        return (is_port(l) and is_name(r, "self")) or (is_port(r) and is_name(l, "self"))

    o = strip_cast(o)
    if isinstance(o, ast.IfExp):
        return _target_ok(o.body, known + atoms(o.test, True), bnd) and _target_ok(o.orelse, known + atoms(o.test, False), bnd)
    vals = {v for a, v in known if same_port_atom(a)}
    if len(vals) != 1:
        return False
    same = vals.pop()
    return (is_super(o) and same) or (is_port(o) and not same)


def _replay_iter(p, f, it: ast.AST) -> str | None:
    """Shape of the replay iterable: None (not over token_list) | 'ok' | reason."""
    for o in orig(f, it):
        bases = iter_base(f, o, ordered=False)
        if bases and all(is_self_attr(b, "token_list") for b in bases):
            return "termination tokens are not filtered out / the live list is iterated"
        if isinstance(o, (ast.ListComp, ast.GeneratorExp)) and len(o.generators) == 1:
            gen = o.generators[0]
            src = iter_base(f, gen.iter, ordered=False)
            if not (src and all(is_self_attr(b, "token_list") for b in src)):
                continue
            if not whole(f, gen.iter, lambda e: is_self_attr(e, "token_list"), ordered=True):
                return "history is not enumerated in put order"
            if not (isinstance(gen.target, ast.Name) and is_name(o.elt, gen.target.id)):
                return "elements are transformed"
            if isinstance(o, ast.GeneratorExp):
                return "the live list is iterated lazily while _execute_boundary_action may append to it"
            if len(gen.ifs) != 1:
                return "filter is not exactly `not isinstance(t, TerminationToken)`"
            c = gen.ifs[0]
            if (
                isinstance(c, ast.UnaryOp)
                and isinstance(c.op, ast.Not)
                and (s := termination_subject(p, f, c.operand)) is not None
                and is_name(s, gen.target.id)
            ):
                return "ok"
            return "filter is not exactly `not isinstance(t, TerminationToken)`"
    return None


RULES = [("R1", r1), ("R2", r2), ("R3", r3), ("R4", r4), ("R5", r5), ("R6", r6)]
# R4: 27 access sites today (12 of them reads outside Port); R6: 15 put + 5 action + 11 add_inter_port + 2 BoundaryRule
FLOORS = {"R1": 5, "R2": 4, "R3": 3, "R4": 20, "R5": 6, "R6": 18}

_PUT = f"{PORT}.put"
_INIT = f"{PORT}._init_consumer"
_GET = f"{PORT}.get"
_FPUT = f"{FILTER}.put"
_IPUT = f"{INTER}.put"
_EXE = f"{INTER}._execute_boundary_action"
_ADD = f"{INTER}.add_inter_port"
_FINIT = f"{FILTER}.__init__"
SFILE = "streamflow/workflow/step.py"
_IMPORT_ITT = "from streamflow.workflow.token import IterationTerminationToken\n"
_GET_BODY = (
    "if consumer not in self.queues:\n        self._init_consumer(consumer)\n        return await self.queues[consumer].get()\n"
    "    else:\n        token = await self.queues[consumer].get()\n        self.queues[consumer].task_done()\n        return token"
)

VARIANTS = [
    # ---- R1
    V("put skips token_list.append", CFILE, _PUT, "self.token_list.append(token)\n    ", "", "R1", control=True),
    V("put enqueues only on the first queue", CFILE, _PUT, "in self.queues.values():", "in list(self.queues.values())[:1]:", "R1"),
    V("put stops after the first queue", CFILE, _PUT, "q.put_nowait(token)", "q.put_nowait(token)\n        break", "R1"),
    V("put enqueues only on empty queues", CFILE, _PUT, "q.put_nowait(token)", "if q.empty():\n            q.put_nowait(token)", "R1"),
    V("put records the token at the front", CFILE, _PUT, "self.token_list.append(token)", "self.token_list.insert(0, token)", "R1"),
    V("put can suspend between history and queues", CFILE, _PUT, "def put(self, token: Token) -> None:\n    self.token_list.append(token)",
      "async def put(self, token: Token) -> None:\n    self.token_list.append(token)\n    await asyncio.sleep(0)", "R1"),
    V("put enqueues another object", CFILE, _PUT, "q.put_nowait(token)", "q.put_nowait(self.token_list[0])", "R1"),
    # ---- R2
    V("_init_consumer without replay", CFILE, _INIT, "\n    for t in self.token_list:\n        self.queues[consumer].put_nowait(t)", "", "R2"),
    V("replay reversed", CFILE, _INIT, "in self.token_list:", "in reversed(self.token_list):", "R2"),
    V("replay drops the first token", CFILE, _INIT, "in self.token_list:", "in self.token_list[1:]:", "R2"),
    V("replay skips termination tokens", CFILE, _INIT, "self.queues[consumer].put_nowait(t)",
      "if t.value is not None:\n            self.queues[consumer].put_nowait(t)", "R2"),
    V("LIFO queue", CFILE, _INIT, "asyncio.Queue()", "asyncio.LifoQueue()", "R2"),
    V("bounded queue", CFILE, _INIT, "asyncio.Queue()", "asyncio.Queue(maxsize=1)", "R2"),
    V("replay into another consumer's queue", CFILE, _INIT, "self.queues[consumer].put_nowait(t)", "self.queues[self.name].put_nowait(t)", "R2"),
    # ---- R3
    V("get does not initialise unknown consumers", CFILE, _GET, "self._init_consumer(consumer)\n        ", "", "R3"),
    V("get tests the inverted condition", CFILE, _GET, "if consumer not in self.queues:", "if consumer in self.queues:", "R3"),
    V("get drops the token on the known-consumer branch", CFILE, _GET, "return token", "return None", "R3"),
    V("get dequeues twice", CFILE, _GET, "token = await self.queues[consumer].get()", "await self.queues[consumer].get()\n        token = await self.queues[consumer].get()", "R3"),
    V("get suspends between test and initialisation", CFILE, _GET, "self._init_consumer(consumer)", "await asyncio.sleep(0)\n        self._init_consumer(consumer)", "R3"),
    V("get reads another consumer's queue", CFILE, _GET, "token = await self.queues[consumer].get()", "token = await self.queues[self.name].get()", "R3"),
    # ---- R4
    V("external token_list.append", SFILE, "streamflow.workflow.step.ScatterStep.restore", "self.workflow.ports[port.name].put(token)",
      "self.workflow.ports[port.name].token_list.append(token)", "R4", control=True),
    V("external clear through an alias", SFILE, "streamflow.workflow.step.ScatterStep.restore", "valid_tags = [",
      "history = port.token_list\n    history.clear()\n    valid_tags = [", "R4"),
    V("close steals a token", CFILE, f"{PORT}.close", "self.queues[consumer].task_done()", "self.queues[consumer].get_nowait()", "R4"),
    V("close forgets the consumer", CFILE, f"{PORT}.close", "self.queues[consumer].task_done()", "del self.queues[consumer]", "R4"),
    V("get creates the queue itself", CFILE, _GET, "self._init_consumer(consumer)", "self.queues[consumer] = asyncio.Queue()", "R4"),
    V("module-level writer of queues", PFILE, None, None, None, "R4",
      append="def _drain(port):\n    for q in port.queues.values():\n        q.get_nowait()\n"),
    # ---- R5
    V("filter port: or -> and", PFILE, _FPUT, "isinstance(token, TerminationToken) or self.filter_function(token)",
      "isinstance(token, TerminationToken) and self.filter_function(token)", "R5", control=True),
    V("filter port filters termination tokens", PFILE, _FPUT, "isinstance(token, TerminationToken) or ", "", "R5"),
    V("filter port inverted", PFILE, _FPUT, "or self.filter_function(token)", "or not self.filter_function(token)", "R5"),
    V("filter port default rejects everything", PFILE, f"{FILTER}.__init__", "lambda _: True", "lambda _: False", "R5"),
    V("filter port forwards twice", PFILE, _FPUT, "super().put(token)", "super().put(token)\n        super().put(token)", "R5"),
    V("filter port forwards everything", PFILE, _FPUT, "elif logger.isEnabledFor(logging.DEBUG):", "else:\n        super().put(token)\n    if logger.isEnabledFor(logging.DEBUG):", "R5"),
    V("filter port exempts iteration-termination tokens (seeded C03-1: widened class tuple)", PFILE, _FPUT,
      "isinstance(token, TerminationToken) or", "isinstance(token, (IterationTerminationToken, TerminationToken)) or", "R5", control=True,
      append=_IMPORT_ITT),
    V("filter port exempts every token through a widened class tuple", PFILE, _FPUT,
      "isinstance(token, TerminationToken) or", "isinstance(token, (TerminationToken, Token)) or", "R5"),
    V("filter port exempts iteration-termination tokens (second class test)", PFILE, _FPUT,
      "isinstance(token, TerminationToken) or", "isinstance(token, TerminationToken) or isinstance(token, IterationTerminationToken) or", "R5",
      append=_IMPORT_ITT),
    V("filter port exempts iteration-termination tokens (early forward)", PFILE, _FPUT,
      "    if isinstance(token, TerminationToken) or",
      "    if isinstance(token, IterationTerminationToken):\n        super().put(token)\n        return\n    if isinstance(token, TerminationToken) or", "R5",
      append=_IMPORT_ITT),
    # ---- R6
    V("inter port lets iteration-termination tokens skip the boundary rules", PFILE, _IPUT,
      "if isinstance(token, TerminationToken):", "if isinstance(token, (TerminationToken, IterationTerminationToken)):", "R6", append=_IMPORT_ITT),
    V("add_inter_port does not replay iteration-termination tokens", PFILE, _ADD,
      "if not isinstance(t, TerminationToken)]", "if not isinstance(t, (TerminationToken, IterationTerminationToken))]", "R6", append=_IMPORT_ITT),
    V("inter port always delivers locally", PFILE, _IPUT, "if not matched_self:", "if True:", "R6"),
    V("inter port never delivers locally once a boundary fired", PFILE, _IPUT, "if boundary.port is self:\n                    matched_self = True", "matched_self = True", "R6"),
    V("inter port compares with the wrong polarity", PFILE, _IPUT, "if boundary.port is self:", "if boundary.port is not self:", "R6"),
    V("inter port does not remove the tag", PFILE, _IPUT, "boundary.remove_tag(token.tag)\n            ", "", "R6"),
    V("inter port tests before removing the tag", PFILE, _IPUT,
      "boundary.remove_tag(token.tag)\n            if boundary.is_satisfied():\n                self._execute_boundary_action(boundary, token)\n                if boundary.port is self:\n                    matched_self = True",
      "if boundary.is_satisfied():\n                self._execute_boundary_action(boundary, token)\n                if boundary.port is self:\n                    matched_self = True\n            boundary.remove_tag(token.tag)", "R6"),
    V("inter port stops at the first satisfied boundary", PFILE, _IPUT, "self._execute_boundary_action(boundary, token)", "self._execute_boundary_action(boundary, token)\n                break", "R6"),
    V("inter port runs termination tokens through the rules", PFILE, _IPUT, "if isinstance(token, TerminationToken):", "if False:", "R6"),
    V("inter port fires unsatisfied boundaries", PFILE, _IPUT, "if boundary.is_satisfied():", "if not boundary.is_satisfied():", "R6"),
    V("inter port only looks at the first boundary", PFILE, _IPUT, "in self.boundaries:", "in self.boundaries[:1]:", "R6"),
    V("terminate before propagate", PFILE, _EXE,
      "if BoundaryAction.PROPAGATE in boundary.action:\n        target.put(token)\n    if BoundaryAction.TERMINATE in boundary.action:\n        target.put(TerminationToken(Status.RECOVERED))",
      "if BoundaryAction.TERMINATE in boundary.action:\n        target.put(TerminationToken(Status.RECOVERED))\n    if BoundaryAction.PROPAGATE in boundary.action:\n        target.put(token)", "R6"),
    V("terminate only when not propagating", PFILE, _EXE, "    if BoundaryAction.TERMINATE in", "    elif BoundaryAction.TERMINATE in", "R6"),
    V("self boundary re-enters put", PFILE, _EXE, "boundary.port if boundary.port is not self else super()", "boundary.port", "R6"),
    V("is_satisfied == 1", PFILE, f"{RULE}.is_satisfied", "== 0", "== 1", "R6"),
    V("remove_tag inverted guard", PFILE, f"{RULE}.remove_tag", "if tag in self.tags:", "if tag not in self.tags:", "R6"),
    V("add_inter_port shares the tag list", PFILE, _ADD, "tags=list(boundary_tags)", "tags=boundary_tags", "R6"),
    V("add_inter_port replays termination tokens", PFILE, _ADD, " if not isinstance(t, TerminationToken)]", "]", "R6"),
    V("add_inter_port without replay condition", PFILE, _ADD, "if boundary.is_satisfied():\n            self._execute_boundary_action(boundary, token)", "self._execute_boundary_action(boundary, token)", "R6"),
    V("add_inter_port forgets to register", PFILE, _ADD, "self.boundaries.append(boundary)\n    ", "", "R6"),
    # ---- benign
    V("benign: rename loop variable", CFILE, _PUT, "for q in self.queues.values():\n        q.put_nowait(token)",
      "for queue in self.queues.values():\n        queue.put_nowait(token)", None),
    V("benign: iterate a snapshot of the queues", CFILE, _PUT, "in self.queues.values():", "in list(self.queues.values()):", None),
    V("benign: enqueue before recording", CFILE, _PUT, "self.token_list.append(token)\n    for q in self.queues.values():\n        q.put_nowait(token)",
      "for q in self.queues.values():\n        q.put_nowait(token)\n    self.token_list.append(token)", None),
    V("benign: iterate items()", CFILE, _PUT, "for q in self.queues.values():", "for _name, q in self.queues.items():", None),
    V("benign: queue into a local first", CFILE, _INIT, "self.queues[consumer] = asyncio.Queue()\n    for t in self.token_list:\n        self.queues[consumer].put_nowait(t)",
      "queue = asyncio.Queue()\n    self.queues[consumer] = queue\n    for t in list(self.token_list):\n        queue.put_nowait(t)", None),
    V("benign: get with a temporary and one return", CFILE, _GET,
      "self._init_consumer(consumer)\n        return await self.queues[consumer].get()", "self._init_consumer(consumer)\n        queue = self.queues[consumer]\n        first = await queue.get()\n        return first", None),
    V("benign: positive membership test", CFILE, _GET,
      "if consumer not in self.queues:\n        self._init_consumer(consumer)\n        return await self.queues[consumer].get()\n    else:\n        token = await self.queues[consumer].get()\n        self.queues[consumer].task_done()\n        return token",
      "if consumer in self.queues:\n        token = await self.queues[consumer].get()\n        self.queues[consumer].task_done()\n        return token\n    self._init_consumer(consumer)\n    return await self.queues[consumer].get()", None),
    # ---- R3 on branch facts: the membership test may be stored in a flag (evaluated at the assignment), spelled in any polarity
    V("benign: get hoists the common await behind a first-retrieval flag (B12-6)", CFILE, _GET, _GET_BODY,
      "first_get = consumer not in self.queues\n    if first_get:\n        self._init_consumer(consumer)\n    token = await self.queues[consumer].get()\n"
      "    if not first_get:\n        self.queues[consumer].task_done()\n    return token", None),
    V("benign: get with a positive `known` flag and guard clauses", CFILE, _GET, _GET_BODY,
      "known = consumer in self.queues\n    if not known:\n        self._init_consumer(consumer)\n    token = await self.queues[consumer].get()\n"
      "    if known:\n        self.queues[consumer].task_done()\n    return token", None),
    V("benign: get binds the flag with a walrus in the test", CFILE, _GET, _GET_BODY,
      "if (first_get := (consumer not in self.queues)):\n        self._init_consumer(consumer)\n    token = await self.queues[consumer].get()\n"
      "    if not first_get:\n        self.queues[consumer].task_done()\n    return token", None),
    V("get uses the first-retrieval flag with the wrong polarity", CFILE, _GET, _GET_BODY,
      "first_get = consumer not in self.queues\n    if not first_get:\n        self._init_consumer(consumer)\n    token = await self.queues[consumer].get()\n"
      "    if not first_get:\n        self.queues[consumer].task_done()\n    return token", "R3"),
    V("get suspends between computing the flag and the initialisation", CFILE, _GET, _GET_BODY,
      "first_get = consumer not in self.queues\n    await asyncio.sleep(0)\n    if first_get:\n        self._init_consumer(consumer)\n"
      "    token = await self.queues[consumer].get()\n    if not first_get:\n        self.queues[consumer].task_done()\n    return token", "R3"),
    V("get overwrites the flag before testing it", CFILE, _GET, _GET_BODY,
      "first_get = consumer not in self.queues\n    first_get = bool(self.token_list)\n    if first_get:\n        self._init_consumer(consumer)\n"
      "    token = await self.queues[consumer].get()\n    return token", "R3"),
    V("get re-initialises a known consumer", CFILE, _GET, "    else:\n        token = await", "    else:\n        self._init_consumer(consumer)\n        token = await", "R3"),
    V("get initialises unknown consumers only when the history is not empty", CFILE, _GET, "if consumer not in self.queues:",
      "if consumer not in self.queues and self.token_list:", "R3"),
    V("benign: filter decision into a local", PFILE, _FPUT, "if isinstance(token, TerminationToken) or self.filter_function(token):",
      "admitted = isinstance(token, TerminationToken) or self.filter_function(token)\n    if admitted:", None),
    V("benign: filter port early return", PFILE, _FPUT, "if isinstance(token, TerminationToken) or self.filter_function(token):\n        super().put(token)\n    elif",
      "if isinstance(token, TerminationToken):\n        super().put(token)\n        return\n    if self.filter_function(token):\n        super().put(token)\n    elif", None),
    V("benign: filter port one-element class tuple", PFILE, _FPUT, "isinstance(token, TerminationToken) or", "isinstance(token, (TerminationToken,)) or", None),
    V("benign: filter port tests termination through check_termination", PFILE, _FPUT, "isinstance(token, TerminationToken) or", "check_termination(token) or", None,
      append="from streamflow.workflow.utils import check_termination\n"),
    V("benign: inter port one-element class tuple", PFILE, _IPUT, "if isinstance(token, TerminationToken):", "if isinstance(token, (TerminationToken,)):", None),
    V("benign: inter port early-continue style", PFILE, _IPUT,
      "if boundary.is_satisfied():\n                self._execute_boundary_action(boundary, token)\n                if boundary.port is self:\n                    matched_self = True",
      "if not boundary.is_satisfied():\n                continue\n            self._execute_boundary_action(boundary, token)\n            matched_self = matched_self or boundary.port is self", None),
    V("benign: inter port logging and rename", PFILE, _IPUT, "matched_self", "delivered_by_rule", None, count=3),
    V("benign: conditional expression the other way round", PFILE, _EXE, "boundary.port if boundary.port is not self else super()",
      "super() if boundary.port is self else boundary.port", None),
    V("benign: is_satisfied as emptiness", PFILE, f"{RULE}.is_satisfied", "len(self.tags) == 0", "not self.tags", None),
    V("benign: register after the replay", PFILE, _ADD, "self.boundaries.append(boundary)\n    for token in [t for t in self.token_list if not isinstance(t, TerminationToken)]:\n        boundary.remove_tag(token.tag)\n        if boundary.is_satisfied():\n            self._execute_boundary_action(boundary, token)",
      "for token in [t for t in self.token_list if not isinstance(t, TerminationToken)]:\n        boundary.remove_tag(token.tag)\n        if boundary.is_satisfied():\n            self._execute_boundary_action(boundary, token)\n    self.boundaries.append(boundary)", None),
    # ---- spelling-independent recognisers (facts.py): receiver of the boundary action, default filter as a named function
    V("benign: receiver test spelled `not ... is`", PFILE, _EXE, "boundary.port if boundary.port is not self else super()",
      "boundary.port if not boundary.port is self else super()", None),
    V("benign: receiver test with swapped operands and arms", PFILE, _EXE, "boundary.port if boundary.port is not self else super()",
      "super() if not self is not boundary.port else boundary.port", None),
    V("benign: receiver chosen by an if statement", PFILE, _EXE, "target = boundary.port if boundary.port is not self else super()",
      "if not boundary.port is self:\n        target = boundary.port\n    else:\n        target = super()", None),
    V("benign: receiver chosen by a guard clause around direct puts", PFILE, _EXE,
      "target = boundary.port if boundary.port is not self else super()\n    if BoundaryAction.PROPAGATE in boundary.action:\n        target.put(token)",
      "target = boundary.port if boundary.port is not self else super()\n    if BoundaryAction.PROPAGATE in boundary.action:\n        if boundary.port is self:\n            super().put(token)\n        else:\n            boundary.port.put(token)", None),
    V("receiver test `not ... is not`: self boundary re-enters put", PFILE, _EXE, "boundary.port if boundary.port is not self else super()",
      "boundary.port if not boundary.port is not self else super()", "R6"),
    V("receiver chosen by an if statement with the arms swapped", PFILE, _EXE, "target = boundary.port if boundary.port is not self else super()",
      "if boundary.port is self:\n        target = boundary.port\n    else:\n        target = super()", "R6"),
    V("receiver test weakened by a conjunction", PFILE, _EXE, "boundary.port if boundary.port is not self else super()",
      "boundary.port if boundary.port is not self and token.tag else super()", "R6"),
    V("benign: default filter as a module-level function", PFILE, _FINIT, "filter_function or (lambda _: True)",
      "filter_function or _admit", None, append="def _admit(_):\n    return True\n"),
    V("default filter as a module-level function rejecting termination-free tokens", PFILE, _FINIT, "filter_function or (lambda _: True)",
      "filter_function or _admit", "R5", append="def _admit(t):\n    return bool(t.value)\n"),
    V("benign: default filter as a named function defined before the assignment", PFILE, _FINIT,
      "self.filter_function: Callable[[Token], bool] = filter_function or (lambda _: True)",
      "def _admit(_):\n        return True\n    self.filter_function: Callable[[Token], bool] = filter_function or _admit", None),
    V("benign: default filter bound by rebinding the parameter", PFILE, _FINIT,
      "self.filter_function: Callable[[Token], bool] = filter_function or (lambda _: True)",
      "if filter_function is None:\n        filter_function = lambda _: True\n    self.filter_function: Callable[[Token], bool] = filter_function", None),
    V("default filter as a named function rejecting everything", PFILE, _FINIT,
      "self.filter_function: Callable[[Token], bool] = filter_function or (lambda _: True)",
      "def _admit(_):\n        return False\n    self.filter_function: Callable[[Token], bool] = filter_function or _admit", "R5"),
    V("default filter as a named function that admits only some tokens", PFILE, _FINIT,
      "self.filter_function: Callable[[Token], bool] = filter_function or (lambda _: True)",
      "def _admit(t):\n        if t.tag != '0':\n            return True\n    self.filter_function: Callable[[Token], bool] = filter_function or _admit", "R5"),
    V("benign: external read of token_list with logging", SFILE, "streamflow.workflow.step.ScatterStep.restore", "for token in port.token_list:",
      "logger.debug(f'replaying {len(port.token_list)} tokens')\n    for token in port.token_list:", None),
]
