"""Helpers shared by the rule modules of group G (C30, C31, C32, C34).

Everything here works on the parsed program only (ast / CFG); nothing is imported from /repo.

* `expand(f, expr)`        -- the expression with single-assignment locals substituted (a new AST)
* `norm(f, expr)`          -- `unparse(expand(...))`: a text that survives "hoist into a temporary"
* `calls_deep(f, expr)`    -- every Call evaluated by `expr`, following locals into their definitions
* `resolved(prog, f, c)`   -- set of qualified names a call may denote (without override fan-out)
* `fold(expr, env)`        -- P10 finite-domain folding of and/or/not over named boolean atoms
* `guards_of(node)`        -- enclosing If / IfExp / match-case conditions with polarity
* `assign_nodes(g, name)`  -- CFG nodes that (re)bind a local name
* `reaching(f, name, at)`  -- reaching definitions of `name` at CFG node `at` ('param' included)
* `impure(prog, f, expr)`  -- expression contains a call whose value differs per evaluation
* `calls_flow(f, expr, at)`-- like calls_deep but follows only the definitions that reach CFG node `at`
* `expand_at(f, expr, at)` -- like expand, but flow-sensitive: a local is substituted by the *one* definition that
                              reaches CFG node `at` (survives `tmp = <expr>; return tmp` repeated on several branches)
* `flow_values(f, e, at)`  -- [(expression, defining CFG node)] a bare local read at `at` may denote (all reaching plain
                              assignments; `tmp = <e>; return tmp` -> `<e>` evaluated at the assignment)
* `clone(node)`            -- structural AST copy that does not follow the engine's `_parent` back-pointers
                              (copy.deepcopy on an engine AST copies the whole module through `_parent`)
"""

from __future__ import annotations

import ast

from ..dataflow import defs_of
from ..model import Func, Program, dotted, parent, unparse, walk_no_nested


# --------------------------------------------------------------------------- substitution


def _single_def(f: Func, name: str):
    ds = defs_of(f, name)
    if len(ds) == 1 and ds[0].kind in ("assign", "walrus") and ds[0].index is None and ds[0].value is not None:
        return ds[0].value
    return None


def clone(n):
    """Structural copy of an AST (the engine's `_parent` back-pointers are not followed)."""
    if isinstance(n, ast.AST):
        new = n.__class__()
        for fld in n._fields:
            if hasattr(n, fld):
                setattr(new, fld, clone(getattr(n, fld)))
        for a in n._attributes:
            if hasattr(n, a):
                setattr(new, a, getattr(n, a))
        return new
    if isinstance(n, list):
        return [clone(x) for x in n]
    return n


def expand(f: Func, expr: ast.AST, depth: int = 4, _seen: frozenset = frozenset()) -> ast.AST:
    """Copy of `expr` in which every local that has exactly one plain assignment in `f`
    (and is not a parameter) is replaced by the assigned expression."""

    class T(ast.NodeTransformer):
        def visit_Name(self, n: ast.Name):
            if isinstance(n.ctx, ast.Load) and depth > 0 and n.id not in _seen and n.id not in f.params:
                v = _single_def(f, n.id)
                if v is not None:
                    return expand(f, v, depth - 1, _seen | {n.id})
            return n

        def visit_Await(self, n: ast.Await):
            return self.visit(n.value)

    return T().visit(clone(expr))


def flow_values(f: Func, expr: ast.AST, at: int, depth: int = 4) -> list[tuple[ast.AST, int]]:
    """[(expression, CFG node evaluating it)] that `expr`, read at CFG node `at`, may denote: a bare local whose
    reaching definitions at `at` are all plain assignments / walruses (not the parameter value) is replaced by the
    assigned expressions, each paired with its defining node, recursively (`tmp = <e>; return tmp` -> `<e>` at the
    assignment).  The nodes returned are the original AST nodes (not copies)."""
    if isinstance(expr, ast.Await):
        return flow_values(f, expr.value, at, depth)
    if isinstance(expr, ast.Name) and isinstance(expr.ctx, ast.Load) and depth > 0:
        ds = reaching(f, expr.id, at)
        if ds and "param" not in ds:
            vals = [(def_value(f, expr.id, d), d) for d in ds]
            if all(v is not None for v, _ in vals):
                out = []
                for v, d in vals:
                    out.extend(flow_values(f, v, d, depth - 1))
                return out
    return [(expr, at)]


def norm(f: Func, expr: ast.AST) -> str:
    return " ".join(unparse(expand(f, expr)).split())


def calls_deep(f: Func, expr: ast.AST, depth: int = 4, _seen: frozenset = frozenset()) -> list[ast.Call]:
    """Calls evaluated by `expr`, including those inside the definitions of the locals it reads
    (all assignments, loop iterables and context expressions, flow-insensitively)."""
    out: list[ast.Call] = []
    for n in [expr, *walk_no_nested(expr)]:
        if isinstance(n, ast.Call):
            out.append(n)
        elif isinstance(n, ast.Name) and isinstance(n.ctx, ast.Load) and depth > 0 and n.id not in _seen:
            for d in defs_of(f, n.id):
                if d.kind in ("assign", "walrus", "aug", "for", "comp", "with") and d.value is not None:
                    out.extend(calls_deep(f, d.value, depth - 1, _seen | {n.id}))
    return out


def resolved(prog: Program, f: Func, call: ast.Call) -> set[str]:
    return set(prog.resolve_call(f, call, fanout=False))


def is_call_to(prog: Program, f: Func, node: ast.AST, *names: str) -> bool:
    """`node` is a call (possibly awaited) that resolves to one of `names` (full name or dotted suffix)."""
    if isinstance(node, ast.Await):
        node = node.value
    if not isinstance(node, ast.Call):
        return False
    for q in prog.resolve_call(f, node, fanout=False):
        for nm in names:
            if q == nm or q.endswith("." + nm):
                return True
    return False


# --------------------------------------------------------------------------- P10


class NotFoldable(Exception):
    pass


def fold(expr: ast.AST, env: dict[str, bool]) -> bool:
    """Evaluate a guard built from and/or/not over atoms whose `unparse` text is a key of `env`
    (plus True/False constants and `==`/`!=`/`is`/`is not` against True/False).  Anything else
    raises NotFoldable: the rule instance is then *not decidable*, never guessed."""
    if isinstance(expr, ast.Constant) and isinstance(expr.value, bool):
        return expr.value
    if isinstance(expr, ast.BoolOp):
        vals = [fold(v, env) for v in expr.values]
        return all(vals) if isinstance(expr.op, ast.And) else any(vals)
    if isinstance(expr, ast.UnaryOp) and isinstance(expr.op, ast.Not):
        return not fold(expr.operand, env)
    if isinstance(expr, ast.Compare) and len(expr.ops) == 1:
        rhs = expr.comparators[0]
        if isinstance(rhs, ast.Constant) and isinstance(rhs.value, bool):
            lhs = fold(expr.left, env)
            if isinstance(expr.ops[0], (ast.Eq, ast.Is)):
                return lhs == rhs.value
            if isinstance(expr.ops[0], (ast.NotEq, ast.IsNot)):
                return lhs != rhs.value
    t = unparse(expr)
    if t in env:
        return env[t]
    raise NotFoldable(t)


def atoms_in(expr: ast.AST, atoms) -> set[str]:
    found = set()
    for n in ast.walk(expr):
        if isinstance(n, (ast.Attribute, ast.Name)):
            t = unparse(n)
            if t in atoms:
                found.add(t)
    return found


def guards_of(node: ast.AST, stop: ast.AST | None = None) -> list[tuple[ast.AST, bool, ast.AST]]:
    """[(condition, polarity, owner)] of every enclosing `if` statement / conditional expression
    between `node` and `stop` (the function), innermost first.  polarity False = else side."""
    out = []
    child = node
    p = parent(node)
    while p is not None and p is not stop:
        if isinstance(p, ast.If):
            if any(child is s for s in p.body):
                out.append((p.test, True, p))
            elif any(child is s for s in p.orelse):
                out.append((p.test, False, p))
        elif isinstance(p, ast.IfExp):
            if child is p.body:
                out.append((p.test, True, p))
            elif child is p.orelse:
                out.append((p.test, False, p))
        elif isinstance(p, ast.BoolOp) and isinstance(p.op, ast.And):
            # `a and <child>`: child evaluated only when the preceding operands are true
            idx = next((i for i, v in enumerate(p.values) if v is child), 0)
            for v in p.values[:idx]:
                out.append((v, True, p))
        elif isinstance(p, (ast.FunctionDef, ast.AsyncFunctionDef, ast.Lambda, ast.ClassDef)):
            break
        child = p
        p = parent(p)
    return out


def case_constants(node: ast.AST, stop: ast.AST | None = None) -> set:
    """Constants named by the enclosing `case` patterns / `if` tests of `node` (used to recognise
    "this code runs for class File or Directory" in both match and if-chain form)."""
    out = set()
    child = node
    p = parent(node)
    while p is not None and p is not stop:
        if isinstance(p, ast.match_case) and any(child is s for s in p.body):
            for n in ast.walk(p.pattern):
                if isinstance(n, ast.MatchValue) and isinstance(n.value, ast.Constant):
                    out.add(n.value.value)
        elif isinstance(p, ast.If) and any(child is s for s in p.body):
            for n in ast.walk(p.test):
                if isinstance(n, ast.Constant) and isinstance(n.value, str):
                    out.add(n.value)
        child = p
        p = parent(p)
    return out


# --------------------------------------------------------------------------- reaching definitions


def _binds(node, name: str) -> bool:
    """CFG node (re)binds local `name` at this node (not in a nested body)."""
    a = node.ast
    if a is None:
        return False
    if node.kind == "stmt":
        if isinstance(a, ast.Assign):
            tg = a.targets
        elif isinstance(a, (ast.AnnAssign, ast.AugAssign)):
            tg = [a.target]
        else:
            tg = []
        for t in tg:
            for n in ast.walk(t):
                if isinstance(n, ast.Name) and n.id == name and isinstance(n.ctx, ast.Store):
                    return True
    if node.kind == "iter":
        for n in ast.walk(a.target):
            if isinstance(n, ast.Name) and n.id == name:
                return True
    if node.kind == "with_enter":
        for it in a.items:
            if it.optional_vars is not None:
                for n in ast.walk(it.optional_vars):
                    if isinstance(n, ast.Name) and n.id == name:
                        return True
    for n in node.walk():
        if isinstance(n, ast.NamedExpr) and n.target.id == name:
            return True
    return False


def assign_nodes(g, name: str) -> list[int]:
    return [n.id for n in g.nodes.values() if _binds(n, name)]


def reaching(f: Func, name: str, at: int) -> list:
    """Definitions of `name` that reach CFG node `at`: CFG node ids, plus the string 'param' when the
    parameter value (or an unbound name) can arrive without passing an assignment."""
    g = f.cfg
    defs = assign_nodes(g, name)
    out: list = []
    for d in defs:
        others = [x for x in defs if x != d and x != at]
        if d != at and g.path(d, [at], avoid=others) is not None:
            out.append(d)
    if g.entry == at or g.path(g.entry, [at], avoid=[x for x in defs if x != at]) is not None:
        out.append("param")
    return out


# --------------------------------------------------------------------------- purity

IMPURE_PREFIXES = ("uuid.", "random.", "secrets.", "time.", "datetime.", "os.urandom", "streamflow.core.utils.random_name")


def impure(prog: Program, f: Func, expr: ast.AST) -> bool:
    for c in [expr, *ast.walk(expr)]:
        if isinstance(c, ast.Call):
            for q in prog.resolve_call(f, c, fanout=False):
                if q.startswith(IMPURE_PREFIXES) or q.split(".")[-1] in ("uuid4", "uuid1", "random_name"):
                    return True
            d = dotted(c.func) or ""
            if d.split(".")[-1] in ("uuid4", "uuid1", "random_name", "utcnow", "now", "time_ns"):
                return True
    return False


def const_str(node: ast.AST):
    return node.value if isinstance(node, ast.Constant) and isinstance(node.value, str) else None


# --------------------------------------------------------------------------- flow-sensitive call collection


def calls_flow(f: Func, expr: ast.AST, at: int, depth: int = 5, _seen: frozenset = frozenset()) -> list[ast.Call]:
    """Calls evaluated to produce `expr` at CFG node `at`: the calls in `expr` itself plus, for every local it
    reads, the calls of the definitions that *reach* `at` (so a sibling branch's definition is not counted)."""
    g = f.cfg
    out: list[ast.Call] = []
    for n in [expr, *walk_no_nested(expr)]:
        if isinstance(n, ast.Call):
            out.append(n)
        elif isinstance(n, ast.Name) and isinstance(n.ctx, ast.Load) and depth > 0 and (n.id, at) not in _seen:
            for d in reaching(f, n.id, at):
                if d == "param":
                    continue
                node = g.nodes[d]
                a = node.ast
                vals = []
                if node.kind == "stmt" and isinstance(a, (ast.Assign, ast.AnnAssign, ast.AugAssign)) and a.value is not None:
                    vals.append(a.value)
                elif node.kind == "iter":
                    vals.append(a.iter)
                elif node.kind == "with_enter":
                    vals.extend(i.context_expr for i in a.items)
                else:
                    vals.extend(x.value for x in node.walk() if isinstance(x, ast.NamedExpr) and x.target.id == n.id)
                for v in vals:
                    out.extend(calls_flow(f, v, d, depth - 1, _seen | {(n.id, at)}))
    return out


# --------------------------------------------------------------------------- flow-sensitive substitution


def def_value(f: Func, name: str, d: int):
    """The expression bound to local `name` by CFG node `d` (plain / annotated assignment to the bare name, or a
    walrus evaluated at that node); None for any other kind of binding (tuple target, loop, with, augmented)."""
    node = f.cfg.nodes[d]
    a = node.ast
    if node.kind == "stmt" and isinstance(a, ast.Assign):
        if len(a.targets) == 1 and isinstance(a.targets[0], ast.Name) and a.targets[0].id == name:
            return a.value
        return None
    if node.kind == "stmt" and isinstance(a, ast.AnnAssign):
        return a.value if isinstance(a.target, ast.Name) and a.target.id == name else None
    if node.kind in ("iter", "with_enter") or (node.kind == "stmt" and isinstance(a, ast.AugAssign)):
        return None
    vals = [x.value for x in node.walk() if isinstance(x, ast.NamedExpr) and x.target.id == name]
    return vals[0] if len(vals) == 1 else None


def expand_at(f: Func, expr: ast.AST, at: int, depth: int = 5, _seen: frozenset = frozenset()) -> ast.AST:
    """Copy of `expr` (evaluated at CFG node `at`) in which every local with exactly one reaching definition at `at`
    -- a plain assignment or walrus, not the parameter value -- is replaced by the assigned expression, recursively
    (the definition's own operands are expanded at the defining node).  Names bound by a comprehension inside
    `expr` are left alone."""
    comp_bound = {
        n.id
        for c in [expr, *ast.walk(expr)]
        if isinstance(c, ast.comprehension)
        for n in ast.walk(c.target)
        if isinstance(n, ast.Name)
    }

    class T(ast.NodeTransformer):
        def visit_Name(self, n: ast.Name):
            if isinstance(n.ctx, ast.Load) and depth > 0 and n.id not in comp_bound and (n.id, at) not in _seen:
                ds = reaching(f, n.id, at)
                if len(ds) == 1 and ds[0] != "param":
                    v = def_value(f, n.id, ds[0])
                    if v is not None:
                        return expand_at(f, v, ds[0], depth - 1, _seen | {(n.id, at)})
            return n

        def visit_Await(self, n: ast.Await):
            return self.visit(n.value)

    return T().visit(clone(expr))
