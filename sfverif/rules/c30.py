"""C30 CWL tools receive exactly the arguments the reference runner passes.

Clause decided: the quoting / hand-over discipline only (necessary conditions; equality with the
reference runner's argv needs execution and stays undecided).

R1 argument words are escaped exactly when CWL says so, and with the right function:
   a. `CWLCommandTokenProcessor.bind`: the statement applying `_escape_value` runs iff
      `not is_shell_command or shell_quote` (P10: the guard is folded over the 2x2 domain and compared
      with the CWL rule "quote unless ShellCommandRequirement and shellQuote: false");
   b. the escaped list is the one handed to the returned `CommandToken(value=...)` -- same variable,
      not rebound afterwards, every element covered, no extra condition that the return does not share;
   c. `_escape_value` returns only `shlex.quote(_get_value_repr(v))` or the element-wise recursion;
      `_get_value_repr` returns only `str(...)` (no lossy post-processing of the word);
   d. `baseCommand` reaches the command line only through `shlex.join` / `shlex.quote`;
   e. `CWLCommand.execute`: the command handed to `connector.run` is the tokenised command, or, under
      `if self.is_shell_command`, the `/bin/sh -c` wrapper whose only run-time part is base64 text; the encoder
      agrees with the decoder named in the constant words of the wrapper: `base64 -d` accepts the standard alphabet
      only, so the payload must come from `base64.b64encode` without `altchars` / `base64.standard_b64encode`
      (`urlsafe_b64encode` writes 6-bit groups 62/63 as `-` `_`, which `base64 -d` rejects: truncated command line).
   The value returned by `bind` is followed through temporaries (`tok = CommandToken(...); return tok`): the flow
   facts are taken where the token is built.
R2 environment, working directory and stream redirections reach the process through the shared renderer:
   a. `execute` passes `environment=<dict built from every self.environment item>`, `workdir=job.output_directory`
      and `stdin/stdout/stderr` evaluated from the homonymous CWL fields to `connector.run` (def-use closure that
      follows a resolved call into an extracted helper -- method on `self`, function receiving `self`, local or
      private function, two levels deep -- taking the callee's returned expressions, the element selected by a
      tuple unpacking / constant subscript, and the call's own arguments for the callee's parameters); HOME / TMPDIR
      are defaulted only when EnvVarRequirement did not set them, to outdir / tmpdir (stores at which the branch
      fact `'K' in env` is false on every path -- sfverif.facts, so `not in` / `not (.. in ..)` / else-branch /
      guard-clause spellings are the same --, `env.setdefault('K', v)`, or a dict
      merge `{defaults} | {entries}` -- a literal on the right of the entries overrides them and is reported);
   b. every caller of `create_command` (all `Connector.run` renderers) forwards its own `command`,
      `environment`, `workdir` (and `stdin/stdout/stderr` when it forwards them) unchanged;
   c. P9 on `create_command`: the environment *value* and `workdir` are sources, the returned command line is
      the sink; `stdin/stdout/stderr` must arrive only as `shlex.quote`d redirection targets (flow-sensitive:
      the raw parameter must not reach the rendered line -- the returned expression is followed through temporaries
      and the reaching definitions are taken where the line is rendered, not at the `return`);
   d. `LocalConnector.run` hands the rendered line to `sh -c` through `shlex.quote`.
R3 (added) escape suppression on composite bindings: `_get_command_token_processor_from_input` turns escaping
   off on the outer processor of an array/record binding (`shellQuote = False`, `is_shell_command = True`) and
   relies on the nested processors to escape their own words; this is sound only if every leaf processor class
   the builder can create escapes in its `bind`.

R4 (added) argument order: every sort of command tokens (`_merge_tokens` for the fields of a record,
   `CWLCommand._get_executable_command` for the whole line, and any helper of theirs in the module) uses the CWL
   sort key -- a sequence that starts with the token's `position` and breaks ties by the token's `name` whenever the
   name is not None (and does not compare a None name), ascending.  The key function (lambda or named helper) is
   evaluated symbolically for the two cases "name is None" / "name present"; a key the rule cannot read as such a
   sequence is reported (the obligation "ordered by (position, name)" is then not established).
R5 (added) word rendering: in every function that builds argv words (every `CommandTokenProcessor.bind`
   override, `_get_executable_command` and the module-level helpers they call) a value derived from the token
   (def-use taint from the token parameter / the `value=` of the returned CommandToken / `<token>.value`) is turned
   into text only by `_get_value_repr` (the renderer that prints floats like the reference runner): no `str()`,
   f-string field, `format`, `%`, `+` with a string or `sep.join` over raw values (error messages and logging are
   exempt).  A helper's parameter that every call site binds to text (`self.prefix`, a separator) or to the processor
   itself is not a token value.  Positive side: `bind` glues `prefix` and `_get_value_repr(value)` for `separate: false`
   -- in `bind` itself or in a helper of the module that `bind` hands the token value to (private method on `self`, or
   module function receiving the prefix / the processor; resolved calls inlined two levels deep; a helper whose result
   is discarded does not count), `_get_executable_command` renders the words with `_get_value_repr`,
   `_get_value_for_command` applies `itemSeparator` to rendered items.

R6 (added) instance isolation of the command objects (every tool owns its environment mapping / binding list):
   a. in every `__init__` (and every method with a mutable default) of the `Command` and `CommandTokenProcessor`
      hierarchies no `self.<attr>` store can evaluate to the default object of a parameter whose default is a mutable
      container (`{}`, `[]`, `dict()`, comprehension ...): a default is evaluated once, so all instances built without
      the argument would share it.  The stored value is followed flow-sensitively through locals, both arms of a
      conditional expression, the operands of `or` (an *empty* default on the left of `or` is falsy and never stored)
      and the elements of a container display;
   b. for every attribute that a builder of the CWL translator fills in place after constructing the object
      (`command.environment[k] = v`, `command.processors.append(...)`), the constructor binds `self.<attr>` only to the
      caller's argument or to a container created in the constructor body -- not to a default object the builder did
      not override, a module-level name or a class / shared attribute.

Not decided: whether the *caller's* argument is itself shared between instances (`CWLCommand(environment=row[...])`
in `_load`), in-place mutation of a default inside the constructor before it is replaced, and a parameter that reaches the
store only on paths where a guard has already replaced the falsy default (`if not environment: environment = {}` with a
mutable default is reported although it is safe; no such shape exists today).  Decoder/encoder agreement is decided for
the decoder spelled in the wrapper's constant words only (`base64 -d` = standard alphabet, `basenc --base64url` = URL-safe).

Left out: nothing of DESIGN C30.R1/R2; `CommandTemplateMap.get_command` (the second half of S2) is in C25's
scope (queue-manager renderers are not among C30's anchors).
"""

from __future__ import annotations

import ast

from ..dataflow import defs_of, fragments, origins
from ..facts import facts_at
from ..model import ancestors, dotted, enclosing_stmt, parent, unparse, walk_no_nested
from ..selftest import V
from ..shell import check_quoting
from ._util_G import (
    NotFoldable,
    assign_nodes,
    atoms_in,
    def_value,
    expand,
    flow_values,
    fold,
    guards_of,
    is_call_to,
    norm,
    reaching,
    resolved,
)

MOD = "streamflow.cwl.command"
FILE = "streamflow/cwl/command.py"
PROC = f"{MOD}.CWLCommandTokenProcessor"
FWD = f"{MOD}.CWLForwardCommandTokenProcessor"
CMD = f"{MOD}.CWLCommand"
ESC = f"{MOD}._escape_value"
REPR = f"{MOD}._get_value_repr"
TOKEN = "streamflow.core.workflow.CommandToken"
TPROC = "streamflow.core.workflow.CommandTokenProcessor"
UTILS = "streamflow.core.utils"
UFILE = "streamflow/core/utils.py"
CREATE = f"{UTILS}.create_command"
TRANS = "streamflow.cwl.translator"
TFILE = "streamflow/cwl/translator.py"
BUILDER = f"{TRANS}._get_command_token_processor_from_input"
MERGE = f"{MOD}._merge_tokens"
EXE = f"{CMD}._get_executable_command"
VFC = f"{MOD}._get_value_for_command"
LOCAL = "streamflow.deployment.connector.local.LocalConnector"
LFILE = "streamflow/deployment/connector/local.py"

ATOM_SHELL = "self.is_shell_command"
ATOM_QUOTE = "self.shell_quote"
ATOMS = (ATOM_SHELL, ATOM_QUOTE)

META = {
    "explanation": (
        "Static rules on the CWL command builder: P10 truth table of the escape guard in "
        "CWLCommandTokenProcessor.bind, def-use/CFG flow of the escaped list into the returned CommandToken, shape "
        "of _escape_value/_get_value_repr, shlex.join on baseCommand, base64 wrapper for shell commands, wiring of "
        "environment/workdir/stdin/stdout/stderr from CWLCommand.execute through every Connector.run renderer into "
        "create_command, P9 quoting analysis of create_command (flow-sensitive for the redirection targets) and of "
        "LocalConnector.run, escape coverage of the leaf processors under composite bindings, symbolic evaluation of the "
        "sort key of every command-token sort ((position, name) order), and def-use taint of token values into text "
        "renderings (only _get_value_repr may turn a token value into a word), agreement of the base64 encoder of the shell "
        "wrapper with the `base64 -d` decoder it names, and instance isolation of the command objects (no mutable default "
        "argument stored as instance state; attributes the translator fills in place after construction are per-instance "
        "containers). Necessary "
        "conditions only; the argv/env equality with the reference runner is not established."
    ),
    "undecided": "equality with cwltool's argv / environment / redirections (needs execution of both runners)",
    "assumptions": [
        "connector.run joins the command words with blanks and a POSIX shell parses the line (create_command)",
        "shlex.quote / shlex.join produce exactly one shell word per input word; base64 output has no shell metacharacters",
        "CWL: a word is shell-quoted unless ShellCommandRequirement is present and the binding says shellQuote: false",
    ],
}


def _expected_escape(shell: bool, quote: bool) -> bool:
    return not (shell and not quote)


# --------------------------------------------------------------------------- R1


def _path_condition(ctx, f, node, what):
    """(table, irrelevant_guard_owners): truth table of "node is evaluated" over the two atoms."""
    relevant, irrelevant = [], []
    for test, pol, owner in guards_of(node, stop=f.node):
        ex = expand(f, test)
        if atoms_in(ex, ATOMS):
            relevant.append((ex, pol))
        else:
            irrelevant.append((test, owner))
    table = {}
    for shell in (False, True):
        for quote in (False, True):
            env = {ATOM_SHELL: shell, ATOM_QUOTE: quote}
            try:
                val = all(fold(ex, env) == pol for ex, pol in relevant)
            except NotFoldable as e:
                ctx.require(False, f"C30.R1: {what}: guard atom `{e}` is outside the finite domain (is_shell_command, shell_quote)")
            table[(shell, quote)] = val
    return table, irrelevant


def r1(ctx):
    p = ctx.prog
    f = p.func(f"{PROC}.bind")
    g = f.cfg
    sites = [c for c in f.body_nodes() if isinstance(c, ast.Call) and ESC in resolved(p, f, c)]
    ctx.require(p.has(ESC), f"C30.R1: anchor {ESC} vanished")
    # (return statement, CommandToken(...) call it returns, CFG node evaluating the call): the returned expression is
    # followed through temporaries (`tok = CommandToken(...); return tok`)
    rets = []
    for n in f.body_nodes():
        if isinstance(n, ast.Return) and n.value is not None:
            for rid in g.ids_of(n)[:1]:
                for v, at in flow_values(f, n.value, rid):
                    if is_call_to(p, f, v, TOKEN):
                        rets.append((n, v.value if isinstance(v, ast.Await) else v, at))
    ctx.require(bool(rets), "C30.R1: CWLCommandTokenProcessor.bind no longer returns a CommandToken(...)")
    ctx.ob(
        "R1",
        "bind applies _escape_value to the token value",
        bool(sites),
        func=f,
        node=f.node,
        instance="bind:escape-present",
        message="CWLCommandTokenProcessor.bind never calls _escape_value: every argument word reaches the shell raw",
    )
    for call in sites:
        stmt = enclosing_stmt(call)
        # a. P10 table of the guard
        table, irrelevant = _path_condition(ctx, f, call, "escape guard in bind")
        wrong = [k for k, v in table.items() if v != _expected_escape(*k)]
        ctx.ob(
            "R1",
            "escape guard == (not is_shell_command or shell_quote)",
            not wrong,
            func=f,
            node=stmt,
            instance="bind:guard-table",
            message="escape guard differs from the CWL rule for (is_shell_command, shell_quote) in "
            + ", ".join(f"{k}: escapes={table[k]} expected={_expected_escape(*k)}" for k in wrong),
            witness=[f"guards: {[unparse(t) for t, _, _ in guards_of(call, stop=f.node)]}"],
        )
        # b. flow into the returned token
        tgt = None
        if isinstance(stmt, ast.Assign) and len(stmt.targets) == 1 and isinstance(stmt.targets[0], ast.Name):
            tgt = stmt.targets[0].id
        elif isinstance(stmt, ast.AnnAssign) and isinstance(stmt.target, ast.Name):
            tgt = stmt.target.id
        ctx.require(tgt is not None, f"C30.R1: escape statement `{unparse(stmt)[:80]}` is not an assignment to a local")
        for r, tok, tok_at in rets:
            kw = next((k.value for k in tok.keywords if k.arg == "value"), None)
            if kw is None and len(tok.args) >= 3:
                kw = tok.args[2]
            ctx.require(kw is not None, "C30.R1: returned CommandToken has no `value` argument")
            same = isinstance(kw, ast.Name) and kw.id == tgt
            rebound = []
            extra = []
            if same:
                esc_ids = g.ids_of(stmt)
                ret_ids = [tok_at]  # where the token (and so its `value=`) is evaluated
                ctx.require(bool(esc_ids), "C30.R1: CFG nodes of escape/return not found")
                after = g.reach(esc_ids)
                for d in assign_nodes(g, tgt):
                    if d in esc_ids:
                        continue
                    if d in after and any(x in g.reach([d]) for x in ret_ids):
                        rebound.append(g.nodes[d].text(80))
                r_anc = set(id(a) for a in ancestors(enclosing_stmt(tok)))
                extra = [unparse(t)[:80] for t, owner in irrelevant if id(owner) not in r_anc]
            ctx.ob(
                "R1",
                "the escaped list is the value of the returned CommandToken",
                same and not rebound and not extra,
                func=f,
                node=r,
                instance="bind:escaped-value-returned",
                message=(
                    f"returned token carries `{unparse(kw)}` but the escaped words are in `{tgt}`"
                    if not same
                    else (
                        f"`{tgt}` is rebound after escaping by {rebound}"
                        if rebound
                        else f"escaping additionally depends on {extra}, which the return does not"
                    )
                ),
            )
        # c. coverage of the elements
        par = parent(call)
        arg0 = call.args[0] if call.args else None
        whole = False
        if isinstance(par, (ast.ListComp, ast.GeneratorExp)) and par.elt is call:
            gens = par.generators
            whole = (
                len(gens) == 1
                and not gens[0].ifs
                and isinstance(gens[0].target, ast.Name)
                and isinstance(arg0, ast.Name)
                and arg0.id == gens[0].target.id
                and isinstance(gens[0].iter, ast.Name)
            )
        elif isinstance(arg0, ast.Name) and isinstance(par, (ast.Assign, ast.AnnAssign, ast.IfExp)):
            whole = True
        ctx.ob(
            "R1",
            "every element of the value is escaped",
            whole,
            func=f,
            node=stmt,
            instance="bind:escape-coverage",
            message=f"`{unparse(stmt)[:100]}` does not escape every word of the value",
        )
    _r1_escape_value(ctx)
    _r1_base_command(ctx)
    _r1_shell_wrapper(ctx)
    _r1_translator(ctx)


def _returns(f):
    return [n for n in f.body_nodes() if isinstance(n, ast.Return)]


def _r1_escape_value(ctx):
    p = ctx.prog
    f = p.func(ESC)
    ctx.require(len(f.params) == 1, "C30.R1: _escape_value signature changed")
    par = f.params[0]
    rets = _returns(f)
    ctx.require(bool(rets), "C30.R1: _escape_value has no return")
    quoting = 0
    for r in rets:
        kinds = []
        for o in origins(f, r.value) if r.value is not None else [None]:
            kind = "other"
            if o is not None and is_call_to(p, f, o, "shlex.quote") and len(o.args) == 1 and not o.keywords:
                inner = origins(f, o.args[0])
                if all(
                    (isinstance(i, ast.Name) and i.id == par)
                    or (
                        isinstance(i, ast.Call)
                        and (REPR in resolved(p, f, i) or dotted(i.func) == "str")
                        and len(i.args) == 1
                        and isinstance(i.args[0], ast.Name)
                        and i.args[0].id == par
                    )
                    for i in inner
                ):
                    kind = "quote"
            elif isinstance(o, (ast.ListComp, ast.GeneratorExp)):
                gens = o.generators
                if (
                    len(gens) == 1
                    and not gens[0].ifs
                    and isinstance(gens[0].iter, ast.Name)
                    and gens[0].iter.id == par
                    and isinstance(gens[0].target, ast.Name)
                    and isinstance(o.elt, ast.Call)
                    and ESC in resolved(p, f, o.elt)
                    and len(o.elt.args) == 1
                    and isinstance(o.elt.args[0], ast.Name)
                    and o.elt.args[0].id == gens[0].target.id
                ):
                    kind = "recurse"
            kinds.append(kind)
        quoting += kinds.count("quote")
        ctx.ob(
            "R1",
            "_escape_value returns shlex.quote(_get_value_repr(value)) or the element-wise recursion",
            "other" not in kinds,
            func=f,
            node=r,
            instance="_escape_value:return",
            message=f"_escape_value returns `{unparse(r.value) if r.value else None}`: the word is not passed through shlex.quote",
        )
    ctx.ob(
        "R1",
        "_escape_value has a shlex.quote return",
        quoting >= 1,
        func=f,
        node=f.node,
        instance="_escape_value:quote-present",
        message="_escape_value never applies shlex.quote",
    )
    f = p.func(REPR)
    for r in _returns(f):
        ok = r.value is not None
        for o in origins(f, r.value) if r.value is not None else []:
            is_str = isinstance(o, ast.Call) and dotted(o.func) == "str" and len(o.args) == 1 and not o.keywords
            is_fstr = (
                isinstance(o, ast.JoinedStr)
                and len(o.values) == 1
                and isinstance(o.values[0], ast.FormattedValue)
                and o.values[0].conversion in (-1, 115)
                and o.values[0].format_spec is None
            )
            ok = ok and (is_str or is_fstr)
        ctx.ob(
            "R1",
            "_get_value_repr returns str(...) unmodified",
            ok,
            func=f,
            node=r,
            instance="_get_value_repr:return",
            message=f"_get_value_repr returns `{unparse(r.value) if r.value else None}`: the word is post-processed / not a str() rendering",
        )


def _r1_base_command(ctx):
    p = ctx.prog
    f = p.func(f"{CMD}._get_executable_command")
    uses = [
        n
        for n in f.body_nodes()
        if isinstance(n, ast.Attribute) and isinstance(n.ctx, ast.Load) and unparse(n) == "self.base_command"
    ]
    flowing = 0
    for u in uses:
        stmt = enclosing_stmt(u)
        # pure truth test of an `if`
        if isinstance(stmt, (ast.If, ast.While)) and any(u is x or any(u is y for y in ast.walk(x)) for x in [stmt.test]):
            continue
        ok = False
        n = u
        for a in ancestors(u):
            if a is stmt:
                break
            if isinstance(a, ast.Call) and is_call_to(p, f, a, "shlex.join", "shlex.quote"):
                ok = True
                break
            if isinstance(a, ast.comprehension) and a.iter is n and isinstance(a.target, ast.Name):
                comp = parent(a)
                elt = getattr(comp, "elt", None)
                if elt is not None:
                    loads = [x for x in ast.walk(elt) if isinstance(x, ast.Name) and x.id == a.target.id]
                    quoted = [
                        x
                        for x in loads
                        if any(isinstance(y, ast.Call) and is_call_to(p, f, y, "shlex.quote", "shlex.join") for y in ancestors(x) if y is not comp)
                    ]
                    ok = bool(loads) and len(quoted) == len(loads)
                break
            n = a
        flowing += 1
        ctx.ob(
            "R1",
            "baseCommand goes through shlex.join / shlex.quote",
            ok,
            func=f,
            node=stmt,
            instance="base_command:quoted",
            message=f"`{unparse(stmt)[:100]}` puts baseCommand words on the command line without shlex.join/quote",
        )
    ctx.ob(
        "R1",
        "baseCommand is part of the command line",
        flowing >= 1,
        func=f,
        node=f.node,
        instance="base_command:present",
        message="_get_executable_command never reads self.base_command: the tool name is dropped",
    )


def _run_call(ctx, f):
    calls = [
        c
        for c in f.calls()
        if isinstance(c.func, ast.Attribute) and c.func.attr == "run" and any(k.arg == "environment" for k in c.keywords)
    ]
    ctx.require(len(calls) == 1, f"C30: expected exactly one connector.run(... environment=...) call in {f.qualname}, found {len(calls)}")
    return calls[0]


_STD_ENCODERS = ("base64.b64encode", "base64.standard_b64encode")


def _encoder_alphabet(p, f, call) -> str:
    """'standard' (RFC 4648 section 4: `+` `/`), 'urlsafe' (section 5: `-` `_`) or 'custom' for a base64 encoder call."""
    if is_call_to(p, f, call, "base64.urlsafe_b64encode"):
        return "urlsafe"
    altchars = call.args[1] if len(call.args) >= 2 else next((k.value for k in call.keywords if k.arg == "altchars"), None)
    if altchars is None or (isinstance(altchars, ast.Constant) and altchars.value in (None, b"+/")):
        return "standard"
    if isinstance(altchars, ast.Constant) and altchars.value == b"-_":
        return "urlsafe"
    return "custom"


def _decoder_alphabet(consts: str) -> str:
    """Alphabet the decoder named in the constant words of the wrapper accepts: coreutils / busybox / BSD `base64 -d`
    decode the standard alphabet only; `basenc --base64url -d` the URL-safe one."""
    if "base64url" in consts:
        return "urlsafe"
    return "standard"


def _r1_shell_wrapper(ctx):
    p = ctx.prog
    f = p.func(f"{CMD}.execute")
    call = _run_call(ctx, f)
    cmd = next((k.value for k in call.keywords if k.arg == "command"), None)
    if cmd is None and len(call.args) >= 2:
        cmd = call.args[1]
    ctx.require(isinstance(cmd, ast.Name), "C30.R1: the command handed to connector.run is not a local name")
    ds = defs_of(f, cmd.id)
    ctx.require(bool(ds), f"C30.R1: no definition of `{cmd.id}` in execute")
    plain = wrapped = 0
    for d in ds:
        v = d.value
        if d.kind == "assign" and v is not None and is_call_to(p, f, v, f"{CMD}._get_executable_command"):
            plain += 1
            ctx.ob("R1", "execute runs the tokenised command", True, func=f, node=d.stmt, instance="execute:cmd-plain")
            continue
        # the /bin/sh -c wrapper
        ok = False
        msg = f"`{cmd.id}` is also bound to `{unparse(v)[:80] if v is not None else d.kind}`, which is neither the tokenised command nor the base64 shell wrapper"
        if d.kind == "assign" and isinstance(v, (ast.List, ast.Tuple)):
            frs = fragments(p, f, v)
            dyn = [fr for fr in frs if fr.kind in ("dyn", "quoted")]
            b64 = [
                fr
                for fr in dyn
                if isinstance(fr.expr, ast.Call) and is_call_to(p, f, fr.expr, *_STD_ENCODERS, "base64.urlsafe_b64encode")
            ]
            consts = " ".join(str(ast.literal_eval(fr.text)) for fr in frs if fr.kind == "const")
            table, _ = _path_condition(ctx, f, d.stmt, "shell wrapper guard in execute")
            only_shell = all(v2 == k[0] for k, v2 in table.items())
            enc = [(fr, _encoder_alphabet(p, f, fr.expr)) for fr in b64]
            dec = _decoder_alphabet(consts)
            if len(b64) != len(dyn) or not dyn:
                msg = f"shell wrapper splices {[fr.text[:60] for fr in dyn if fr not in b64]} into the /bin/sh -c line without base64 encoding"
            elif "base64 -d" not in consts or "/bin/sh" not in consts or "-c" not in consts.split():
                msg = f"shell wrapper constants {consts!r} no longer decode the payload with `/bin/sh -c \"$(echo … | base64 -d)\"`"
            elif any(a != dec for _, a in enc):
                fr, a = next((fr, a) for fr, a in enc if a != dec)
                msg = (f"the payload is encoded by `{unparse(fr.expr.func)}` ({a} base64 alphabet) but the rendered line decodes it with the {dec} "
                       f"alphabet (`{consts}`): the decoder rejects the other alphabet's characters for 6-bit groups 62/63 ('-'/'_' vs '+'/'/'), "
                       "so /bin/sh gets a truncated command line")
                wrapped += 1  # the wrapper is there (reported once, as a wrong encoder)
            elif not only_shell:
                msg = "the /bin/sh -c wrapper is not applied exactly when self.is_shell_command"
            else:
                ok = True
                wrapped += 1
        ctx.ob("R1", "shell commands are wrapped as /bin/sh -c \"$(echo <base64> | base64 -d)\"", ok, func=f, node=d.stmt or f.node,
               instance="execute:cmd-wrapper", message=msg)
    ctx.ob("R1", "execute binds the command from _get_executable_command", plain >= 1, func=f, node=f.node, instance="execute:cmd-origin",
           message="the command handed to connector.run does not originate from _get_executable_command")
    ctx.ob("R1", "execute wraps ShellCommandRequirement commands", wrapped >= 1, func=f, node=f.node, instance="execute:wrapper-present",
           message="ShellCommandRequirement commands are handed to connector.run without the /bin/sh -c base64 wrapper (the unquoted words would be re-split by the outer shell)")


def _fold3(expr, atom: str, value):
    """Evaluate an expression over one atom (`binding.shellQuote`) bound to None / True / False."""
    if isinstance(expr, ast.Constant):
        return expr.value
    if unparse(expr) == atom:
        return value
    if isinstance(expr, ast.IfExp):
        return _fold3(expr.body, atom, value) if _fold3(expr.test, atom, value) else _fold3(expr.orelse, atom, value)
    if isinstance(expr, ast.BoolOp):
        res = None
        for v in expr.values:
            res = _fold3(v, atom, value)
            if isinstance(expr.op, ast.And) and not res:
                return res
            if isinstance(expr.op, ast.Or) and res:
                return res
        return res
    if isinstance(expr, ast.UnaryOp) and isinstance(expr.op, ast.Not):
        return not _fold3(expr.operand, atom, value)
    if isinstance(expr, ast.Compare) and len(expr.ops) == 1:
        a, b = _fold3(expr.left, atom, value), _fold3(expr.comparators[0], atom, value)
        op = expr.ops[0]
        if isinstance(op, ast.Is):
            return a is b
        if isinstance(op, ast.IsNot):
            return a is not b
        if isinstance(op, ast.Eq):
            return a == b
        if isinstance(op, ast.NotEq):
            return a != b
    raise NotFoldable(unparse(expr))


def _r1_translator(ctx):
    """The two flags of the guard are what the CWL document says."""
    p = ctx.prog
    f = p.func(f"{TRANS}._get_command_token_processor")
    ctors = [c for c in f.calls() if PROC in resolved(p, f, c) and any(k.arg == "shell_quote" for k in c.keywords)]
    ctx.require(len(ctors) >= 1, "C30.R1: translator no longer passes shell_quote= to CWLCommandTokenProcessor")
    for c in ctors:
        kw = next(k.value for k in c.keywords if k.arg == "shell_quote")
        ex = expand(f, kw)
        atom = next((unparse(n) for n in ast.walk(ex) if isinstance(n, ast.Attribute) and n.attr == "shellQuote"), None)
        ctx.require(atom is not None, f"C30.R1: shell_quote=`{unparse(kw)}` does not read the binding's shellQuote")
        try:
            got = {v: bool(_fold3(ex, atom, v)) for v in (None, True, False)}
        except NotFoldable as e:
            ctx.require(False, f"C30.R1: cannot fold shell_quote=`{unparse(kw)}` ({e})")
        want = {None: True, True: True, False: False}
        ctx.ob("R1", "translator: shell_quote = binding.shellQuote, default true", got == want, func=f, node=c, instance="translator:shell_quote-default",
               message=f"shell_quote is computed as `{unparse(kw)}`: shellQuote None/True/False -> {[got[k] for k in (None, True, False)]} (CWL: [True, True, False])")
        kw2 = next((k.value for k in c.keywords if k.arg == "is_shell_command"), None)
        ctx.ob("R1", "translator: is_shell_command is forwarded to the token processor", isinstance(kw2, ast.Name) and kw2.id == "is_shell_command" and "is_shell_command" in f.params,
               func=f, node=c, instance="translator:is_shell_command-forwarded",
               message=f"CWLCommandTokenProcessor gets is_shell_command=`{unparse(kw2) if kw2 is not None else None}` instead of the builder's is_shell_command parameter")
    f = p.func(f"{TRANS}._create_command")
    cc = [c for c in f.calls() if CMD in resolved(p, f, c)]
    ctx.require(len(cc) == 1, "C30.R1: _create_command no longer builds exactly one CWLCommand")
    kw = next((k.value for k in cc[0].keywords if k.arg == "is_shell_command"), None)
    ex = expand(f, kw) if kw is not None else None
    ok = (
        isinstance(ex, ast.Compare) and len(ex.ops) == 1 and isinstance(ex.ops[0], ast.In)
        and isinstance(ex.left, ast.Constant) and ex.left.value == "ShellCommandRequirement"
    )
    ctx.ob("R1", "translator: is_shell_command == ('ShellCommandRequirement' in requirements)", ok, func=f, node=cc[0], instance="translator:is_shell_command",
           message=f"CWLCommand gets is_shell_command=`{unparse(ex) if ex is not None else None}`")
    want_txt = norm(f, kw) if kw is not None else None
    for c in f.calls():
        qs = resolved(p, f, c)
        if f"{TRANS}._get_command_token_processor" in qs or BUILDER in qs:
            k2 = next((k.value for k in c.keywords if k.arg == "is_shell_command"), None)
            good = k2 is not None and (norm(f, k2) == want_txt or unparse(k2).endswith(".is_shell_command"))
            ctx.ob("R1", "translator: bindings get the tool's is_shell_command", good, func=f, node=c, instance=f"translator:binding-flag:{unparse(c.func)}",
                   message=f"`{unparse(c.func)}` is called with is_shell_command=`{unparse(k2) if k2 is not None else '<default False>'}`: shellQuote: false would be ignored / applied without the requirement")


# --------------------------------------------------------------------------- R2


_FLOW_DEPTH = 2  # inlining bound of _attr_origins (execute -> helper -> helper of the helper)


class _Frame:
    """One activation followed by _attr_origins: the function, the names that denote the command object in it, the
    argument expressions bound to its parameters (evaluated in `caller`), and the frame of the lexically enclosing
    function (free variables of a local function)."""

    def __init__(self, f, selfnames, binds=None, caller=None, lexical=None):
        self.f = f
        self.selfnames = set(selfnames)
        self.binds = binds or {}
        self.caller = caller
        self.lexical = lexical
        self.depth = 0 if caller is None else caller.depth + 1

    def chain(self):
        fr = self
        while fr is not None:
            yield fr
            fr = fr.caller


def _unpack_index(d):
    """Position of the value a tuple-unpacking definition takes (None: whole value / position unknown)."""
    if d.index is None:
        return None
    st = d.stmt
    tgts = st.targets if isinstance(st, ast.Assign) else [getattr(st, "target", None)]
    for t in tgts:
        if t is not None and any(isinstance(x, ast.Starred) for x in ast.walk(t)):
            return None
    return d.index


def _attr_origins(p, f, expr, attrs) -> set[str]:
    """`self.<a>` attributes (a in attrs) that `expr` is derived from.

    Def-use closure over plain local assignments (flow-insensitive); a tuple-unpacking definition / constant subscript
    selects the element of a tuple (dict) display when the value can be followed to one.  A call is followed into the
    callee (resolved call, at most _FLOW_DEPTH levels, no recursion) when the callee shares the command object or is a
    private / local helper: a method called on `self` / `super()`, a function that receives `self`, a function defined
    inside the current one, a `_private` function.  The callee's returned expressions are evaluated in its own frame:
    its parameters stand for the argument expressions of *this* call, `self.<a>` counts only on names bound to the
    command object.  The result of any other call is derived from its receiver and arguments."""
    out: set[str] = set()
    seen: set = set()
    frames: list[_Frame] = []  # keeps the frames alive (their id() keys `seen`)

    def scope_of(fr, nm):
        """Frame in which `nm` is a local (None: global / builtin / unknown)."""
        while fr is not None:
            if nm in fr.f.params or defs_of(fr.f, nm):
                return fr
            fr = fr.lexical
        return None

    def is_self(fr, nm):
        sc = scope_of(fr, nm)
        return sc is not None and nm in sc.selfnames

    def follow(fr, call):
        if fr.depth >= _FLOW_DEPTH:
            return None
        if any(isinstance(a, ast.Starred) for a in call.args) or any(k.arg is None for k in call.keywords):
            return None
        qs = p.resolve_call(fr.f, call, fanout=False)
        if len(qs) != 1:
            return None
        h = p.functions.get(qs[0])
        if h is None or isinstance(h.node, ast.Lambda) or any(x.f is h for x in fr.chain()):
            return None
        binds = _call_bindings(h, call)
        selfn = set()
        for k, a in binds.items():
            if isinstance(a, ast.Name) and is_self(fr, a.id):
                selfn.add(k)
            elif isinstance(a, ast.Call) and isinstance(a.func, ast.Name) and a.func.id == "super" and not a.args and is_self(fr, "self"):
                selfn.add(k)
        lexical = None
        outer = getattr(h, "outer", None)
        if outer is not None:
            x = fr
            while x is not None and lexical is None:
                y = x
                while y is not None and lexical is None:
                    if y.f is outer:
                        lexical = y
                    y = y.lexical
                x = x.caller
        private = h.name.startswith("_") and not h.name.startswith("__")
        if not (selfn or lexical is not None or private):
            return None
        params = list(h.params)
        if h.cls is not None and isinstance(call.func, ast.Attribute) and params and params[0] in ("self", "cls") and params[0] in binds and params[0] not in selfn:
            return None  # method of another object (or `Cls.m(self, ..)`: the positional binding is not the bound one)
        nf = _Frame(h, selfn, binds, caller=fr, lexical=lexical)
        frames.append(nf)
        return nf

    def name(fr, nm, idx):
        sc = scope_of(fr, nm)
        if sc is None:
            return
        key = (id(sc), nm, idx)
        if key in seen:
            return
        seen.add(key)
        for d in defs_of(sc.f, nm):
            if d.kind == "param":
                b = sc.binds.get(nm)
                if b is not None and sc.caller is not None:
                    visit(sc.caller, b, idx)
            elif d.kind in ("assign", "walrus") and d.value is not None:
                at = _unpack_index(d)
                visit(sc, d.value, idx if at is None else at)

    def visit(fr, e, idx=None):
        while isinstance(e, ast.Await):
            e = e.value
        if idx is not None:
            if isinstance(e, (ast.Tuple, ast.List)) and isinstance(idx, int) and idx < len(e.elts) and not any(isinstance(x, ast.Starred) for x in e.elts):
                return visit(fr, e.elts[idx])
            if isinstance(e, ast.Dict) and any(isinstance(k, ast.Constant) and k.value == idx for k in e.keys) and all(k is not None for k in e.keys):
                for k, v in zip(e.keys, e.values):
                    if isinstance(k, ast.Constant) and k.value == idx:
                        visit(fr, v)
                return None
            if isinstance(e, ast.IfExp):
                visit(fr, e.test)
                visit(fr, e.body, idx)
                visit(fr, e.orelse, idx)
                return None
            if isinstance(e, ast.NamedExpr):
                return visit(fr, e.value, idx)
            if not isinstance(e, (ast.Name, ast.Call)):
                idx = None  # element not identifiable: the whole value
        if isinstance(e, ast.Call):
            cf = follow(fr, e)
            if cf is not None:
                for r in cf.f.body_nodes():
                    if isinstance(r, ast.Return) and r.value is not None:
                        visit(cf, r.value, idx)
                return None
            idx = None  # opaque call: derived from its receiver and arguments
        if isinstance(e, ast.Subscript) and isinstance(e.ctx, ast.Load) and isinstance(e.slice, ast.Constant) and (
            (isinstance(e.slice.value, int) and not isinstance(e.slice.value, bool) and e.slice.value >= 0) or isinstance(e.slice.value, str)
        ):
            return visit(fr, e.value, e.slice.value)
        if isinstance(e, ast.Attribute) and isinstance(e.value, ast.Name) and is_self(fr, e.value.id):
            if e.attr in attrs:
                out.add(e.attr)
            return None
        if isinstance(e, ast.Name):
            if isinstance(e.ctx, ast.Load):
                name(fr, e.id, idx)
            return None
        if isinstance(e, (ast.FunctionDef, ast.AsyncFunctionDef, ast.ClassDef)):
            return None
        for c in ast.iter_child_nodes(e):
            visit(fr, c)
        return None

    top = _Frame(f, {"self"} if "self" in f.params else set())
    frames.append(top)
    visit(top, expr)
    return out


def _or_chain(e) -> list:
    """Operands of a `a | b | c` chain, left to right."""
    if isinstance(e, ast.BinOp) and isinstance(e.op, ast.BitOr):
        return _or_chain(e.left) + _or_chain(e.right)
    return [e]


def r2(ctx):
    p = ctx.prog
    f = p.func(f"{CMD}.execute")
    g = f.cfg
    call = _run_call(ctx, f)
    kws = {k.arg: k.value for k in call.keywords if k.arg}
    # a. environment
    env = kws["environment"]
    if not isinstance(env, ast.Name):
        ctx.ob("R2", "environment = every EnvVarRequirement entry, evaluated", False, func=f, node=call, instance="execute:env-built",
               message=f"connector.run gets environment=`{unparse(env)}`, not the dict of evaluated EnvVarRequirement entries (+ HOME/TMPDIR defaults)")
    E = env.id if isinstance(env, ast.Name) else "<none>"
    ds = [d for d in defs_of(f, E)]
    comp_ok = False
    msg = f"`{E}` is not built from every item of self.environment"
    merged = {}  # key -> [(dict literal value, literal comes after the EnvVarRequirement entries in a `|` chain)]
    for d in ds:
        v = d.value
        operands = _or_chain(v) if d.kind == "assign" and v is not None else []
        comps = [i for i, o in enumerate(operands) if isinstance(o, ast.DictComp)]
        if len(operands) > 1 and len(comps) == 1:
            # `{defaults} | {entries}` / `{entries} | {overrides}`: the right operand of `|` wins
            for i, o in enumerate(operands):
                if isinstance(o, ast.Dict):
                    for k_, v_ in zip(o.keys, o.values):
                        if isinstance(k_, ast.Constant):
                            merged.setdefault(k_.value, []).append((v_, i > comps[0]))
            v = operands[comps[0]]
        if d.kind == "assign" and isinstance(v, ast.DictComp) and len(v.generators) == 1:
            gen = v.generators[0]
            it = gen.iter
            over_items = (
                isinstance(it, ast.Call)
                and isinstance(it.func, ast.Attribute)
                and it.func.attr == "items"
                and unparse(it.func.value) == "self.environment"
            )
            tg = gen.target
            if over_items and isinstance(tg, ast.Tuple) and len(tg.elts) == 2 and all(isinstance(e, ast.Name) for e in tg.elts):
                k, val = tg.elts[0].id, tg.elts[1].id
                key_ok = isinstance(v.key, ast.Name) and v.key.id == k
                val_ok = any(isinstance(n, ast.Name) and n.id == val for n in ast.walk(v.value))
                if gen.ifs:
                    msg = f"`{E}` drops environment entries (`if {unparse(gen.ifs[0])}`)"
                elif not key_ok:
                    msg = f"`{E}` renames environment variables (`{unparse(v.key)}`)"
                elif not val_ok:
                    msg = f"`{E}` does not use the declared value `{val}`"
                else:
                    comp_ok = True
    ctx.ob("R2", "environment = every EnvVarRequirement entry, evaluated", comp_ok, func=f, node=call, instance="execute:env-built", message=msg)
    # defaults
    want = {"HOME": "output_directory", "TMPDIR": "tmp_directory"}
    stores = {}  # key -> [(cfg node, value expression, store is conditional by construction)]
    for n in g.nodes.values():
        if n.kind != "stmt":
            continue
        if isinstance(n.ast, ast.Assign):
            for t in n.ast.targets:
                if isinstance(t, ast.Subscript) and isinstance(t.value, ast.Name) and t.value.id == E and isinstance(t.slice, ast.Constant):
                    stores.setdefault(t.slice.value, []).append((n, n.ast.value, False))
        elif isinstance(n.ast, ast.Expr) and isinstance(n.ast.value, ast.Call):
            c = n.ast.value
            # `E.setdefault('HOME', v)` stores only when the key is absent
            if (isinstance(c.func, ast.Attribute) and c.func.attr == "setdefault" and isinstance(c.func.value, ast.Name) and c.func.value.id == E
                    and len(c.args) == 2 and not c.keywords and isinstance(c.args[0], ast.Constant)):
                stores.setdefault(c.args[0].value, []).append((n, c.args[1], True))

    def _absent_fact(nid, key):
        """`key in E` is known to be false on every path reaching node nid (however the test is spelled)."""
        for a, truth in facts_at(g, nid):
            if (not truth and isinstance(a, ast.Compare) and len(a.ops) == 1 and isinstance(a.ops[0], ast.In)
                    and isinstance(a.left, ast.Constant) and a.left.value == key
                    and isinstance(a.comparators[0], ast.Name) and a.comparators[0].id == E):
                return True
        return False

    for key, attr in want.items():
        ns = [n for n, _, _ in stores.get(key, [])]
        ok = bool(ns)
        msg = f"{key} is not defaulted in the tool environment (CWL: HOME = output directory, TMPDIR = temporary directory)"
        if not ns and merged.get(key):
            ok = True
            for v_, after in merged[key]:
                if after:
                    ok, msg = False, f"`{{...EnvVarRequirement...}} | {{{key!r}: {unparse(v_)}}}` overwrites {key} even when EnvVarRequirement sets it (the right operand of `|` wins)"
                elif not unparse(v_).endswith("." + attr):
                    ok, msg = False, f"{key} defaults to `{unparse(v_)}` instead of job.{attr}"
        for n, v_, conditional in stores.get(key, []):
            val = unparse(v_)
            guarded = conditional or _absent_fact(n.id, key)
            if not guarded:
                ok, msg = False, f"`{E}[{key!r}]` is overwritten even when EnvVarRequirement sets {key}"
            elif not val.endswith("." + attr):
                ok, msg = False, f"{key} defaults to `{val}` instead of job.{attr}"
        ctx.ob("R2", f"{key} defaults to job.{attr} only when not set by the tool", ok, func=f, node=(ns[0].ast if ns else call),
               instance=f"execute:env-default:{key}", message=msg)
    # workdir
    wd = kws.get("workdir")
    ctx.ob("R2", "workdir = job.output_directory", wd is not None and norm(f, wd) == "job.output_directory", func=f, node=call,
           instance="execute:workdir", message=f"connector.run gets workdir `{unparse(wd) if wd is not None else None}` instead of the job's output directory")
    # streams
    allowed = {"stdin": {"stdin"}, "stdout": {"stdout"}, "stderr": {"stderr", "stdout"}}
    for s in ("stdin", "stdout", "stderr"):
        v = kws.get(s)
        got = _attr_origins(p, f, v, {"stdin", "stdout", "stderr"}) if v is not None else set()
        ok = v is not None and s in got and got <= allowed[s]
        ctx.ob("R2", f"{s} of the process comes from the tool's `{s}` field", ok, func=f, node=call, instance=f"execute:stream:{s}",
               message=f"connector.run gets {s}=`{unparse(v) if v is not None else None}`, derived from {sorted('self.' + x for x in got)} instead of self.{s}")
    # the command is run on every normal path that returns an output
    run_ids = g.node_containing(call)
    ret_ids = [n.id for n in g.nodes.values() if n.kind == "return"]
    ctx.ob("R2", "connector.run precedes every return of execute", bool(run_ids) and all(g.dominates(run_ids, r) for r in ret_ids),
           func=f, node=call, instance="execute:run-dominates", message="CWLCommand.execute can return an output without running the command")
    _r2_wiring(ctx)
    _r2_forwarding(ctx)
    _r2_create_command(ctx)
    _r2_local(ctx)


def _r2_wiring(ctx):
    """CWL document -> CWLCommand fields: stdin/stdout/stderr and EnvVarRequirement entries keep their roles."""
    p = ctx.prog
    f = p.func(f"{TRANS}._create_command")
    cc = [c for c in f.calls() if CMD in resolved(p, f, c)]
    ctx.require(len(cc) == 1, "C30.R2: _create_command no longer builds exactly one CWLCommand")
    init = p.func(f"{CMD}.__init__")
    for s_ in ("stdin", "stdout", "stderr"):
        kw = next((k.value for k in cc[0].keywords if k.arg == f"step_{s_}"), None)
        ok = kw is not None and isinstance(kw, ast.Attribute) and kw.attr == s_
        ctx.ob("R2", f"translator: step_{s_} = tool.{s_}", ok, func=f, node=cc[0], instance=f"translator:step_{s_}",
               message=f"CWLCommand gets step_{s_}=`{unparse(kw) if kw is not None else None}`")
        asg = [n for n in init.body_nodes() if isinstance(n, (ast.Assign, ast.AnnAssign)) and unparse(n.targets[0] if isinstance(n, ast.Assign) else n.target) == f"self.{s_}"]
        ok = len(asg) == 1 and isinstance(asg[0].value, ast.Name) and asg[0].value.id == f"step_{s_}"
        ctx.ob("R2", f"CWLCommand.__init__: self.{s_} = step_{s_}", ok, func=init, node=(asg[0] if asg else init.node), instance=f"ctor:{s_}",
               message=f"self.{s_} is initialised from `{unparse(asg[0].value) if asg else None}`")
    envs = []
    for n in f.body_nodes():
        if isinstance(n, ast.Assign) and len(n.targets) == 1 and isinstance(n.targets[0], ast.Subscript) and unparse(n.targets[0].value).endswith(".environment"):
            envs.append(n)
    ok = bool(envs) and all(
        isinstance(n.targets[0].slice, ast.Attribute) and n.targets[0].slice.attr == "envName" and isinstance(n.value, ast.Attribute) and n.value.attr == "envValue"
        and unparse(n.targets[0].slice.value) == unparse(n.value.value)
        for n in envs
    )
    ctx.ob("R2", "translator: environment[envName] = envValue for every EnvVarRequirement entry", ok, func=f, node=(envs[0] if envs else f.node),
           instance="translator:envdef", message=f"EnvVarRequirement entries are stored as {[unparse(n) for n in envs] or 'nothing'}")


CC_PARAMS = ["class_name", "command", "environment", "workdir", "stdin", "stdout", "stderr"]


def _r2_forwarding(ctx):
    p = ctx.prog
    cc = p.func(CREATE)
    ctx.require(cc.params == CC_PARAMS, f"C30.R2: create_command signature changed: {cc.params}")
    # syntactic enumeration (cheap) confirmed by the resolver; an unresolvable `create_command(` is an error
    sites = []
    for cf, c in p.calls_by_attr("create_command"):
        qs = p.resolve_call(cf, c, fanout=False)
        if CREATE in qs:
            sites.append((cf, c))
        else:
            ctx.require(all(q in p.functions for q in qs), f"C30.R2: cannot resolve `{unparse(c.func)}` in {cf.qualname}")
    ctx.require(len(sites) >= 1, "C30.R2: create_command has no caller")
    for f, call in sites:
        passed = {}
        for i, a in enumerate(call.args):
            if i < len(CC_PARAMS):
                passed[CC_PARAMS[i]] = a
        for k in call.keywords:
            if k.arg:
                passed[k.arg] = k.value
        bad = []
        for name in ("command", "environment", "workdir"):
            a = passed.get(name)
            if not (isinstance(a, ast.Name) and a.id == name and name in f.params):
                bad.append(f"{name}={unparse(a) if a is not None else '<missing>'}")
        for name in ("stdin", "stdout", "stderr"):
            a = passed.get(name)
            if a is not None and not (isinstance(a, ast.Name) and a.id == name and name in f.params):
                bad.append(f"{name}={unparse(a)}")
        ctx.ob("R2", f"{f.qualname.split('.')[-2]}.{f.name} forwards command/environment/workdir/streams unchanged to create_command",
               not bad, func=f, node=call, instance="forward:create_command",
               message=f"{f.qualname} renders the command with {bad}: the tool does not get the caller's values")


def _env_sources(ctx, f):
    """Names bound to the *values* of `environment.items()` in create_command."""
    vals, keys = set(), set()
    for n in f.body_nodes():
        it = tg = None
        if isinstance(n, ast.comprehension):
            it, tg = n.iter, n.target
        elif isinstance(n, (ast.For,)):
            it, tg = n.iter, n.target
        if it is None:
            continue
        if (
            isinstance(it, ast.Call)
            and isinstance(it.func, ast.Attribute)
            and it.func.attr in ("items", "values")
            and isinstance(it.func.value, ast.Name)
            and it.func.value.id == "environment"
        ):
            if it.func.attr == "items" and isinstance(tg, ast.Tuple) and len(tg.elts) == 2:
                if isinstance(tg.elts[0], ast.Name):
                    keys.add(tg.elts[0].id)
                if isinstance(tg.elts[1], ast.Name):
                    vals.add(tg.elts[1].id)
            elif it.func.attr == "values" and isinstance(tg, ast.Name):
                vals.add(tg.id)
    return vals, keys


def _r2_create_command(ctx):
    p = ctx.prog
    f = p.func(CREATE)
    g = f.cfg
    rets = [n for n in _returns(f) if n.value is not None]
    ctx.require(len(rets) >= 1, "C30.R2: create_command has no return value")
    vals, keys = _env_sources(ctx, f)
    uses_env = any(isinstance(n, ast.Name) and n.id == "environment" and isinstance(n.ctx, ast.Load) for n in f.body_nodes())
    ctx.require(bool(vals) or not uses_env, "C30.R2: create_command reads `environment` in a shape the rule cannot interpret")
    ctx.ob("R2", "create_command renders the environment", uses_env and bool(vals), func=f, node=f.node, instance="create_command:env-present",
           message="create_command ignores its `environment` argument: EnvVarRequirement variables never reach the process")
    for r in rets:
        sources = set(vals) | {"workdir"}
        check_quoting(ctx, "R2", f, r.value, r, trusted={"command", "class_name"} | keys, what="create_command", only_sources=sources)
        # redirections: flow-sensitive -- the raw parameter must not reach the rendered line.  The returned expression
        # is followed through temporaries (`line = <rendering>; return line`): the names are read where the line is
        # rendered, not at the return
        rid = g.ids_of(r)
        ctx.require(bool(rid), "C30.R2: return node of create_command not in CFG")
        for (val, at), s in [(va, s) for va in flow_values(f, r.value, rid[0]) for s in ("stdin", "stdout", "stderr")]:
            read = {n.id for n in ast.walk(val) if isinstance(n, ast.Name)}
            if s not in read:
                ctx.ob("R2", f"create_command renders the {s} redirection", False, func=f, node=r, instance=f"create_command:{s}:present",
                       message=f"the {s} redirection is not part of the rendered command line")
                continue
            bad = []
            for d in reaching(f, s, at):
                if d == "param":
                    bad.append(f"the raw `{s}` parameter")
                    continue
                st = g.nodes[d].ast
                v = getattr(st, "value", None)
                if v is None:
                    bad.append(g.nodes[d].text(60))
                    continue
                for fr in fragments(p, f, v):
                    # inside the assigned value the name itself refers to the previous binding (the parameter)
                    if fr.kind == "dyn":
                        bad.append(f"`{fr.text}` in `{g.nodes[d].text(60)}`")
            ctx.ob("R2", f"create_command: {s} reaches the command line only as a shlex.quote'd redirection target", not bad, func=f, node=r,
                   instance=f"create_command:{s}:quoted",
                   message=f"{s} redirection target reaches the shell unquoted via {bad}", witness=bad)


def _r2_local(ctx):
    p = ctx.prog
    f = p.func(f"{LOCAL}.run")
    sinks = [c for c in f.calls() if is_call_to(p, f, c, f"{UTILS}.run_in_subprocess")]
    ctx.require(len(sinks) == 1, "C30.R2: LocalConnector.run no longer calls run_in_subprocess exactly once")
    cmd = next((k.value for k in sinks[0].keywords if k.arg == "command"), None)
    ctx.require(cmd is not None, "C30.R2: run_in_subprocess call without command=")
    frs = fragments(p, f, cmd)
    created = [fr for fr in frs if fr.kind == "quoted" and any(
        isinstance(n, ast.Name) and any(d.value is not None and is_call_to(p, f, d.value, CREATE) for d in defs_of(f, n.id))
        for n in ast.walk(fr.expr))]
    ctx.ob("R2", "LocalConnector.run executes the line rendered by create_command", bool(created), func=f, node=sinks[0], instance="local:rendered",
           message="the command executed by LocalConnector.run is not the shlex.quote'd result of create_command")
    for fr in frs:
        if fr.kind != "dyn":
            continue
        trusted = fr.text == "self._get_shell()" or (isinstance(fr.expr, ast.Call) and (dotted(fr.expr.func) or "").startswith("mslex."))
        if trusted:
            continue
        ctx.ob("R2", "LocalConnector.run quotes the rendered line for `sh -c`", False, func=f, node=sinks[0], instance=f"local:raw:{fr.text[:40]}",
               message=f"`{fr.text[:80]}` is handed to run_in_subprocess (which shlex.split()s it) without shlex.quote: the rendered line is re-split")


# --------------------------------------------------------------------------- R3


def _classify_bind(p, f) -> str:
    """'delegates' (wraps sub-processor results), 'escapes', or 'raw'."""
    ctors = [
        c
        for c in f.calls()
        if any(q in p.classes and p.is_subclass(q, TOKEN) for q in p.resolve_call(f, c, fanout=False))
    ]
    sub_binds = [c for c in f.calls() if isinstance(c.func, ast.Attribute) and c.func.attr == "bind"]
    esc = [c for c in f.calls() if ESC in resolved(p, f, c) or is_call_to(p, f, c, "shlex.quote", "shlex.join")]
    if esc:
        return "escapes"
    if not ctors:
        return "delegates" if sub_binds else "raw"
    for c in ctors:
        kw = next((k.value for k in c.keywords if k.arg == "value"), None)
        if kw is None:
            return "raw"
        has_bind = any(isinstance(x, ast.Call) and isinstance(x.func, ast.Attribute) and x.func.attr == "bind" for x in ast.walk(expand(f, kw)))
        if not has_bind:
            return "raw"
    return "delegates"


def r3(ctx):
    p = ctx.prog
    b = p.func(BUILDER)
    supp = [
        n
        for n in b.body_nodes()
        if isinstance(n, ast.Assign)
        and any(isinstance(t, ast.Attribute) and t.attr == "shellQuote" for t in n.targets)
        and isinstance(n.value, ast.Constant)
        and n.value.value is False
    ]
    # classes the builder (and the helper it calls) can instantiate
    funcs = [b]
    for c in b.calls():
        for q in p.resolve_call(b, c, fanout=False):
            if q in p.functions and q != b.qualname and p.functions[q].module is b.module and p.functions[q] not in funcs:
                funcs.append(p.functions[q])
    classes = {}
    for f in funcs:
        for c in f.calls():
            for q in p.resolve_call(f, c, fanout=False):
                if q in p.classes and p.is_subclass(q, TPROC):
                    classes.setdefault(q, c)
    ctx.require(len(classes) >= 3, f"C30.R3: only {len(classes)} processor classes constructed by the translator builder")
    if not supp:
        ctx.ob("R3", "no escape suppression on composite bindings", True, func=b, node=b.node, instance="composite:no-suppression", trivial=True)
        return
    for q, site in sorted(classes.items()):
        bind = p.resolve_method(q, "bind")
        ctx.require(bind is not None and not bind.is_abstract, f"C30.R3: {q} has no concrete bind")
        kind = _classify_bind(p, bind)
        ctx.ob(
            "R3",
            f"{q.split('.')[-1]}.bind escapes its words or delegates to nested processors",
            kind != "raw",
            func=b,
            node=supp[0],
            instance=f"composite:raw-leaf:{q.split('.')[-1]}",
            message=(
                f"the builder switches escaping off on the outer processor of an array/record binding (`{unparse(supp[0])}` + is_shell_command = True) "
                f"but can nest {q.split('.')[-1]}, whose bind() puts the raw token value into the CommandToken: "
                "array items / record fields without their own inputBinding reach the shell unquoted"
            ),
            witness=[f"{bind.file}:{bind.lineno} {bind.qualname}", f"constructed at {TFILE}:{site.lineno}"],
        )


# --------------------------------------------------------------------------- R4


_NAME = "<name>"  # stands for "the token has a name" in the symbolic evaluation of a sort key


def _bind_qualnames(p) -> set[str]:
    return {f.qualname for f in p.overrides(TPROC, "bind")}


def _module_closure(p, roots, stop) -> list:
    """`roots` plus the functions of the CWL command module they call (transitively), never entering `stop`."""
    out = list(roots)
    todo = list(roots)
    while todo:
        f = todo.pop()
        for c in f.calls():
            for q in p.resolve_call(f, c, fanout=False):
                g = p.functions.get(q)
                if g is None or g in out or q in stop or g.module.name != MOD:
                    continue
                out.append(g)
                todo.append(g)
    return out


def _sort_calls(p, f) -> list[ast.Call]:
    out = []
    for c in f.body_nodes():
        if not isinstance(c, ast.Call):
            continue
        if isinstance(c.func, ast.Name) and c.func.id == "sorted" and p.resolve_call(f, c, fanout=False) == ["sorted"]:
            out.append(c)
        elif isinstance(c.func, ast.Attribute) and c.func.attr == "sort" and not c.args:
            out.append(c)
    return sorted(out, key=lambda c: (c.lineno, c.col_offset))


def _key_alternatives(p, f, key):
    """The key function as (parameter, [(guards, expression)] in evaluation order); (None, reason) when it is not a
    one-parameter lambda / straight-line helper."""
    if isinstance(key, ast.Lambda):
        a = key.args
        if len(a.args) != 1 or a.posonlyargs or a.vararg or a.kwonlyargs or a.kwarg:
            return None, "is not a one-parameter function"
        return a.args[0].arg, [([], key.body)]
    if isinstance(key, (ast.Name, ast.Attribute)):
        qs = p.resolve_call(f, ast.Call(func=key, args=[], keywords=[]), fanout=False)
        kf = p.functions.get(qs[0]) if len(qs) == 1 else None
        if kf is None:
            return None, f"`{unparse(key)}` is not a function of the program"
        params = [x for x in kf.params if x not in ("self", "cls")]
        if len(params) != 1:
            return None, f"`{unparse(key)}` is not a one-parameter function"
        if any(isinstance(n, (ast.For, ast.AsyncFor, ast.While, ast.Try, ast.With, ast.Match)) for n in kf.body_nodes()):
            return None, f"`{unparse(key)}` is not a straight-line function"
        alts = []
        for r in sorted(_returns(kf), key=lambda r: r.lineno):
            if r.value is None:
                return None, f"`{unparse(key)}` can return None"
            alts.append(([(t, pol) for t, pol, _ in guards_of(r, stop=kf.node)], expand(kf, r.value)))
        return params[0], alts
    return None, "is not a lambda or a named function"


def _key_result(alts, param: str, has_name: bool):
    """The expression the key function evaluates to for a token with / without a name (NotFoldable if a guard is not
    a test of `<param>.name`)."""
    atom = f"{param}.name"
    val = _NAME if has_name else None

    def pick(e):
        while isinstance(e, ast.IfExp):
            e = e.body if _fold3(e.test, atom, val) else e.orelse
        return e

    for guards, e in alts:
        if all(bool(_fold3(t, atom, val)) == pol for t, pol in guards):
            return pick(e)
    raise NotFoldable("no return applies")


def _key_defect(p, f, call) -> str | None:
    """None when the sort call orders tokens by (position, name) ascending, else what is wrong."""
    kws = {k.arg: k.value for k in call.keywords if k.arg}
    rev = kws.get("reverse")
    if rev is not None and not (isinstance(rev, ast.Constant) and rev.value is False):
        return f"sorts with reverse={unparse(rev)}"
    key = kws.get("key")
    if key is None:
        return "sorts without a key"
    key = expand(f, key) if isinstance(key, ast.Name) and _is_local_value(f, key.id) else key
    param, alts = _key_alternatives(p, f, key)
    if param is None:
        return f"sort key `{unparse(key)[:80]}` {alts}"
    for has_name in (True, False):
        case = "a named token" if has_name else "a token without name"
        try:
            res = _key_result(alts, param, has_name)
        except NotFoldable as e:
            return f"sort key `{unparse(key)[:80]}` branches on `{e}`, which is not a test of `{param}.name`"
        if not isinstance(res, (ast.List, ast.Tuple)):
            return f"sort key is `{unparse(res)[:60]}` for {case}, not the sequence (position, name): tokens sharing a position keep declaration order"
        elts = [unparse(e) for e in res.elts]
        if not elts or elts[0] != f"{param}.position":
            return f"sort key `{unparse(res)[:60]}` for {case} does not start with the token position"
        if has_name and (len(elts) < 2 or elts[1] != f"{param}.name"):
            return f"sort key `{unparse(res)[:60]}` for {case} does not break position ties by the token name"
        if not has_name and f"{param}.name" in elts:
            return f"sort key `{unparse(res)[:60]}` compares the None name of a token without name (arguments) with strings"
    return None


def _is_local_value(f, name: str) -> bool:
    ds = defs_of(f, name)
    return len(ds) == 1 and ds[0].kind == "assign" and isinstance(ds[0].value, ast.Lambda)


def r4(ctx):
    p = ctx.prog
    binds = _bind_qualnames(p)
    for fq, what in ((MERGE, "the fields of a record"), (EXE, "the command line")):
        root = p.func(fq)
        scope = _module_closure(p, [root], stop=({MERGE, EXE} - {fq}) | binds | {REPR, ESC})
        sites = [(g, c) for g in scope for c in _sort_calls(p, g)]
        ctx.ob("R4", f"{root.name} sorts the tokens of {what}", bool(sites), func=root, node=root.node, instance=f"order:{root.name}:present",
               message=f"{root.qualname} no longer sorts the tokens of {what}: arguments reach the tool in declaration order instead of (position, name) order")
        for i, (g, c) in enumerate(sites):
            bad = _key_defect(p, g, c)
            ctx.ob("R4", f"{root.name}: tokens of {what} are ordered by (position, name)", bad is None, func=g, node=c,
                   instance=f"order:{root.name}:key:{i}",
                   message=f"{g.qualname} {bad} (CWL: bindings are sorted by position, ties broken by the input name)")


# --------------------------------------------------------------------------- R5

_STR_FUNCS = ("str", "repr", "format", "ascii")


def _annot_is_str(ann) -> bool:
    return ann is not None and any(isinstance(n, ast.Name) and n.id == "str" for n in ast.walk(ann)) and not any(
        isinstance(n, ast.Name) and n.id in ("Any", "Token", "MutableSequence", "MutableMapping") for n in ast.walk(ann))


def _is_repr_call(p, f, n) -> bool:
    return isinstance(n, ast.Call) and REPR in resolved(p, f, n)


def _texty(p, f, e) -> bool:
    """The expression is text by construction (so `+` on it is string concatenation)."""
    if isinstance(e, ast.Constant):
        return isinstance(e.value, str)
    if isinstance(e, ast.JoinedStr):
        return True
    if isinstance(e, ast.Call):
        if dotted(e.func) in _STR_FUNCS or _is_repr_call(p, f, e):
            return True
        return isinstance(e.func, ast.Attribute) and e.func.attr in ("format", "join") and _texty(p, f, e.func.value)
    if isinstance(e, ast.BinOp) and isinstance(e.op, ast.Add):
        return _texty(p, f, e.left) or _texty(p, f, e.right)
    if isinstance(e, ast.Attribute) and isinstance(e.value, ast.Name) and e.value.id == "self" and f.cls is not None:
        return p.attr_type(f.cls.qualname, e.attr) == "str"
    if isinstance(e, ast.Name) and e.id in f.params:
        return _annot_is_str(f.param_annotation(e.id))
    return False


def _raw_reads(p, f, expr, tainted) -> list[ast.AST]:
    """Reads of a token-derived value in `expr` that are not arguments of `_get_value_repr`."""
    out = []
    for n in [expr, *ast.walk(expr)]:
        hit = (isinstance(n, ast.Name) and isinstance(n.ctx, ast.Load) and n.id in tainted) or (
            isinstance(n, ast.Attribute) and n.attr == "value" and isinstance(n.value, ast.Name) and n.value.id not in ("self", "cls")
            and isinstance(n.ctx, ast.Load))
        if not hit or any(x is n for x in out):
            continue
        rendered = False
        if n is not expr:
            for a in ancestors(n):
                if _is_repr_call(p, f, a):
                    rendered = True
                    break
                if a is expr:
                    break
        if not rendered:
            out.append(n)
    return out


def _store_names(t) -> list[str]:
    return [n.id for n in ast.walk(t) if isinstance(n, ast.Name)]


def _taint(p, f, seeds) -> set[str]:
    tainted = set(seeds)
    nodes = list(walk_no_nested(f.node))
    changed = True
    while changed:
        changed = False
        for n in nodes:
            val, tgts = None, []
            if isinstance(n, ast.Assign):
                val, tgts = n.value, n.targets
            elif isinstance(n, (ast.AnnAssign, ast.AugAssign)) and n.value is not None:
                val, tgts = n.value, [n.target]
            elif isinstance(n, ast.NamedExpr):
                val, tgts = n.value, [n.target]
            elif isinstance(n, (ast.For, ast.AsyncFor, ast.comprehension)):
                val, tgts = n.iter, [n.target]
            if val is None or not _raw_reads(p, f, val, tainted):
                continue
            for t in tgts:
                if isinstance(t, (ast.Name, ast.Tuple, ast.List, ast.Starred)):
                    for name in _store_names(t):
                        if name not in tainted:
                            tainted.add(name)
                            changed = True
    return tainted


def _render_sites(p, f):
    """(node, kind, operands): places where values are turned into / concatenated as text."""
    for n in walk_no_nested(f.node):
        if isinstance(n, ast.Call):
            d = dotted(n.func)
            if d in _STR_FUNCS and n.args:
                yield n, f"{d}()", [n.args[0]]
            elif isinstance(n.func, ast.Attribute) and n.func.attr == "format" and _texty(p, f, n.func.value):
                yield n, "str.format", [*n.args, *[k.value for k in n.keywords]]
            elif isinstance(n.func, ast.Attribute) and n.func.attr == "join" and len(n.args) == 1 and _texty(p, f, n.func.value):
                a = n.args[0]
                if isinstance(a, (ast.ListComp, ast.GeneratorExp)):
                    yield n, "join", [a.elt]
                elif isinstance(a, ast.Call) and dotted(a.func) == "map" and len(a.args) == 2:
                    fn = a.args[0]
                    is_repr = REPR in resolved(p, f, ast.Call(func=fn, args=[], keywords=[])) if isinstance(fn, (ast.Name, ast.Attribute)) else False
                    yield n, "join", ([] if is_repr else [a.args[1]])
                else:
                    yield n, "join", [a]
        elif isinstance(n, ast.JoinedStr):
            ops = [v.value for v in n.values if isinstance(v, ast.FormattedValue)]
            if ops:
                yield n, "f-string", ops
        elif isinstance(n, ast.BinOp) and isinstance(n.op, ast.Mod) and _texty(p, f, n.left):
            yield n, "%-format", [n.right]
        elif isinstance(n, ast.BinOp) and isinstance(n.op, ast.Add):
            lt, rt = _texty(p, f, n.left), _texty(p, f, n.right)
            if lt or rt:
                yield n, "string +", [x for x, t in ((n.left, lt), (n.right, rt)) if not t]


def _diagnostic_context(n) -> bool:
    """Inside a `raise` statement or a logging call: text for people, not for the command line."""
    if isinstance(enclosing_stmt(n), ast.Raise):
        return True
    for a in ancestors(n):
        if isinstance(a, ast.Call) and (dotted(a.func) or "").split(".")[0] in ("logger", "logging", "warnings"):
            return True
        if isinstance(a, ast.stmt):
            break
    return False


def _render_seeds(p, f) -> set[str]:
    seeds = {x for x in f.params if x not in ("self", "cls", "options", "position") and not _annot_is_str(f.param_annotation(x))}
    for c in f.calls():
        if any(q in p.classes and p.is_subclass(q, TOKEN) for q in p.resolve_call(f, c, fanout=False)):
            for k in c.keywords:
                if k.arg == "value":
                    seeds.update(n.id for n in ast.walk(k.value) if isinstance(n, ast.Name) and isinstance(n.ctx, ast.Load) and n.id not in ("isinstance", "MutableSequence"))
    return seeds


_GLUE_DEPTH = 2  # inlining bound of the prefix-glue recogniser (bind -> helper -> helper of the helper)


def _call_bindings(h, call) -> dict:
    """{parameter of h: argument expression of `call`}; the receiver of a bound method call (`self.<h>(...)`) is the
    argument of the method's first parameter."""
    params = list(h.params)
    out = {}
    bound_receiver = h.cls is not None and isinstance(call.func, ast.Attribute) and "staticmethod" not in [unparse(d) for d in h.decorators]
    if bound_receiver and params and params[0] in ("self", "cls"):
        out[params[0]] = call.func.value
        params = params[1:]
    for i, a in enumerate(call.args):
        if isinstance(a, ast.Starred):
            break
        if i < len(params):
            out[params[i]] = a
    for k in call.keywords:
        if k.arg:
            out[k.arg] = k.value
    return out


def _module_helper(p, f, call, stop):
    """The function of the CWL command module that `call` resolves to (None: not a single helper of the module)."""
    qs = resolved(p, f, call)
    if len(qs) != 1:
        return None
    h = p.functions.get(next(iter(qs)))
    if h is None or h.qualname in stop or h.module.name != MOD:
        return None
    return h


def _prefix_glue(p, f, tainted, stop, prefix_names=frozenset(), rendered_names=frozenset(), self_names=frozenset({"self"}), depth=0, seen=frozenset()):
    """(reads of the binding prefix, text operations gluing the prefix and a `_get_value_repr(<token value>)` rendering)
    in `f` and in the helpers of the module it hands the value to (resolved calls, inlined up to _GLUE_DEPTH levels).

    In a helper the prefix is `<proc>.prefix`, where <proc> is the parameter the call binds to the processor (`self` of a
    helper method called on `self`, or a parameter that receives `self`), or a parameter that the call binds to the
    prefix; the token value is whatever parameter the call binds to a token-derived argument; a parameter bound to an
    already rendered value counts as rendered.  A helper whose result is discarded contributes no glue."""

    def is_prefix(n):
        if isinstance(n, ast.Attribute):
            return n.attr == "prefix" and isinstance(n.value, ast.Name) and n.value.id in self_names and isinstance(n.ctx, ast.Load)
        return isinstance(n, ast.Name) and isinstance(n.ctx, ast.Load) and n.id in prefix_names

    def renders_value(x):
        return _is_repr_call(p, f, x) and bool(x.args) and bool(_raw_reads(p, f, x.args[0], tainted))

    body = list(f.body_nodes())
    reads = [n for n in body if is_prefix(n)]
    # locals holding an already rendered value (`text = _get_value_repr(value)`)
    rendered = set(rendered_names)
    for n in body:
        if isinstance(n, (ast.Assign, ast.AnnAssign, ast.NamedExpr)) and n.value is not None and renders_value(n.value):
            for t in n.targets if isinstance(n, ast.Assign) else [n.target]:
                if isinstance(t, ast.Name):
                    rendered.add(t.id)
    glue = []
    for n in body:
        is_text_op = (isinstance(n, ast.BinOp) and isinstance(n.op, ast.Add)) or isinstance(n, ast.JoinedStr) or (
            isinstance(n, ast.Call) and isinstance(n.func, ast.Attribute) and n.func.attr in ("format", "join"))
        if not is_text_op or not any(any(x is r for x in ast.walk(n)) for r in reads):
            continue
        if any(renders_value(x) for x in ast.walk(n)) or any(isinstance(x, ast.Name) and x.id in rendered for x in ast.walk(n)):
            glue.append(n)
    if depth >= _GLUE_DEPTH:
        return reads, glue
    for c in body:
        if not isinstance(c, ast.Call):
            continue
        h = _module_helper(p, f, c, stop)
        if h is None or h.qualname in seen or h is f:
            continue
        args = _call_bindings(h, c)
        h_self = frozenset(prm for prm, a in args.items() if isinstance(a, ast.Name) and a.id in self_names)
        h_prefix = frozenset(prm for prm, a in args.items() if is_prefix(a))
        h_rendered = frozenset(prm for prm, a in args.items() if renders_value(a) or (isinstance(a, ast.Name) and a.id in rendered))
        h_seeds = {prm for prm, a in args.items() if prm not in h_prefix and prm not in h_rendered and _raw_reads(p, f, a, tainted)}
        h_reads, h_glue = _prefix_glue(p, h, _taint(p, h, h_seeds), stop, h_prefix, h_rendered, h_self, depth + 1, seen | {f.qualname})
        reads.extend(h_reads)
        if not isinstance(parent(c), ast.Expr):
            glue.extend(h_glue)
    return reads, glue


def _non_value_params(p, scope, roots) -> dict[str, set[str]]:
    """{helper qualname: parameters that every call site in `scope` binds to text (a `str` attribute / parameter /
    literal of the caller) or to the processor itself (`self`)}: such a parameter is a prefix, a separator or the
    receiver, not a token value."""
    sites = {}
    for f in scope:
        for c in f.calls():
            qs = resolved(p, f, c)
            for q in qs:
                h = p.functions.get(q)
                if h is None or h in roots or h not in scope:
                    continue
                args = _call_bindings(h, c)
                for prm in h.params:
                    a = args.get(prm)
                    ok = len(qs) == 1 and a is not None and (
                        _texty(p, f, a) or (isinstance(a, ast.Name) and a.id == "self" and f.cls is not None and f.params[:1] == ["self"]))
                    sites.setdefault(q, {}).setdefault(prm, []).append(ok)
    return {q: {prm for prm, oks in per.items() if oks and all(oks)} for q, per in sites.items()}


def r5(ctx):
    p = ctx.prog
    ctx.require(p.has(REPR), f"C30.R5: anchor {REPR} vanished")
    exe = p.func(EXE)
    binds = [f for f in p.overrides(TPROC, "bind") if not f.is_abstract]
    ctx.require(len(binds) >= 3, f"C30.R5: only {len(binds)} concrete CommandTokenProcessor.bind overrides found")
    scope = _module_closure(p, [exe, *binds], stop={REPR})
    taints = {}
    non_value = _non_value_params(p, scope, [exe, *binds])
    for f in scope:
        tainted = _taint(p, f, _render_seeds(p, f) - non_value.get(f.qualname, set()))
        taints[f.qualname] = tainted
        bad = []
        first = None
        n_sites = 0
        for node, kind, ops in _render_sites(p, f):
            if _diagnostic_context(node):
                continue
            n_sites += 1
            raw = [r for o in ops for r in _raw_reads(p, f, o, tainted)]
            if raw:
                first = first or node
                bad.append(f"{kind} `{unparse(node)[:70]}` (line {node.lineno}) renders `{unparse(raw[0])}`")
        short = ".".join(f.qualname.split(".")[3:])
        ctx.ob("R5", f"{short}: token values become text only through _get_value_repr ({n_sites} rendering sites)", not bad, func=f, node=first or f.node,
               instance=f"render:{short}",
               message=f"{f.qualname} turns a token value into text without _get_value_repr: " + "; ".join(bad)
               + " -- floats are printed with Python's repr (1e-05, 30000000000.0) instead of the reference decimal rendering",
               witness=bad)
    # positive side
    glue_stop = {b.qualname for b in binds} | {REPR, ESC}
    for f in binds:
        prefix_reads, glue = _prefix_glue(p, f, taints[f.qualname], glue_stop - {f.qualname})
        if not prefix_reads:
            continue
        ctx.ob("R5", "bind glues prefix and the rendered value into one word (separate: false)", bool(glue), func=f, node=f.node, instance="render:prefix-glue",
               message=f"{f.qualname} reads self.prefix but never concatenates it with _get_value_repr(value): `separate: false` bindings no longer yield the single word <prefix><value>")
    words = [c for c in exe.body_nodes() if _is_repr_call(p, exe, c) and c.args and _raw_reads(p, exe, c.args[0], taints[exe.qualname])]
    ctx.ob("R5", "_get_executable_command renders the words of every token with _get_value_repr", bool(words), func=exe, node=exe.node, instance="render:words",
           message="_get_executable_command no longer passes the token words through _get_value_repr: unquoted numeric words (shellQuote: false) are not rendered like the reference runner")
    vfc = p.func(VFC)
    seps = [x for x in vfc.params if _annot_is_str(vfc.param_annotation(x))]
    joins = [c for c in vfc.body_nodes() if isinstance(c, ast.Call) and isinstance(c.func, ast.Attribute) and c.func.attr == "join"
             and isinstance(c.func.value, ast.Name) and c.func.value.id in seps]
    ctx.ob("R5", "_get_value_for_command joins array items with itemSeparator", bool(joins), func=vfc, node=vfc.node, instance="render:item-separator",
           message="_get_value_for_command never joins the items with its item_separator: itemSeparator bindings yield one word per item")


# --------------------------------------------------------------------------- R6

_MUTABLE_CTORS = ("dict", "list", "set", "bytearray", "defaultdict", "OrderedDict", "Counter", "deque", "ChainMap")
_INPLACE = ("append", "extend", "insert", "update", "setdefault", "add", "pop", "popitem", "remove", "discard", "clear", "sort", "reverse",
            "appendleft", "extendleft")


def _param_defaults(f) -> dict:
    a = f.node.args
    pos = a.posonlyargs + a.args
    out = {x.arg: d for x, d in zip(reversed(pos), reversed(a.defaults))}
    out.update({k.arg: d for k, d in zip(a.kwonlyargs, a.kw_defaults) if d is not None})
    return out


def _mutable_display(e) -> bool:
    """The expression evaluates to a new mutable container (dict / list / set display, comprehension, constructor)."""
    if isinstance(e, (ast.Dict, ast.List, ast.Set, ast.ListComp, ast.DictComp, ast.SetComp)):
        return True
    return isinstance(e, ast.Call) and (dotted(e.func) or "").split(".")[-1] in _MUTABLE_CTORS


def _empty_display(e) -> bool:
    if isinstance(e, ast.Dict):
        return not e.keys
    if isinstance(e, (ast.List, ast.Set)):
        return not e.elts
    return isinstance(e, ast.Call) and not e.args and not e.keywords and _mutable_display(e)


def _value_alts(f, expr, at: int, truthy: bool = False, depth: int = 6) -> list[tuple]:
    """[(leaf expression | None, CFG node, truthy_only)]: what a stored value may be.  Locals are followed through their
    reaching plain assignments (flow-sensitive, so `if x is None: x = {}` yields the parameter and `{}`); `a or b` yields
    `a` only when it is truthy; `a if c else b` both arms (`x if x else b`: x only when truthy); None = opaque binding
    (loop / with / unpacking target)."""
    if isinstance(expr, ast.Await):
        return _value_alts(f, expr.value, at, truthy, depth)
    if isinstance(expr, ast.NamedExpr):
        return _value_alts(f, expr.value, at, truthy, depth)
    if isinstance(expr, ast.IfExp):
        same = isinstance(expr.test, ast.Name) and isinstance(expr.body, ast.Name) and expr.test.id == expr.body.id
        return _value_alts(f, expr.body, at, truthy or same, depth) + _value_alts(f, expr.orelse, at, truthy, depth)
    if isinstance(expr, ast.BoolOp):
        out = []
        for i, v in enumerate(expr.values):
            last = i == len(expr.values) - 1
            out.extend(_value_alts(f, v, at, truthy or (isinstance(expr.op, ast.Or) and not last), depth))
        return out
    if isinstance(expr, ast.Name) and isinstance(expr.ctx, ast.Load) and depth > 0:
        out = []
        for d in reaching(f, expr.id, at):
            if d == "param":
                out.append((expr, at, truthy))
                continue
            v = def_value(f, expr.id, d)
            if v is None:
                out.append((None, d, truthy))
            else:
                out.extend(_value_alts(f, v, d, truthy, depth - 1))
        return out
    return [(expr, at, truthy)]


def _self_stores(f):
    """(attribute, value expression, statement) for every `self.<attr> = <value>` of a method."""
    if not f.params or f.cls is None or "staticmethod" in [unparse(d) for d in f.decorators]:
        return
    me = f.params[0]
    for n in f.body_nodes():
        if isinstance(n, ast.Assign):
            tgts, val = n.targets, n.value
        elif isinstance(n, ast.AnnAssign) and n.value is not None:
            tgts, val = [n.target], n.value
        else:
            continue
        for t in tgts:
            if isinstance(t, ast.Attribute) and isinstance(t.value, ast.Name) and t.value.id == me:
                yield t.attr, val, n


def _shared_default(f, leaf, truthy_only: bool):
    """(parameter, default expression) when `leaf` is a parameter of `f` whose default object is a mutable container
    that can be the stored value (an *empty* default on the left of `or` is falsy and is never the one stored)."""
    if not (isinstance(leaf, ast.Name) and leaf.id in f.params):
        return None
    d = _param_defaults(f).get(leaf.id)
    if d is None or not _mutable_display(d) or (truthy_only and _empty_display(d)):
        return None
    return leaf.id, d


def _held(e):
    """`e` and, for container displays, the elements they hold (an alias kept inside a fresh list is still an alias)."""
    yield e
    if isinstance(e, (ast.List, ast.Tuple, ast.Set)):
        for x in e.elts:
            yield from _held(x.value if isinstance(x, ast.Starred) else x)
    elif isinstance(e, ast.Dict):
        for x in e.values:
            yield from _held(x)


def _isolation_scope(p) -> list[str]:
    out = []
    for b in (f"{TOKEN.rsplit('.', 1)[0]}.Command", TPROC):
        for q in [b, *p.subclasses(b)]:
            if q not in out:
                out.append(q)
    return out


def r6(ctx):
    p = ctx.prog
    scope = _isolation_scope(p)
    ctx.require(CMD in scope, f"C30.R6: {CMD} is no longer a Command subclass")
    # a. no default object of a parameter ends up in instance state
    for q in scope:
        c = p.cls(q)
        for name, f in sorted(c.methods.items()):
            defaults = _param_defaults(f)
            if name != "__init__" and not any(_mutable_display(d) for d in defaults.values()):
                continue
            g = f.cfg
            bad = []
            first = None
            n_stores = 0
            for attr, val, stmt in _self_stores(f):
                ids = g.ids_of(stmt)
                if not ids:
                    continue
                n_stores += 1
                for leaf0, _, truthy_only in _value_alts(f, val, ids[0]):
                    for leaf in (_held(leaf0) if leaf0 is not None else []):
                        hit = _shared_default(f, leaf, truthy_only)
                        if hit:
                            first = first or stmt
                            bad.append(f"self.{attr} = `{unparse(val)[:60]}` can be the default object `{unparse(hit[1])}` of parameter `{hit[0]}`")
            short = ".".join(f.qualname.split(".")[-2:])
            ctx.ob("R6", f"{short}: no mutable default argument becomes instance state", not bad, func=f, node=first or f.node,
                   instance=f"isolation:default:{short}",
                   message=f"{f.qualname}: " + "; ".join(bad) + " -- a default is evaluated once, so every instance built without that argument shares one "
                   "object (CWLCommand: the translator fills command.environment[...] after construction, so EnvVarRequirement variables leak from one tool to the others)",
                   witness=bad)
    # b. what a builder fills in place after construction is a per-instance container
    builders = [f for f in p.all_funcs() if f.module.name == TRANS]
    checked = set()
    for b in builders:
        ctor_of = {}
        for n in b.body_nodes():
            if isinstance(n, (ast.Assign, ast.AnnAssign)) and n.value is not None and isinstance(n.value, ast.Call):
                t = n.targets[0] if isinstance(n, ast.Assign) and len(n.targets) == 1 else getattr(n, "target", None)
                qs = [q for q in resolved(p, b, n.value) if q in scope]
                if isinstance(t, ast.Name) and len(qs) == 1:
                    ctor_of.setdefault(t.id, []).append((qs[0], n.value))
        if not ctor_of:
            continue
        for n in b.body_nodes():
            tgt = None
            if isinstance(n, ast.Subscript) and isinstance(n.ctx, (ast.Store, ast.Del)):
                tgt = n.value
            elif isinstance(n, ast.AugAssign):
                tgt = n.target
            elif isinstance(n, ast.Call) and isinstance(n.func, ast.Attribute) and n.func.attr in _INPLACE:
                tgt = n.func.value
            if not (isinstance(tgt, ast.Attribute) and isinstance(tgt.value, ast.Name) and tgt.value.id in ctor_of):
                continue
            for cq, call in ctor_of[tgt.value.id]:
                if (b.qualname, cq, tgt.attr) in checked:
                    continue
                checked.add((b.qualname, cq, tgt.attr))
                _check_fresh(ctx, b, enclosing_stmt(n), cq, call, tgt.attr)
    if not checked:
        ctx.observe("C30.R6: no builder of the CWL translator fills a command / processor attribute in place after construction")


def _check_fresh(ctx, b, site, cq: str, call, attr: str):
    """The constructor of `cq` binds `self.<attr>` to a container no other instance holds."""
    p = ctx.prog
    own = p.resolve_method(cq, "__init__")
    init = store = None
    for m in p.mro(cq):
        c = p.classes.get(m)
        f = c.methods.get("__init__") if c is not None else None
        if f is not None:
            st = [(val, stmt) for a, val, stmt in _self_stores(f) if a == attr]
            if st:
                init, store = f, st
                break
    short = cq.split(".")[-1]
    if init is None:
        ctx.observe(f"C30.R6: no constructor of {cq} stores self.{attr} (filled in place by {b.qualname})")
        return
    passed = {k.arg for k in call.keywords if k.arg} | set([x for x in init.params if x not in ("self",)][: len(call.args)])
    star = any(k.arg is None for k in call.keywords) or any(isinstance(a, ast.Starred) for a in call.args)
    bad = []
    g = init.cfg
    for val, stmt in store:
        ids = g.ids_of(stmt)
        if not ids:
            continue
        for leaf, _, truthy_only in _value_alts(init, val, ids[0]):
            if leaf is None:
                continue
            if isinstance(leaf, ast.Name) and leaf.id in init.params:
                d = _param_defaults(init).get(leaf.id)
                explicit = init is own and (leaf.id in passed or star)
                if d is not None and not explicit and _mutable_display(d) and not (truthy_only and _empty_display(d)):
                    bad.append(f"the default object `{unparse(d)}` of parameter `{leaf.id}` (not passed by the builder)")
            elif isinstance(leaf, ast.Name):
                bad.append(f"the module-level object `{leaf.id}`")
            elif isinstance(leaf, ast.Attribute):
                bad.append(f"the shared object `{unparse(leaf)}`")
    ctx.ob("R6", f"{short}.{attr}, filled in place by {b.name}, is a per-instance container", not bad, func=init, node=store[0][1],
           instance=f"isolation:fresh:{short}.{attr}",
           message=f"{b.qualname} fills `{unparse(site)[:70]}` in place after constructing the {short}, but {init.qualname} can bind self.{attr} to "
           + "; ".join(bad) + f": every {short} built this way holds the same container, so what the builder stores for one tool "
           "(EnvVarRequirement entries, bindings) reaches the command line / environment of the others",
           witness=bad)


RULES = [("R1", r1), ("R2", r2), ("R3", r3), ("R4", r4), ("R5", r5), ("R6", r6)]
FLOORS = {"R1": 10, "R2": 18, "R3": 5, "R4": 4, "R5": 8, "R6": 6}

_ENV_COMP_TAIL = "for k, v in self.environment.items()}"
_ENV_COMP = ("{k: str(utils.eval_expression(expression=v, context=context, full_js=self.full_js, expression_lib=self.expression_lib)) "
             + _ENV_COMP_TAIL)
_ENV_DEFAULTS = ("    if 'HOME' not in parsed_env:\n        parsed_env['HOME'] = job.output_directory\n"
                 "    if 'TMPDIR' not in parsed_env:\n        parsed_env['TMPDIR'] = job.tmp_directory")
_KEY = "key=lambda t: [t.position, t.name] if t.name is not None else [t.position]"


def _ev(recv: str, attr: str) -> str:
    return f"utils.eval_expression(expression={recv}.{attr}, context=context, full_js={recv}.full_js, expression_lib={recv}.expression_lib)"


def _stream_stmts(recv: str, indent: str) -> str:
    """The three stream evaluations of CWLCommand.execute (normalised text), reading the fields of `recv`."""
    return (f"stdin = {_ev(recv, 'stdin')}\n{indent}stdout = {_ev(recv, 'stdout')} if {recv}.stdout is not None else STDOUT\n"
            f"{indent}stderr = {_ev(recv, 'stderr')} if {recv}.stderr is not None else stdout")


_STREAMS = _stream_stmts("self", "    ")
# extract-function shapes of the stream evaluation (benign refactoring B23-1 extracts a method; a method cannot be added
# by one substring replacement, so the variants use a module-level helper receiving the command and a local function)
_STREAMS_HELPER = "def _cwl_streams(cmd, context):\n    " + _stream_stmts("cmd", "    ") + "\n    return stdin, stdout, stderr\n"
_STREAMS_LOCAL = "def _streams():\n        " + _stream_stmts("self", "        ") + "\n        return (stdin, stdout, stderr)\n    stdin, stdout, stderr = _streams()"
_EVAL_HELPER = ("def _eval_stream(cmd, expression, context):\n"
                "    return utils.eval_expression(expression=expression, context=context, full_js=cmd.full_js, expression_lib=cmd.expression_lib)\n")
_STREAMS_EVAL = ("stdin = _eval_stream(self, self.stdin, context)\n    stdout = _eval_stream(self, self.stdout, context) if self.stdout is not None else STDOUT\n"
                 "    stderr = _eval_stream(self, self.stderr, context) if self.stderr is not None else stdout")
_MERGE_SORT = ("tokens: list[CommandToken] = sorted(filter(lambda t: t.position is not None, flatten_list([_merge_tokens(t) for t in token.value.values() if t is not None])), "
               + _KEY + ")")
_GLUE = "value = [self.prefix + _get_value_repr(value)]"
_SEP_JOIN = "item_separator.join([_get_value_repr(v) for v in value])"
_WORDS = "[_get_value_repr(val) for val in t.value]"
_ESC_STMT = "if not self.is_shell_command or self.shell_quote:\n                value = [_escape_value(v) for v in value]"


def _deeper(text: str, n: int = 4) -> str:
    """The same normalised text one nesting level deeper (function-level text -> class-level text)."""
    return text.replace("\n", "\n" + " " * n)


# the prefix-application chain of CWLCommandTokenProcessor.bind and the rest of the method (text relative to `def bind`)
_PREFIX_CHAIN = (
    "if isinstance(value, bool):\n"
    "                value = [self.prefix] if value else value\n"
    "            elif self.separate:\n"
    "                if isinstance(value, MutableSequence):\n"
    "                    value = [self.prefix] + list(value)\n"
    "                else:\n"
    "                    value = [self.prefix, value]\n"
    "            elif isinstance(value, MutableSequence):\n"
    "                value = [self.prefix, *value]\n"
    "            else:\n"
    "                " + _GLUE
)
_BIND_TAIL = (
    "\n        if value is not None and (not isinstance(value, bool)):\n"
    "            if not isinstance(value, MutableSequence):\n"
    "                value = [value]\n"
    "            " + _ESC_STMT + "\n"
    "            if isinstance(self.position, str) and (not self.position.isnumeric()):\n"
    "                position = utils.eval_expression(expression=self.position, context=options.context | cwl_utils.types.CWLParameterContext("
    "self=get_token_value(token) if token else None), full_js=options.full_js, expression_lib=options.expression_lib)\n"
    "                try:\n"
    "                    position = int(position) if position is not None else 0\n"
    "                except ValueError:\n"
    "                    pass\n"
    "            else:\n"
    "                position = int(self.position)\n"
    "            return CommandToken(name=self.name, position=position, value=value)\n"
    "    return None"
)


def _prefix_helper(recv: str, prefix: str, separate: str, last: str, indent: str) -> str:
    """Body of an extracted prefix helper: the chain of bind with every store turned into a return."""
    lines = [
        "if isinstance(value, bool):",
        f"    return [{prefix}] if value else value",
        f"elif {separate}:",
        "    if isinstance(value, MutableSequence):",
        f"        return [{prefix}] + list(value)",
        "    else:",
        f"        return [{prefix}, value]",
        "elif isinstance(value, MutableSequence):",
        f"    return [{prefix}, *value]",
        "else:",
        f"    return {last}",
    ]
    return "".join(f"{indent}{ln}\n" for ln in lines)


def _prefix_method(last: str) -> tuple[str, str]:
    """(old, new) on the class text: the chain becomes the private method `_add_prefix`, called at the same point."""
    old = _deeper(_PREFIX_CHAIN + _BIND_TAIL)
    new = _deeper("value = self._add_prefix(value)" + _BIND_TAIL) + "\n\n    def _add_prefix(self, value: Any) -> Any:\n" + _prefix_helper(
        "self", "self.prefix", "self.separate", last, " " * 8).rstrip("\n")
    return old, new


_GLUED = "[self.prefix + _get_value_repr(value)]"
_FN_BY_PREFIX = "def _add_prefix(prefix, separate, value):\n" + _prefix_helper("", "prefix", "separate", "[prefix + _get_value_repr(value)]", "    ")
_FN_BY_PROC = "def _add_prefix(proc, value):\n" + _prefix_helper("", "proc.prefix", "proc.separate", "[proc.prefix + _get_value_repr(value)]", "    ")

_TOKEN_RET = "return CommandToken(name=self.name, position=position, value=value)"
_CC_LINE = ("''.join('{workdir}{environment}{command}{stdin}{stdout}{stderr}').format(workdir=f'cd {shlex.quote(workdir)} && ' if workdir is not None else '', "
            "environment=''.join([f'export {key}={shlex.quote(str(value))} && ' for key, value in environment.items()]) if environment is not None else '', "
            "command=' '.join(command), stdin=stdin, stdout=stdout, stderr=stderr)")
_CC_TAIL = ("else:\n        stdout = ''\n    if stderr == asyncio.subprocess.PIPE:\n"
            "        raise WorkflowExecutionException(f'The `{class_name}` does not support `stderr` pipe redirection.')\n    ")
_B64 = "base64.b64encode(' '.join(cmd).encode('utf-8'))"
_ENV_PARAM = "environment: MutableMapping[str, str] | None=None"
_ENV_STORE = "self.environment: MutableMapping[str, str] = environment or {}"
# CWLCommand.__init__ from the `environment` parameter to the store of self.environment (seeded change C30b-1 edits both ends)
_ENV_CTOR = (_ENV_PARAM + ", expression_lib: MutableSequence[str] | None=None, failure_codes: Sequence[int] | None=None, full_js: bool=False, "
             "initial_work_dir: str | MutableSequence[Any] | None=None, inplace_update: bool=False, is_shell_command: bool=False, "
             "success_codes: Sequence[int] | None=None, step_stderr: str | None=None, step_stdin: str | None=None, step_stdout: str | None=None, "
             "time_limit: int | str | None=None):\n    super().__init__(step=step, processors=processors)\n"
             "    self.absolute_initial_workdir_allowed: bool = absolute_initial_workdir_allowed\n"
             "    self.base_command: MutableSequence[str] = base_command or []\n    " + _ENV_STORE)

VARIANTS = [
    # ---- breaking
    # R1e encoder / decoder agreement (seeded change C30b-2 and siblings)
    V("shell wrapper encoded with the URL-safe alphabet, decoded by `base64 -d` (seed b-2)", FILE, f"{CMD}.execute", _B64, "base64.urlsafe_b64encode(' '.join(cmd).encode())", "R1"),
    V("shell wrapper encoded with altchars=b'-_'", FILE, f"{CMD}.execute", _B64, "base64.b64encode(' '.join(cmd).encode('utf-8'), altchars=b'-_')", "R1"),
    V("shell wrapper: URL-safe payload hoisted into a local", FILE, f"{CMD}.execute", "if self.is_shell_command:\n        cmd = ['/bin/sh', '-c', '\"$(echo {command} | base64 -d)\"'.format(command=" + _B64 + ".decode('utf-8'))]",
      "if self.is_shell_command:\n        payload = base64.urlsafe_b64encode(' '.join(cmd).encode('utf-8')).decode('utf-8')\n"
      "        cmd = ['/bin/sh', '-c', '\"$(echo {command} | base64 -d)\"'.format(command=payload)]", "R1"),
    # R6 instance isolation (seeded change C30b-1 and siblings)
    V("ctor: environment defaults to a shared `{}` stored as is (seed b-1)", FILE, f"{CMD}.__init__", _ENV_CTOR,
      _ENV_CTOR.replace(_ENV_PARAM, "environment: MutableMapping[str, str]={}").replace(_ENV_STORE, "self.environment: MutableMapping[str, str] = environment"), "R6", control=True),
    V("ctor: non-empty mutable default survives `or`", FILE, f"{CMD}.__init__", _ENV_PARAM, "environment: MutableMapping[str, str]={'LANG': 'C'}", "R6"),
    V("ctor: mutable default stored through a temporary", FILE, f"{CMD}.__init__", _ENV_CTOR,
      _ENV_CTOR.replace(_ENV_PARAM, "environment: MutableMapping[str, str]=dict()").replace(_ENV_STORE, "env = environment\n    self.environment: MutableMapping[str, str] = env"), "R6"),
    V("ctor: mutable default kept when not None", FILE, f"{CMD}.__init__", _ENV_CTOR,
      _ENV_CTOR.replace(_ENV_PARAM, "environment: MutableMapping[str, str]={}").replace(_ENV_STORE, "self.environment: MutableMapping[str, str] = environment if environment is not None else {}"), "R6"),
    V("ctor: environment falls back to a module-level dict", FILE, f"{CMD}.__init__", _ENV_STORE, "self.environment: MutableMapping[str, str] = environment or _NO_ENV", "R6",
      append="_NO_ENV: dict = {}\n"),
    V("ctor: environment falls back to a class-level dict", FILE, f"{CMD}.__init__", _ENV_STORE, "self.environment: MutableMapping[str, str] = environment or CWLCommand.__dict__", "R6"),
    V("ctor: base_command keeps a mutable default", FILE, f"{CMD}.__init__", "base_command: MutableSequence[str] | None=None", "base_command: MutableSequence[str]=['true']", "R6"),
    # the generalised return recognisers still see through the temporary
    V("create_command: line built in a temporary without the stderr redirection", UFILE, CREATE, "return " + _CC_LINE,
      "_sf_ret = " + _CC_LINE.replace("stderr=stderr)", "stderr='')") + "\n    return _sf_ret", "R2"),
    V("create_command: line rendered into a temporary before stdout is formatted (default branch)", UFILE, CREATE, _CC_TAIL + "return " + _CC_LINE,
      "else:\n        pass\n    _sf_ret = " + _CC_LINE + "\n    stdout = ''\n" + _CC_TAIL.split("\n", 2)[2] + "return _sf_ret", "R2"),
    V("escape guard: and instead of or", FILE, f"{PROC}.bind", "if not self.is_shell_command or self.shell_quote:", "if not self.is_shell_command and self.shell_quote:", "R1", control=True),
    V("escape guard: shell_quote only", FILE, f"{PROC}.bind", "if not self.is_shell_command or self.shell_quote:", "if self.shell_quote:", "R1"),
    V("escape guard: negation dropped", FILE, f"{PROC}.bind", "if not self.is_shell_command or self.shell_quote:", "if self.is_shell_command or self.shell_quote:", "R1"),
    V("escape unconditional", FILE, f"{PROC}.bind", _ESC_STMT, "value = [_escape_value(v) for v in value]", "R1"),
    V("escape statement dropped", FILE, f"{PROC}.bind", _ESC_STMT, "pass", "R1"),
    V("escaped list stored in another variable", FILE, f"{PROC}.bind", "value = [_escape_value(v) for v in value]", "escaped = [_escape_value(v) for v in value]", "R1"),
    V("only the first word escaped", FILE, f"{PROC}.bind", "value = [_escape_value(v) for v in value]", "value = [_escape_value(value[0])] + value[1:]", "R1"),
    V("escape only words with blanks", FILE, f"{PROC}.bind", "value = [_escape_value(v) for v in value]", "value = [_escape_value(v) for v in value if ' ' in v]", "R1"),
    V("escape under an extra condition", FILE, f"{PROC}.bind", _ESC_STMT,
      "if not self.is_shell_command or self.shell_quote:\n                if self.prefix is None:\n                    value = [_escape_value(v) for v in value]", "R1"),
    V("_escape_value without shlex.quote", FILE, ESC, "return shlex.quote(_get_value_repr(value))", "return _get_value_repr(value)", "R1", control=True),
    V("_escape_value with double quotes", FILE, ESC, "return shlex.quote(_get_value_repr(value))", "return '\"' + _get_value_repr(value) + '\"'", "R1"),
    V("_escape_value quotes only when blank", FILE, ESC, "return shlex.quote(_get_value_repr(value))",
      "return shlex.quote(_get_value_repr(value)) if ' ' in str(value) else _get_value_repr(value)", "R1"),
    V("_get_value_repr strips", FILE, REPR, "return str(value)", "return str(value).strip()", "R1"),
    V("baseCommand joined with blanks", FILE, f"{CMD}._get_executable_command", "command.append(shlex.join(self.base_command))", "command.append(' '.join(self.base_command))", "R1"),
    V("baseCommand extended raw", FILE, f"{CMD}._get_executable_command", "command.append(shlex.join(self.base_command))", "command.extend(self.base_command)", "R1"),
    V("shell wrapper without base64", FILE, f"{CMD}.execute",
      "'\"$(echo {command} | base64 -d)\"'.format(command=base64.b64encode(' '.join(cmd).encode('utf-8')).decode('utf-8'))",
      "'\"{command}\"'.format(command=' '.join(cmd))", "R1"),
    V("shell wrapper applied to every command", FILE, f"{CMD}.execute", "if self.is_shell_command:\n        cmd = ['/bin/sh'", "if True:\n        cmd = ['/bin/sh'", "R1"),
    V("env: entries filtered", FILE, f"{CMD}.execute", "for k, v in self.environment.items()}", "for k, v in self.environment.items() if v}", "R2"),
    V("env: HOME always overwritten", FILE, f"{CMD}.execute", "if 'HOME' not in parsed_env:\n        parsed_env['HOME'] = job.output_directory", "parsed_env['HOME'] = job.output_directory", "R2", control=True),
    V("env: HOME and TMPDIR swapped", FILE, f"{CMD}.execute", "parsed_env['HOME'] = job.output_directory", "parsed_env['HOME'] = job.tmp_directory", "R2"),
    V("env: TMPDIR guard tests HOME", FILE, f"{CMD}.execute", "if 'TMPDIR' not in parsed_env:", "if 'HOME' not in parsed_env:", "R2"),
    V("env not passed (other dict)", FILE, f"{CMD}.execute", "environment=parsed_env, workdir", "environment=self.environment, workdir", "R2"),
    V("workdir = tmp directory", FILE, f"{CMD}.execute", "workdir=job.output_directory", "workdir=job.tmp_directory", "R2"),
    V("stdout/stderr swapped at the call", FILE, f"{CMD}.execute", "stdout=stdout, stderr=stderr, capture_output", "stdout=stderr, stderr=stdout, capture_output", "R2"),
    V("stdin evaluated from stdout field", FILE, f"{CMD}.execute", "stdin = utils.eval_expression(expression=self.stdin", "stdin = utils.eval_expression(expression=self.stdout", "R2"),
    V("create_command: stdout target unquoted", UFILE, CREATE, "stdout = f' > {shlex.quote(str(stdout))}'", "stdout = f' > {stdout}'", "R2", control=True),
    V("create_command: stdout left raw on the default branch", UFILE, CREATE, "else:\n        stdout = ''", "else:\n        pass", "R2"),
    V("create_command: stderr in double quotes", UFILE, CREATE, "stderr = f' 2>{shlex.quote(str(stderr))}'", "stderr = f' 2>\"{stderr}\"'", "R2"),
    V("create_command: environment ignored", UFILE, CREATE,
      "environment=''.join([f'export {key}={shlex.quote(str(value))} && ' for key, value in environment.items()]) if environment is not None else ''", "environment=''", "R2"),
    V("create_command: env value in double quotes (S2 revert)", UFILE, CREATE, "{key}={shlex.quote(str(value))}", "{key}=\"{value}\"", "R2"),
    V("create_command: workdir unquoted (S2 revert)", UFILE, CREATE, "cd {shlex.quote(workdir)} && ", "cd {workdir} && ", "R2"),
    V("local connector drops workdir", LFILE, f"{LOCAL}.run", "command, environment, workdir, stdin", "command, environment, None, stdin", "R2"),
    V("local connector swaps stdout/stderr", LFILE, f"{LOCAL}.run", "stdin, stdout, stderr)", "stdin, stderr, stdout)", "R2"),
    V("local connector: line not quoted for sh -c", LFILE, f"{LOCAL}.run", "else shlex.quote(command)]", "else command]", "R2"),
    V("translator: shellQuote defaults to false", TFILE, f"{TRANS}._get_command_token_processor", "shell_quote=binding.shellQuote if binding.shellQuote is not None else True",
      "shell_quote=binding.shellQuote if binding.shellQuote is not None else False", "R1"),
    V("translator: shellQuote inverted", TFILE, f"{TRANS}._get_command_token_processor", "shell_quote=binding.shellQuote if binding.shellQuote is not None else True",
      "shell_quote=not binding.shellQuote", "R1"),
    V("translator: requirement test negated", TFILE, f"{TRANS}._create_command", "is_shell_command = 'ShellCommandRequirement' in requirements", "is_shell_command = 'ShellCommandRequirement' not in requirements", "R1"),
    V("translator: arguments built without the flag", TFILE, f"{TRANS}._create_command", "_get_command_token_processor(binding=a, is_shell_command=is_shell_command)", "_get_command_token_processor(binding=a)", "R1"),
    V("translator: stdout and stderr swapped", TFILE, f"{TRANS}._create_command", "step_stdout=cwl_element.stdout, step_stderr=cwl_element.stderr", "step_stdout=cwl_element.stderr, step_stderr=cwl_element.stdout", "R2"),
    V("ctor: stderr initialised from stdout", FILE, f"{CMD}.__init__", "self.stderr: str | None = step_stderr", "self.stderr: str | None = step_stdout", "R2"),
    V("translator: env value keyed by value", TFILE, f"{TRANS}._create_command", "command.environment[env_entry.envName] = env_entry.envValue", "command.environment[env_entry.envValue] = env_entry.envName", "R2"),
    V("second raw leaf under composite bindings", FILE, f"{PROC}.bind", _ESC_STMT, "pass", "R3"),
    V("env: HOME/TMPDIR merged over the EnvVarRequirement entries (seed 1)", FILE, f"{CMD}.execute",
      _ENV_COMP_TAIL + "\n" + _ENV_DEFAULTS, _ENV_COMP_TAIL + " | {'HOME': job.output_directory, 'TMPDIR': job.tmp_directory}", "R2"),
    # R4 (seeded change C30/2 and siblings)
    V("record fields sorted by position only (seed 2)", FILE, MERGE, _KEY, "key=lambda t: t.position", "R4"),
    V("record fields: name tie-break dropped, list kept", FILE, MERGE, _KEY, "key=lambda t: [t.position]", "R4"),
    V("command line sorted by position only", FILE, EXE, _KEY, "key=lambda t: t.position", "R4"),
    V("command line sorted by name before position", FILE, EXE, _KEY, "key=lambda t: [t.name, t.position] if t.name is not None else [t.position]", "R4"),
    V("command line: None name compared", FILE, EXE, _KEY, "key=lambda t: [t.position, t.name]", "R4"),
    V("command line sorted descending", FILE, EXE, _KEY, _KEY + ", reverse=True", "R4"),
    V("record fields no longer sorted", FILE, MERGE, _MERGE_SORT,
      "tokens: list[CommandToken] = list(filter(lambda t: t.position is not None, flatten_list([_merge_tokens(t) for t in token.value.values() if t is not None])))", "R4"),
    V("record fields: tie-break only for unnamed tokens (guard inverted)", FILE, MERGE, _KEY, "key=lambda t: [t.position, t.name] if t.name is None else [t.position]", "R4"),
    V("sort key helper without the name", FILE, MERGE, _KEY, "key=_token_key", "R4", append="def _token_key(t):\n    return [t.position]\n"),
    # R5 (seeded change C30/3 and siblings)
    V("separate:false prefix glued with an f-string (seed 3)", FILE, f"{PROC}.bind", _GLUE, "value = [f'{self.prefix}{value}']", "R5"),
    V("separate:false prefix glued with str()", FILE, f"{PROC}.bind", _GLUE, "value = [self.prefix + str(value)]", "R5"),
    V("separate:false prefix glued with format", FILE, f"{PROC}.bind", _GLUE, "value = ['{}{}'.format(self.prefix, value)]", "R5"),
    V("separate:false str() through a temporary", FILE, f"{PROC}.bind", _GLUE, "text = str(value)\n                value = [self.prefix + text]", "R5"),
    V("separate:false raw concatenation", FILE, f"{PROC}.bind", _GLUE, "value = [self.prefix + value]", "R5"),
    V("separate:false ignored (two words)", FILE, f"{PROC}.bind", _GLUE, "value = [self.prefix, value]", "R5"),
    V("itemSeparator joins str() of the items", FILE, VFC, _SEP_JOIN, "item_separator.join([str(v) for v in value])", "R5"),
    V("itemSeparator joins map(str, items)", FILE, VFC, _SEP_JOIN, "item_separator.join(map(str, value))", "R5"),
    V("itemSeparator ignored", FILE, VFC, "return " + _SEP_JOIN, "return [_get_value_repr(v) for v in value]", "R5"),
    V("command words rendered with str()", FILE, EXE, _WORDS, "[str(val) for val in t.value]", "R5"),
    V("command words not rendered", FILE, EXE, _WORDS, "[val for val in t.value]", "R5"),
    # the prefix chain extracted into a helper (shape of benign/B11-2) that no longer renders like the reference runner
    V("prefix helper method glues with str()", FILE, PROC, *_prefix_method("[self.prefix + str(value)]"), "R5"),
    V("prefix helper method glues with an f-string", FILE, PROC, *_prefix_method("[f'{self.prefix}{value}']"), "R5"),
    V("prefix helper method ignores separate:false (two words)", FILE, PROC, *_prefix_method("[self.prefix, value]"), "R5"),
    V("prefix helper function ignores separate:false (two words)", FILE, f"{PROC}.bind", _PREFIX_CHAIN, "value = _add_prefix(self.prefix, self.separate, value)", "R5",
      append=_FN_BY_PREFIX.replace("[prefix + _get_value_repr(value)]", "[prefix, value]")),
    V("prefix helper function called, result discarded", FILE, f"{PROC}.bind", _PREFIX_CHAIN, "_add_prefix(self.prefix, self.separate, value)", "R5", append=_FN_BY_PREFIX),
    V("prefix helper function glues another processor attribute", FILE, f"{PROC}.bind", _PREFIX_CHAIN, "value = _add_prefix(self, value)", "R5",
      append=_FN_BY_PROC.replace("[proc.prefix + _get_value_repr(value)]", "[proc.name + _get_value_repr(value)]")),
    # ---- benign
    V("benign: bind returns the token through a temporary (tempret)", FILE, f"{PROC}.bind", _TOKEN_RET,
      "_sf_ret = CommandToken(name=self.name, position=position, value=value)\n            return _sf_ret", None),
    V("benign: bind returns the token through two temporaries", FILE, f"{PROC}.bind", _TOKEN_RET,
      "tok = CommandToken(name=self.name, position=position, value=value)\n            result = tok\n            return result", None),
    V("benign: create_command returns the line through a temporary (tempret)", UFILE, CREATE, "return " + _CC_LINE, "_sf_ret = " + _CC_LINE + "\n    return _sf_ret", None),
    V("benign: create_command: parameter names rebound after the line is rendered", UFILE, CREATE, "return " + _CC_LINE,
      "_sf_ret = " + _CC_LINE + "\n    stdin = stdout = stderr = None\n    return _sf_ret", None),
    V("benign: shell wrapper encoded with base64.standard_b64encode", FILE, f"{CMD}.execute", _B64, "base64.standard_b64encode(' '.join(cmd).encode('utf-8'))", None),
    V("benign: shell wrapper payload hoisted into a local", FILE, f"{CMD}.execute", "if self.is_shell_command:\n        cmd = ['/bin/sh', '-c', '\"$(echo {command} | base64 -d)\"'.format(command=" + _B64 + ".decode('utf-8'))]",
      "if self.is_shell_command:\n        payload = " + _B64 + ".decode('utf-8')\n        cmd = ['/bin/sh', '-c', '\"$(echo {command} | base64 -d)\"'.format(command=payload)]", None),
    V("benign: ctor normalises environment with a guard clause", FILE, f"{CMD}.__init__", _ENV_STORE,
      "if environment is None:\n        environment = {}\n    self.environment: MutableMapping[str, str] = environment", None),
    V("benign: ctor copies the environment", FILE, f"{CMD}.__init__", _ENV_STORE, "self.environment: MutableMapping[str, str] = dict(environment or {})", None),
    V("benign: ctor conditional expression", FILE, f"{CMD}.__init__", _ENV_STORE, "self.environment: MutableMapping[str, str] = {} if environment is None else environment", None),
    V("benign: empty mutable default replaced by `or` (never stored)", FILE, f"{CMD}.__init__", _ENV_PARAM, "environment: MutableMapping[str, str]={}", None),
    V("benign: env defaults merged under the EnvVarRequirement entries", FILE, f"{CMD}.execute",
      "parsed_env = " + _ENV_COMP + "\n" + _ENV_DEFAULTS, "parsed_env = {'HOME': job.output_directory, 'TMPDIR': job.tmp_directory} | " + _ENV_COMP, None),
    V("benign: sort key as tuples", FILE, MERGE, _KEY, "key=lambda t: (t.position, t.name) if t.name is not None else (t.position,)", None),
    V("benign: sort key parameter renamed", FILE, EXE, _KEY, "key=lambda tok: [tok.position, tok.name] if tok.name is not None else [tok.position]", None),
    V("benign: sort key conditional inverted", FILE, MERGE, _KEY, "key=lambda t: [t.position] if t.name is None else [t.position, t.name]", None),
    V("benign: sort key with explicit reverse=False", FILE, EXE, _KEY, _KEY + ", reverse=False", None),
    V("benign: sort key extracted into a helper", FILE, EXE, _KEY, "key=_token_key", None,
      append="def _token_key(t):\n    if t.name is None:\n        return [t.position]\n    return [t.position, t.name]\n"),
    V("benign: record fields sorted in place", FILE, MERGE, _MERGE_SORT,
      "tokens: list[CommandToken] = list(filter(lambda t: t.position is not None, flatten_list([_merge_tokens(t) for t in token.value.values() if t is not None])))\n"
      "            tokens.sort(" + _KEY + ")", None),
    V("benign: prefix glued with an f-string over the renderer", FILE, f"{PROC}.bind", _GLUE, "value = [f'{self.prefix}{_get_value_repr(value)}']", None),
    V("benign: rendered value through a temporary", FILE, f"{PROC}.bind", _GLUE, "text = _get_value_repr(value)\n                value = [self.prefix + text]", None),
    V("benign: prefix glued with ''.join", FILE, f"{PROC}.bind", _GLUE, "value = [''.join([self.prefix, _get_value_repr(value)])]", None),
    V("benign: prefix chain extracted into a private method (benign/B11-2)", FILE, PROC, *_prefix_method(_GLUED), None),
    V("benign: prefix chain extracted into a module function taking prefix and separate", FILE, f"{PROC}.bind", _PREFIX_CHAIN,
      "value = _add_prefix(self.prefix, self.separate, value)", None, append=_FN_BY_PREFIX),
    V("benign: prefix chain extracted into a module function taking the processor", FILE, f"{PROC}.bind", _PREFIX_CHAIN,
      "value = _add_prefix(self, value)", None, append=_FN_BY_PROC),
    V("benign: only the glue extracted, value rendered by the caller", FILE, f"{PROC}.bind", _GLUE,
      "value = [_glue(self.prefix, _get_value_repr(value))]", None, append="def _glue(prefix: str, text: str) -> str:\n    return prefix + text\n"),
    V("benign: value logged before gluing", FILE, f"{PROC}.bind", _GLUE, "logger.debug(f'binding {value} with prefix {self.prefix}')\n                " + _GLUE, None),
    V("benign: itemSeparator joins map(renderer)", FILE, VFC, _SEP_JOIN, "item_separator.join(map(_get_value_repr, value))", None),
    V("benign: itemSeparator joins a generator, variable renamed", FILE, VFC, _SEP_JOIN, "item_separator.join((_get_value_repr(item) for item in value))", None),
    V("benign: guard hoisted into a local", FILE, f"{PROC}.bind", "if not self.is_shell_command or self.shell_quote:",
      "must_escape = not self.is_shell_command or self.shell_quote\n            if must_escape:", None),
    V("benign: De Morgan form of the guard", FILE, f"{PROC}.bind", "if not self.is_shell_command or self.shell_quote:", "if not (self.is_shell_command and (not self.shell_quote)):", None),
    V("benign: rename comprehension variable", FILE, f"{PROC}.bind", "[_escape_value(v) for v in value]", "[_escape_value(word) for word in value]", None),
    V("benign: escape the list in one call", FILE, f"{PROC}.bind", "value = [_escape_value(v) for v in value]", "value = _escape_value(value)", None),
    V("benign: logging before escaping", FILE, f"{PROC}.bind", "if not self.is_shell_command or self.shell_quote:", "logger.debug('binding')\n            if not self.is_shell_command or self.shell_quote:", None),
    V("benign: _escape_value with a temporary", FILE, ESC, "return shlex.quote(_get_value_repr(value))", "text = _get_value_repr(value)\n        return shlex.quote(text)", None),
    V("benign: baseCommand quoted word by word", FILE, f"{CMD}._get_executable_command", "command.append(shlex.join(self.base_command))",
      "command.extend([shlex.quote(w) for w in self.base_command])", None),
    V("benign: forward processor escapes its words (S30 repair)", FILE, f"{FWD}.bind", "value=[value] if not isinstance(value, MutableSequence) else value",
      "value=_escape_value([value] if not isinstance(value, MutableSequence) else value)", None),
    V("benign: shellQuote default written with `is None`", TFILE, f"{TRANS}._get_command_token_processor", "shell_quote=binding.shellQuote if binding.shellQuote is not None else True",
      "shell_quote=True if binding.shellQuote is None else binding.shellQuote", None),
    V("benign: rename parsed_env", FILE, f"{CMD}.execute", "parsed_env", "env_vars", None, count=7),
    V("benign: TMPDIR default before HOME default", FILE, f"{CMD}.execute",
      "if 'HOME' not in parsed_env:\n        parsed_env['HOME'] = job.output_directory\n    if 'TMPDIR' not in parsed_env:\n        parsed_env['TMPDIR'] = job.tmp_directory",
      "if 'TMPDIR' not in parsed_env:\n        parsed_env['TMPDIR'] = job.tmp_directory\n    if 'HOME' not in parsed_env:\n        parsed_env['HOME'] = job.output_directory", None),
    # fx6: the guard of the HOME/TMPDIR defaults is a branch fact (`'K' in env` is false at the store), not a spelling
    V("benign: HOME guard spelled `not ('HOME' in env)` (battery notform)", FILE, f"{CMD}.execute", "if 'HOME' not in parsed_env:", "if not 'HOME' in parsed_env:", None),
    V("benign: TMPDIR guard spelled `not ('TMPDIR' in env)` (battery notform)", FILE, f"{CMD}.execute", "if 'TMPDIR' not in parsed_env:", "if not 'TMPDIR' in parsed_env:", None),
    V("benign: HOME default on the else branch of a positive test", FILE, f"{CMD}.execute", "if 'HOME' not in parsed_env:\n        parsed_env['HOME'] = job.output_directory",
      "if 'HOME' in parsed_env:\n        pass\n    else:\n        parsed_env['HOME'] = job.output_directory", None),
    V("benign: HOME default via setdefault", FILE, f"{CMD}.execute", "if 'HOME' not in parsed_env:\n        parsed_env['HOME'] = job.output_directory",
      "parsed_env.setdefault('HOME', job.output_directory)", None),
    V("env: HOME store on the branch where HOME is set (guard polarity inverted)", FILE, f"{CMD}.execute", "if 'HOME' not in parsed_env:", "if 'HOME' in parsed_env:", "R2"),
    V("env: TMPDIR stored when `not ('TMPDIR' not in env)`", FILE, f"{CMD}.execute", "if 'TMPDIR' not in parsed_env:", "if not 'TMPDIR' not in parsed_env:", "R2"),
    V("env: setdefault of HOME with the tmp directory", FILE, f"{CMD}.execute", "if 'HOME' not in parsed_env:\n        parsed_env['HOME'] = job.output_directory",
      "parsed_env.setdefault('HOME', job.tmp_directory)", "R2"),
    V("env: HOME guard weakened by a disjunct (`'HOME' not in env or True`)", FILE, f"{CMD}.execute", "if 'HOME' not in parsed_env:", "if 'HOME' not in parsed_env or self.environment:", "R2"),
    V("benign: workdir through a temporary", FILE, f"{CMD}.execute", "result, exit_code = await connector.run(locations[0], cmd, environment=parsed_env, workdir=job.output_directory",
      "outdir = job.output_directory\n    result, exit_code = await connector.run(locations[0], cmd, environment=parsed_env, workdir=outdir", None),
    V("benign: create_command keyword call in local connector", LFILE, f"{LOCAL}.run", "utils.create_command(self.__class__.__name__, command, environment, workdir, stdin, stdout, stderr)",
      "utils.create_command(class_name=self.__class__.__name__, command=command, environment=environment, workdir=workdir, stdin=stdin, stdout=stdout, stderr=stderr)", None),
    V("benign: rename loop variables in create_command", UFILE, CREATE, "[f'export {key}={shlex.quote(str(value))} && ' for key, value in environment.items()]",
      "[f'export {name}={shlex.quote(str(val))} && ' for name, val in environment.items()]", None),
    V("benign: create_command quotes the value into a local first", UFILE, CREATE, "return ''.join('{workdir}",
      "qdir = shlex.quote(workdir) if workdir is not None else ''\n    return ''.join('{workdir}", None),
    # streams evaluated in an extracted helper (B23-1: `stdin, stdout, stderr = self._get_streams(context)`)
    V("benign: streams evaluated in a module-level helper receiving the command", FILE, f"{CMD}.execute", _STREAMS, "stdin, stdout, stderr = _cwl_streams(self, context)", None,
      append=_STREAMS_HELPER),
    V("benign: streams evaluated in a local function", FILE, f"{CMD}.execute", _STREAMS, _STREAMS_LOCAL, None),
    V("benign: stream helper result held in a temporary and subscripted", FILE, f"{CMD}.execute", _STREAMS,
      "streams = _cwl_streams(self, context)\n    stdin = streams[0]\n    stdout = streams[1]\n    stderr = streams[2]", None, append=_STREAMS_HELPER),
    V("benign: stream helper returns through a temporary", FILE, f"{CMD}.execute", _STREAMS, "stdin, stdout, stderr = _cwl_streams(self, context)", None,
      append=_STREAMS_HELPER.replace("return stdin, stdout, stderr", "res = (stdin, stdout, stderr)\n    return res")),
    V("benign: one private evaluator called once per stream", FILE, f"{CMD}.execute", _STREAMS, _STREAMS_EVAL, None, append=_EVAL_HELPER),
    V("stream helper returns stdout in the stdin position", FILE, f"{CMD}.execute", _STREAMS, "stdin, stdout, stderr = _cwl_streams(self, context)", "R2",
      append=_STREAMS_HELPER.replace("return stdin, stdout, stderr", "return stdout, stdin, stderr")),
    V("stream helper result unpacked in the wrong order", FILE, f"{CMD}.execute", _STREAMS, "stdout, stdin, stderr = _cwl_streams(self, context)", "R2", append=_STREAMS_HELPER),
    V("stream helper evaluates stdin from the stdout field", FILE, f"{CMD}.execute", _STREAMS, "stdin, stdout, stderr = _cwl_streams(self, context)", "R2",
      append=_STREAMS_HELPER.replace("stdin = utils.eval_expression(expression=cmd.stdin", "stdin = utils.eval_expression(expression=cmd.stdout")),
    V("stream evaluator ignores the expression it is given", FILE, f"{CMD}.execute", _STREAMS, _STREAMS_EVAL, "R2",
      append=_EVAL_HELPER.replace("expression=expression", "expression=cmd.stdout")),
    V("stream helper reads the fields of another object", FILE, f"{CMD}.execute", _STREAMS, "stdin, stdout, stderr = _cwl_streams(job, context)", "R2", append=_STREAMS_HELPER),
]
