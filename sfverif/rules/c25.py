"""C25 Commands run exactly once with verbatim arguments, environment and output.

R1 environment / workdir rendering: in the three renderers (core.utils.create_command,
   deployment.shell._build_shell_command, CommandTemplateMap.get_command) every environment value and the working
   directory reaches the command line through shlex.quote; in the persistent-shell renderer the `cd` / `export`
   words live only inside the quoted `sh -c` subshell (the shell's own state is never changed); every `run`
   implementation hands environment/workdir to one of these renderers (who-may-render).
R2 shell typestate: in BaseShell.execute every exceptional exit after the command was written to the shell passes
   through `self.close()` (the pipe still carries the old command's output and end marker); a closed shell refuses
   commands; commands are serialised by the shell's lock.
R3 exactly once: in every `run` that uses the idiom "persistent shell under suppress(WorkflowExecutionException), then
   direct execution", the direct-execution fallback must be unreachable once the command was submitted to the shell.
R4 framing: the end marker is echoed on its own line after the command, the marker is fresh per command; both readers
   search the whole accumulated output for `<marker>:` followed by a newline, fail on EOF, reset the decoder; the
   return code is parsed from between marker and newline; output is what precedes the marker.
R5 direct execution: run_in_subprocess drains the pipes with communicate() when it captures output (no wait()-then-read
   deadlock on large outputs), returns the decoded stdout and the process return code.
"""

from __future__ import annotations

import ast

from ..cfg import ALL, NORMAL
from ..dataflow import defs_of, fragments, origins
from ..model import ancestors, dotted, unparse
from ..roles import is_call, kwarg_name, tuple_vars_from, vars_from
from ..selftest import V
from ..shell import check_quoting

UT = "streamflow.core.utils"
SH = "streamflow.deployment.shell"
TPL = "streamflow.deployment.template.CommandTemplateMap"
UFILE = "streamflow/core/utils.py"
SFILE = "streamflow/deployment/shell.py"
TFILE = "streamflow/deployment/template.py"
BFILE = "streamflow/deployment/connector/base.py"

META = {
    "explanation": (
        "P9 quoting analysis of the three command renderers (environment values, working directory), who-may-render "
        "table over every Connector.run, CFG must-pass-through of close() on the exception exits of BaseShell.execute "
        "after the write, reachability of the direct-execution fallback from the shell submission, shape of the "
        "marker framing in writer and both readers, communicate() discipline of run_in_subprocess. Necessary conditions "
        "of 'exactly once, verbatim'; byte-exact output equality and timing are not decided."
    ),
    "undecided": "byte-exact equality of captured output (both paths strip() it), exit codes of real processes, timing",
    "assumptions": ["POSIX sh; shlex.quote is a correct quoter", "connector.run joins list commands with blanks"],
}


def _in_test_position(n) -> bool:
    """`n` is only tested (truthiness / comparison) in an if/while/conditional-expression test."""
    cur = n
    par = getattr(cur, "_parent", None)
    while isinstance(par, (ast.BoolOp, ast.UnaryOp, ast.Compare)):
        cur, par = par, getattr(par, "_parent", None)
    return isinstance(par, (ast.If, ast.While, ast.IfExp)) and par.test is cur


def _env_pair(f):
    """(key, value) loop variable names of the iteration over environment.items()"""
    for names in tuple_vars_from(f, lambda e: is_call(e, "items") and "environment" in unparse(e.func.value)):
        if len(names) == 2 and all(names):
            return names[0], names[1]
    return "key", "value"


def _ret_exprs(f):
    return [n.value for n in f.body_nodes() if isinstance(n, ast.Return) and n.value is not None]


def _through_temp(f, e, depth=3):
    """The expression a returned local stands for when it has exactly one reaching definition (`x = <expr>; return x`)."""
    from ..dataflow import reaching_defs

    while depth and isinstance(e, ast.Name):
        ds = reaching_defs(f, e.id, e) if getattr(e, "_parent", None) is not None else []
        if len(ds) == 1 and ds[0].kind == "assign" and ds[0].index is None and ds[0].value is not None:
            e, depth = ds[0].value, depth - 1
        else:
            break
    return e


def r1(ctx):
    p = ctx.prog
    # create_command: sources = env values, workdir; payload = command words, env keys (identifiers)
    f = p.func(f"{UT}.create_command")
    rets = _ret_exprs(f)
    ctx.require(len(rets) == 1, "C25.R1: create_command has not exactly one return")
    key, value = _env_pair(f)
    frs = check_quoting(ctx, "R1", f, rets[0], rets[0], trusted={"command", key, "class_name"}, what="create_command")
    dyn = {x.text for x in frs if x.kind == "dyn"}
    quoted = " ".join(x.text for x in frs if x.kind == "quoted")
    ctx.ob("R1", "create_command renders the environment values", value in quoted or value in dyn, func=f, node=rets[0],
           instance="create_command:env-present", message="create_command no longer renders the environment")
    ctx.ob("R1", "create_command renders the working directory", "workdir" in quoted or "workdir" in dyn, func=f, node=rets[0],
           instance="create_command:workdir-present", message="create_command no longer renders the working directory")
    consts = "".join(ast.literal_eval(x.text) for x in frs if x.kind == "const" and isinstance(ast.literal_eval(x.text), str))
    ctx.ob("R1", "create_command: `cd` and `export` are chained with && before the command", "cd " in consts and "export " in consts and consts.count("&& ") >= 2,
           func=f, node=rets[0], instance="create_command:chain")
    # _build_shell_command
    f = p.func(f"{SH}._build_shell_command")
    rets = _ret_exprs(f)
    ctx.require(len(rets) == 1, "C25.R1: _build_shell_command has not exactly one return")
    key, value = _env_pair(f)
    frs = check_quoting(ctx, "R1", f, rets[0], rets[0], trusted={"command", "end_marker", "random_name()", key}, what="_build_shell_command")
    # inner subshell parts are quoted values too
    inner_ok = True
    for n in f.body_nodes():
        if isinstance(n, ast.Call) and isinstance(n.func, ast.Attribute) and n.func.attr == "append" and isinstance(n.func.value, ast.Name):
            for fr in fragments(p, f, n.args[0]):
                if fr.kind == "dyn" and fr.text not in ("command", key):
                    inner_ok = False
                    ctx.ob("R1", f"subshell part {fr.text} quoted", False, func=f, node=n, instance=f"_build_shell_command:inner|{fr.text}",
                           message=f"`{fr.text}` is spliced into the subshell command without shlex.quote")
    ctx.ob("R1", "_build_shell_command quotes every value inside the subshell", inner_ok, func=f, node=f.node, instance="_build_shell_command:inner",
           trivial=True)
    top_consts = [ast.literal_eval(x.text) for x in frs if x.kind == "const"]
    leak = [c for c in top_consts if isinstance(c, str) and ("cd " in c or "export " in c)]
    ctx.ob("R1", "`cd`/`export` never reach the persistent shell outside the quoted `sh -c` subshell", not leak, func=f, node=rets[0],
           instance="_build_shell_command:state-leak",
           message="working directory / environment are set in the persistent shell itself: they leak into every later command")
    has_sub = any(isinstance(c, str) and "sh -c " in c for c in top_consts)
    ctx.ob("R1", "environment/workdir are applied in a `sh -c` subshell", has_sub, func=f, node=rets[0], instance="_build_shell_command:subshell")
    # both environment and workdir actually rendered inside
    src = unparse(f.node)
    # ... also when the assembly of the subshell script was extracted into a module-level helper (one level)
    for c in f.calls():
        if isinstance(c.func, ast.Name):
            for q in p.resolve_call(f, c, fanout=False):
                h = p.functions.get(q)
                if h is not None and h.cls is None and h.file == f.file and h is not f and any(isinstance(a, ast.Name) and a.id in ("workdir", "environment") for a in list(c.args) + [k.value for k in c.keywords]):
                    src += "\n" + unparse(h.node)
    ctx.ob("R1", "_build_shell_command renders workdir and every environment item",
           "shlex.quote(workdir)" in src and "environment.items()" in src, func=f, node=f.node, instance="_build_shell_command:present")
    # template renderer
    f = p.func(f"{TPL}.get_command")
    rets = _ret_exprs(f)
    ctx.require(len(rets) == 1, "C25.R1: get_command has not exactly one return")
    call = _through_temp(f, rets[0])
    ctx.require(isinstance(call, ast.Call), "C25.R1: get_command does not return a render() call")
    for k in call.keywords:
        if k.arg == "streamflow_environment":
            check_quoting(ctx, "R1", f, k.value, k.value, trusted={_env_pair(f)[0]}, what="get_command:environment")
    # who-may-render: every concrete Connector.run passes environment only to known renderers / delegates
    ok_sinks = {"create_command", "run_in_shell", "run", "_get_command", "get_command", "_run_batch_command", "execute", "_get_run_command",
                "_get_ssh_client_process"}  # the last one passes it as process environment (asyncssh env=), not through a shell
    base = "streamflow.core.deployment.Connector"
    def uses_ok(f, pname, depth=2):
        """(bad uses, number of uses) of parameter `pname` of f: every load must be handed to a known renderer, be a
        mere test, or be forwarded to a private helper of the class whose own uses are acceptable."""
        bad, uses = [], 0
        for n in f.body_nodes():
            if isinstance(n, ast.Name) and n.id == pname and isinstance(n.ctx, ast.Load):
                uses += 1
                par = getattr(n, "_parent", None)
                kwname = None
                if isinstance(par, ast.keyword):
                    kwname, par = par.arg, getattr(par, "_parent", None)
                if isinstance(par, ast.Call):
                    fn = par.func
                    nm = fn.attr if isinstance(fn, ast.Attribute) else (fn.id if isinstance(fn, ast.Name) else "?")
                    if nm in ok_sinks:
                        continue
                    if depth and isinstance(fn, ast.Attribute) and isinstance(fn.value, ast.Name) and fn.value.id == "self" and nm.startswith("_"):
                        hs = [p.functions.get(q) for q in p.resolve_call(f, par, fanout=False)]
                        hs = [h for h in hs if h is not None and h.cls is not None]
                        if hs:
                            ok_all = True
                            for h in hs:
                                a = h.node.args
                                pos = [x.arg for x in a.posonlyargs + a.args]
                                hp = kwname or (pos[par.args.index(n) + 1] if n in par.args and par.args.index(n) + 1 < len(pos) else None)
                                if hp is None:
                                    ok_all = False
                                    break
                                hb, hu = uses_ok(h, hp, depth - 1)
                                if hb or not hu:
                                    ok_all = False
                            if ok_all:
                                continue
                if _in_test_position(n):
                    continue
                bad.append(unparse(par)[:80] if par is not None else "?")
        return bad, uses

    for f in p.concrete_impls(base, "run"):
        if "environment" not in f.params:
            continue
        bad, uses = uses_ok(f, "environment")
        ctx.ob("R1", f"{f.qualname.rsplit('.', 2)[-2]}.run hands the environment to a shared renderer", not bad and uses > 0, func=f, node=f.node,
               instance=f"who-renders:{f.qualname}", message=f"{f.qualname} renders the environment itself: {bad}")


def r2(ctx):
    p = ctx.prog
    f = p.func(f"{SH}.BaseShell.execute")
    g = f.cfg
    # the send and the reads may sit in execute itself or in a private helper method it awaits (inlining bound 2)
    is_write = lambda c: isinstance(c.func, ast.Attribute) and c.func.attr == "write" and "_writer" in unparse(c.func.value)  # noqa: E731
    is_read = lambda c: isinstance(c.func, ast.Attribute) and c.func.attr in ("_read_with_output", "_read_without_output")  # noqa: E731

    def helper_of(c, depth=2):
        """Method of the shell class called as self.<m>(...) whose body (transitively) writes or reads."""
        if depth == 0 or not (isinstance(c.func, ast.Attribute) and isinstance(c.func.value, ast.Name) and c.func.value.id == "self"):
            return None
        if is_read(c):
            return None
        for q in p.resolve_call(f, c, fanout=False):
            h = p.functions.get(q)
            if h is not None and h.cls is not None and h is not f and h.name.startswith("_"):
                if any(is_write(x) or is_read(x) or helper_of(x, depth - 1) for x in h.calls()):
                    return h
        return None

    def deep(h, pred, depth=2):
        out = [(h, x) for x in h.calls() if pred(x)]
        if depth:
            for x in h.calls():
                hh = helper_of(x, 1)
                if hh is not None:
                    out += deep(hh, pred, depth - 1)
        return out

    writes = [n for n in g.nodes.values() if any(is_write(c) or ((h := helper_of(c)) is not None and deep(h, is_write)) for c in n.calls())]
    ctx.ob("R2", "execute sends the command to the shell exactly once", len(writes) == 1, func=f, node=f.node, instance="execute:one-write",
           message=f"execute writes the command {len(writes)} times (directly or through helpers)")
    if len(writes) != 1:
        return
    w = writes[0]
    closes = [n.id for n in g.nodes.values() if any(isinstance(c.func, ast.Attribute) and c.func.attr == "close" and unparse(c.func.value) == "self" for c in n.calls())]
    awaiting = lambda n: n.has_await() or n.kind == "raise_stmt"  # noqa: E731
    # every exceptional exit after the write passes close()
    after = [n for n in g.nodes.values() if (n.id == w.id or n.id in g.reach([w.id])) and n.has_await() and n.id not in closes]
    for n in after:
        bad = None
        for b, k in g.succ[n.id]:
            if k != "exc":
                continue
            if b == g.raise_:
                bad = [n.id, b]
                break
            pth = g.path(b, [g.raise_], avoid=closes, kinds=ALL, exc_from=awaiting) if b not in closes else None
            if pth is not None:
                bad = [n.id] + pth
                break
        ctx.ob("R2", f"a failure of `{n.text(60)}` after the command was sent closes the shell", bad is None, func=f, node=n.ast,
               instance=f"execute:close-on-failure:{n.text(60)}",
               message="the shell stays open with the unfinished command's output and end marker in the pipe: the next command reads stale output",
               witness=g.describe(bad) if bad else [])
    # (reads, node of execute that performs them directly or through a helper, helper or None)
    read_sites = []
    for n in g.nodes.values():
        for c in n.calls():
            if is_read(c):
                read_sites.append((f, c, n, None))
            elif (h := helper_of(c)) is not None:
                read_sites += [(hf, x, n, c) for hf, x in deep(h, is_read)]
    ctx.require(len(after) >= 1 and len(read_sites) >= 2, "C25.R2: reads after the write not found")
    # closed shell refuses commands, before the write
    tests = [n for n in g.nodes.values() if n.kind == "test" and unparse(n.ast) in ("self._closed", "self._closed is True")]
    ok = bool(tests) and g.dominates([t.id for t in tests], w.id) and all(
        any(g.nodes[b].kind == "raise_stmt" for b in g.real_succ(t.id, "t")) for t in tests)
    ctx.ob("R2", "a closed shell refuses commands", ok, func=f, node=f.node, instance="execute:closed-test")
    # serialised by the lock
    locked = any(isinstance(a, ast.AsyncWith) and any(unparse(i.context_expr) == "self._lock" for i in a.items) for c in w.calls() for a in ancestors(c))
    ctx.ob("R2", "commands on one shell are serialised by its lock (write + read in one critical section)", locked, func=f, node=w.ast, instance="execute:lock")
    okr = len(read_sites) == 2 and all(
        any(isinstance(a, ast.AsyncWith) and any(unparse(i.context_expr) == "self._lock" for i in a.items) for a in ancestors(site if site is not None else c))
        and (n.id == w.id or n.id in g.reach([w.id]))
        for _hf, c, n, site in read_sites)
    ctx.ob("R2", "the output is read inside the same critical section", okr, func=f, node=f.node, instance="execute:read-locked")
    # the marker passed to the readers is the one written
    from ..dataflow import _param_args

    mname = kwarg_name(f, "_build_shell_command", "end_marker")
    mk = []
    for hf, c, _n, site in read_sites:
        if not c.args:
            mk.append(None)
        elif hf is f:
            mk.append(unparse(c.args[0]))
        else:
            a0 = c.args[0]
            bound = _param_args(p, hf, a0.id) if isinstance(a0, ast.Name) and a0.id in hf.params else None
            vals = {unparse(e) for gf, e in (bound or []) if gf is f}
            mk.append(vals.pop() if len(vals) == 1 and bound and all(gf is f for gf, _e in bound) else None)
    ctx.ob("R2", "readers wait for the marker of this command", len(mk) == 2 and mname is not None and set(mk) == {mname}, func=f, node=f.node, instance="execute:marker-arg")
    # BaseShell.close idempotent and marks closed
    c = p.func(f"{SH}.BaseShell.close")
    src = unparse(c.node)
    ctx.ob("R2", "close() runs _close() once and then reports closed", "await self._close()" in src and "self._closed = True" in src and "self._closing.set()" in src,
           func=c, node=c.node, instance="close:shape")


RUNS = [
    "streamflow.deployment.connector.base.BaseConnector.run",
    "streamflow.deployment.connector.container.ContainerConnector.run",
    "streamflow.deployment.connector.ssh.SSHConnector.run",
    "streamflow.deployment.connector.kubernetes.KubernetesBaseConnector.run",
]


def r3(ctx):
    p = ctx.prog
    # all run() implementations that use run_in_shell
    impls = [f for f in p.all_funcs() if f.name == "run" and any(
        (isinstance(c.func, ast.Attribute) and c.func.attr == "run_in_shell") or (isinstance(c.func, ast.Name) and c.func.id == "run_in_shell") for c in f.calls())]
    ctx.require(len(impls) >= 4, f"C25.R3: expected >=4 run() implementations using the persistent shell, found {len(impls)}")
    for f in impls:
        g = f.cfg
        sub = [n for n in g.nodes.values() if any((isinstance(c.func, ast.Attribute) and c.func.attr == "run_in_shell") or (isinstance(c.func, ast.Name) and c.func.id == "run_in_shell") for c in n.calls())]
        direct = [n for n in g.nodes.values() if any(
            (isinstance(c.func, ast.Attribute) and c.func.attr in ("run_in_subprocess", "create_command", "_get_command")) for c in n.calls())]
        ctx.require(bool(sub) and bool(direct), f"C25.R3: submission / direct execution not found in {f.qualname}")
        for s in sub:
            pth = g.path(s.id, [d.id for d in direct], kinds=ALL, exc_from=lambda n: n.has_await())
            ctx.ob("R3", f"{f.qualname.rsplit('.', 2)[-2]}.run: no direct re-execution after the command was submitted to the shell", pth is None,
                   func=f, node=s.ast, instance="run:fallback-after-submission",
                   message="a failure of the persistent shell *after* the command was submitted (e.g. a timeout) falls back to direct execution: the command runs twice",
                   witness=g.describe(pth) if pth else [])
        # the result of the shell path is returned (not dropped)
        for s in sub:
            ctx.ob("R3", "the shell result is returned to the caller", s.kind == "return", func=f, node=s.ast, instance="run:shell-result-returned",
                   message="the persistent-shell result is dropped and the command is executed again directly")
        # guard: shell path only without stdin/job (those need redirections the shell path does not render)
        for s in sub:
            conds = [a.test for c in s.calls() for a in ancestors(c) if isinstance(a, ast.If)]
            txt = " ".join(unparse(c) for c in conds)
            ctx.ob("R3", "the persistent shell is used only when no stdin redirection is requested", "stdin is None" in txt, func=f, node=s.ast,
                   instance="run:stdin-guard", message="commands with a stdin redirection are sent to the persistent shell, which does not render it")
    # run_in_shell re-raises
    f = p.func(f"{UT}.run_in_shell")
    hs = [n for n in f.body_nodes() if isinstance(n, ast.ExceptHandler)]
    ok = bool(hs) and all(any(isinstance(x, ast.Raise) for x in h.body) for h in hs)
    ctx.ob("R3", "run_in_shell reports a shell failure to its caller", ok, func=f, node=f.node, instance="run_in_shell:reraise")
    calls = [c for c in f.calls() if isinstance(c.func, ast.Attribute) and c.func.attr == "execute"]
    ctx.ob("R3", "run_in_shell submits the command exactly once", len(calls) == 1, func=f, node=f.node, instance="run_in_shell:once")
    if calls:
        kw = {k.arg: unparse(k.value) for k in calls[0].keywords}
        ok = all(kw.get(a) == a for a in ("command", "environment", "workdir", "capture_output", "timeout"))
        ctx.ob("R3", "run_in_shell forwards command, environment, workdir, capture_output, timeout unchanged", ok, func=f, node=calls[0], instance="run_in_shell:forward")


def _reader_roles(f):
    dec = vars_from(f, lambda e: is_call(e, "decode"))
    out = None
    for n in f.body_nodes():
        if isinstance(n, ast.AugAssign) and isinstance(n.op, ast.Add) and isinstance(n.target, ast.Name):
            v = n.value
            if is_call(v, "decode") or (isinstance(v, ast.Name) and v.id in dec):
                out = n.target.id
    chunk = vars_from(f, lambda e: "_reader.read" in unparse(e))
    return out, (chunk[0] if chunk else None)


def _reader_facts(ctx, f):
    OUT, CH = _reader_roles(f)
    ctx.ob("R4", f"{f.name}: decoded chunks are accumulated", OUT is not None, func=f, node=f.node, instance=f"{f.name}:accumulate")
    if OUT is None:
        return {}
    finds = [c for c in f.calls() if isinstance(c.func, ast.Attribute) and c.func.attr == "find" and unparse(c.func.value) == OUT]
    marker = [c for c in finds if c.args and isinstance(c.args[0], ast.JoinedStr) and "end_marker" in unparse(c.args[0])]
    nl = [c for c in finds if c.args and isinstance(c.args[0], ast.Constant) and c.args[0].value == "\n"]
    ok_marker = len(marker) == 1 and len(marker[0].args) == 1 and not marker[0].keywords and unparse(marker[0].args[0]) == "f'{end_marker}:'"
    ctx.ob("R4", f"{f.name}: the marker `<marker>:` is searched in the whole accumulated output", ok_marker, func=f, node=marker[0] if marker else f.node,
           instance=f"{f.name}:marker-search", message="the end-marker search is restricted (start offset) or altered: a marker split across two reads is never found")
    MP = None
    if marker:
        par = getattr(marker[0], "_parent", None)
        if isinstance(par, ast.NamedExpr):
            MP = par.target.id
        elif isinstance(par, ast.Assign) and isinstance(par.targets[0], ast.Name):
            MP = par.targets[0].id
    ok_nl = len(nl) == 1 and len(nl[0].args) == 2 and MP is not None and unparse(nl[0].args[1]) == MP
    ctx.ob("R4", f"{f.name}: a newline is required after the marker", ok_nl, func=f, node=nl[0] if nl else f.node, instance=f"{f.name}:newline")
    NP = None
    if nl:
        par = getattr(nl[0], "_parent", None)
        if isinstance(par, ast.NamedExpr):
            NP = par.target.id
        elif isinstance(par, ast.Assign) and isinstance(par.targets[0], ast.Name):
            NP = par.targets[0].id
    # EOF raises
    eof = [n for n in f.body_nodes() if isinstance(n, ast.If) and CH is not None and unparse(n.test) in (f"not {CH}", f"len({CH}) == 0", f"{CH} == b''")
           and any(isinstance(x, ast.Raise) for b in n.body for x in ast.walk(b))]
    ctx.ob("R4", f"{f.name}: EOF of the shell raises", len(eof) == 1, func=f, node=f.node, instance=f"{f.name}:eof")
    # decoder reset before return
    g = f.cfg
    resets = [n.id for n in g.nodes.values() if any(isinstance(c.func, ast.Attribute) and c.func.attr == "reset" and "_decoder" in unparse(c.func.value) for c in n.calls())]
    rets = [n for n in g.nodes.values() if n.kind == "return"]
    ok = bool(rets) and bool(resets) and all(g.dominates(resets, r.id) for r in rets)
    ctx.ob("R4", f"{f.name}: the decoder is reset before returning", ok, func=f, node=f.node, instance=f"{f.name}:decoder-reset")
    rd = [c for c in f.calls() if isinstance(c.func, ast.Attribute) and c.func.attr == "read" and "_reader" in unparse(c.func.value)]
    ctx.ob("R4", f"{f.name}: reads from the shell's reader in a loop", len(rd) == 1 and any(isinstance(a, ast.While) for a in ancestors(rd[0])), func=f, node=f.node,
           instance=f"{f.name}:read-loop")
    return {"OUT": OUT, "MP": MP, "NP": NP}


def r4(ctx):
    p = ctx.prog
    f = p.func(f"{SH}._build_shell_command")
    ret = _through_temp(f, _ret_exprs(f)[0])
    ok = False
    if isinstance(ret, ast.JoinedStr):
        parts = []
        for v in ret.values:
            parts.append(v.value if isinstance(v, ast.Constant) else "{" + unparse(v.value) + "}")
        s = "".join(parts)
        first = ret.values[0]
        CMD = first.value.id if isinstance(first, ast.FormattedValue) and isinstance(first.value, ast.Name) else "cmd"
        ok = s == '{' + CMD + '}\necho "{end_marker}:$?"\n'
        shape = s
    else:
        shape = unparse(ret)
    ctx.ob("R4", "the marker echo follows the command on its own line and carries `$?`", ok, func=f, node=ret, instance="framing:writer",
           message=f"command framing changed: {shape!r}")
    # stderr merged into stdout in both branches
    CMD = ret.values[0].value.id if isinstance(ret, ast.JoinedStr) and isinstance(ret.values[0], ast.FormattedValue) and isinstance(ret.values[0].value, ast.Name) else "cmd"
    cmds = [d.value for d in defs_of(f, CMD) if d.kind == "assign"]
    ok2 = len(cmds) == 2 and all(isinstance(c, ast.JoinedStr) and unparse(c).rstrip("'\"").endswith(" 2>&1") for c in cmds)
    ctx.ob("R4", "stderr is merged into the captured output on both branches", ok2, func=f, node=f.node, instance="framing:stderr")
    # marker fresh per command
    e = p.func(f"{SH}.BaseShell.execute")
    mk = [d.value for d in defs_of(e, kwarg_name(e, "_build_shell_command", "end_marker") or "end_marker") if d.kind == "assign"]
    okm = len(mk) == 1 and "random_name()" in unparse(mk[0])
    ctx.ob("R4", "the end marker is fresh for every command", okm, func=e, node=e.node, instance="framing:fresh-marker")
    roles = {}
    for name in ("_read_with_output", "_read_without_output"):
        roles[name] = _reader_facts(ctx, p.func(f"{SH}.BaseShell.{name}"))
    f = p.func(f"{SH}.BaseShell._read_with_output")
    r = roles["_read_with_output"]
    OUT, MP, NP = r.get("OUT"), r.get("MP"), r.get("NP")
    subs = [n for n in f.body_nodes() if isinstance(n, ast.Subscript) and isinstance(n.slice, ast.Slice) and unparse(n.value) == OUT]
    okrc = any(unparse(n) == f"{OUT}[{MP} + len(end_marker) + 1:{NP}]" for n in subs)
    ctx.ob("R4", "the return code is the text between `<marker>:` and the newline", okrc, func=f, node=f.node, instance="framing:returncode-slice")
    okfo = any(unparse(n) == f"{OUT}[:{MP}]" for n in subs)
    ctx.ob("R4", "the captured output is everything before the marker", okfo, func=f, node=f.node, instance="framing:output-slice")
    rets = [n for n in f.body_nodes() if isinstance(n, ast.Return) and n.value is not None]
    okr = False
    rv = _through_temp(f, rets[0].value) if len(rets) == 1 else None
    if isinstance(rv, ast.Tuple) and len(rv.elts) == 2:
        a, b = rv.elts
        from ..dataflow import origins as _or

        oa = [unparse(x) for x in _or(f, a)]
        ob = [unparse(x) for x in _or(f, b)]
        okr = all(x.startswith(f"{OUT}[:{MP}]") for x in oa) and all(x.startswith("int(") for x in ob) and bool(oa) and bool(ob)
    ctx.ob("R4", "output and integer return code are returned", okr, func=f, node=f.node, instance="framing:return")


def r5(ctx):
    p = ctx.prog
    f = p.func(f"{UT}.run_in_subprocess")
    g = f.cfg
    comm = [n for n in g.nodes.values() if any(isinstance(c.func, ast.Attribute) and c.func.attr == "communicate" for c in n.calls())]
    procs = vars_from(f, lambda e: is_call(e, "create_subprocess_exec"))
    PROC = procs[0] if procs else "proc"
    waits = [n for n in g.nodes.values() if any(isinstance(c.func, ast.Attribute) and c.func.attr == "wait" and unparse(c.func.value) == PROC for c in n.calls())]
    from ..facts import edge_for, region

    cap = lambda a, v: v and unparse(a) == "capture_output"  # noqa: E731
    tests = [n for n in g.nodes.values() if n.kind == "test" and n.ast is not None and edge_for(n.ast, cap)]
    ctx.require(bool(tests), "C25.R5: capture_output branch not found")
    t = tests[0]
    tb = [b for b, k in g.succ[t.id] if k == edge_for(t.ast, cap)]
    on_true = g.reach(tb, include_src=True)
    cids = [c.id for c in comm]
    ok = bool(comm) and all(c in on_true for c in cids)
    # no wait() on the process before the pipe is drained
    ok = ok and not any(w.id in on_true and g.path(w.id, cids) is not None for w in waits)
    ok = ok and not any(w.id in on_true and not any(w.id in g.reach([c]) for c in cids) for w in waits)
    esc = None
    for b in tb:
        if b not in cids:
            esc = esc or g.path(b, [g.exit], avoid=cids)
    ctx.ob("R5", "captured output is drained with communicate() (never wait() before reading the pipe)", ok and esc is None, func=f, node=t.ast,
           instance="subprocess:communicate", message="with capture_output the pipe is not drained while the process runs: outputs larger than the pipe buffer deadlock")
    rets = [n for n in f.body_nodes() if isinstance(n, ast.Return) and n.value is not None and not (isinstance(n.value, ast.Constant) and n.value.value is None)]
    so = [t[0] for t in tuple_vars_from(f, lambda e: "communicate" in unparse(e)) if t and t[0]]
    rv = _through_temp(f, rets[0].value) if len(rets) == 1 else None
    okr = isinstance(rv, ast.Tuple) and len(rv.elts) == 2 and unparse(rv.elts[1]) == f"{PROC}.returncode" and bool(so) and so[0] in unparse(rv.elts[0])
    ctx.ob("R5", "stdout and the real return code are returned", okr, func=f, node=f.node, instance="subprocess:return")
    # PIPE iff capture_output
    call = [c for c in f.calls() if isinstance(c.func, ast.Attribute) and c.func.attr == "create_subprocess_exec"]
    okp = False
    if call:
        kw = {k.arg: k.value for k in call[0].keywords}
        so = kw.get("stdout")
        from ..dataflow import defs_of as _defs2

        cands = [so] if isinstance(so, ast.IfExp) else ([d.value for d in _defs2(f, so.id) if d.value is not None] if isinstance(so, ast.Name) else [])
        for o in cands:
            if isinstance(o, ast.IfExp):
                k = edge_for(o.test, cap)
                arm = o.body if k == "t" else (o.orelse if k == "f" else None)
                okp = okp or (arm is not None and unparse(arm).endswith("PIPE"))
    ctx.ob("R5", "stdout is a pipe exactly when the output is captured", okp, func=f, node=f.node, instance="subprocess:pipe")
    # timeouts honoured on both branches
    wf = [c for c in f.calls() if unparse(c.func) == "asyncio.wait_for"]
    ctx.ob("R5", "the timeout is applied on both branches", len(wf) == 2 and all(any(k.arg == "timeout" and unparse(k.value) == "timeout" for k in c.keywords) for c in wf),
           func=f, node=f.node, instance="subprocess:timeout")
    # LocalConnector: the rendered command line is quoted as a single `sh -c` argument
    lf = p.func("streamflow.deployment.connector.local.LocalConnector.run")
    sub = [c for c in lf.calls() if isinstance(c.func, ast.Attribute) and c.func.attr == "run_in_subprocess"]
    okq = False
    if sub:
        cmd = [k.value for k in sub[0].keywords if k.arg == "command"]
        if cmd and isinstance(cmd[0], ast.List) and len(cmd[0].elts) == 3:
            okq = "shlex.quote(command)" in unparse(cmd[0].elts[2])
    ctx.ob("R5", "LocalConnector passes the rendered command line as one quoted `sh -c` argument", okq, func=lf, node=lf.node, instance="local:quote")


RULES = [("R1", r1), ("R2", r2), ("R3", r3), ("R4", r4), ("R5", r5)]
FLOORS = {"R1": 14, "R2": 7, "R3": 14, "R4": 18, "R5": 5}

EX = f"{SH}.BaseShell.execute"
VARIANTS = [
    V("create_command: env value in double quotes (S2 revert)", UFILE, f"{UT}.create_command", "f'export {key}={shlex.quote(str(value))} && '", "f'export {key}=\"{value}\" && '", "R1", control=True),
    V("create_command: workdir unquoted (S2 revert)", UFILE, f"{UT}.create_command", "f'cd {shlex.quote(workdir)} && '", "f'cd {workdir} && '", "R1"),
    V("_build_shell_command: env value unquoted", SFILE, f"{SH}._build_shell_command", "f'export {key}={shlex.quote(value)}'", "f'export {key}={value}'", "R1"),
    V("_build_shell_command: workdir-only fast path without subshell", SFILE, f"{SH}._build_shell_command",
      "if logger.isEnabledFor(logging.DEBUG):", "if workdir and (not environment):\n        cmd = 'cd ' + shlex.quote(workdir) + ' && ' + ' '.join(command) + ' 2>&1'\n    if logger.isEnabledFor(logging.DEBUG):", "R1"),
    V("BaseConnector.run renders env itself", BFILE, "streamflow.deployment.connector.base.BaseConnector.run",
      "command_str = utils.create_command(self.__class__.__name__, command, environment, workdir, stdin, stdout, stderr)",
      "command_str = ' '.join([f'{k}={v}' for (k, v) in (environment or {}).items()] + list(command))", "R1"),
    V("execute: close removed from generic handler (S3 revert)", SFILE, EX, "except Exception:\n            await self.close()\n            raise", "except Exception:\n            raise", "R2", control=True),
    V("execute: close removed from timeout handler", SFILE, EX, "except asyncio.TimeoutError as e:\n            await self.close()", "except asyncio.TimeoutError as e:\n            pass", "R2"),
    V("execute: closed test removed", SFILE, EX, "if self._closed:", "if False:", "R2"),
    V("execute: lock removed", SFILE, EX, "async with self._lock:", "if True:", "R2"),
    V("execute: wrong marker to reader", SFILE, EX, "self._read_with_output(end_marker, timeout)", "self._read_with_output(random_name(), timeout)", "R2"),
    V("run: shell result dropped", BFILE, "streamflow.deployment.connector.base.BaseConnector.run", "return await utils.run_in_shell(", "await utils.run_in_shell(", "R3"),
    V("run: stdin guard removed", BFILE, "streamflow.deployment.connector.base.BaseConnector.run", "if job_name is None and stdin is None:", "if job_name is None:", "R3"),
    V("run_in_shell swallows", UFILE, f"{UT}.run_in_shell", "raise e", "return None", "R3"),
    V("marker on same line", SFILE, f"{SH}._build_shell_command", "\\necho \"{end_marker}:$?\"\\n", "; echo \"{end_marker}:$?\"\\n", "R4", control=True),
    V("marker search only in new data", SFILE, f"{SH}.BaseShell._read_with_output", "output.find(f'{end_marker}:')", "output.find(f'{end_marker}:', len(output) - len(decoded_chunk))", "R4"),
    V("reader without newline requirement", SFILE, f"{SH}.BaseShell._read_without_output", "output.find('\\n', marker_pos)", "output.find('\\n')", "R4"),
    V("decoder not reset", SFILE, f"{SH}.BaseShell._read_with_output", "self._decoder.reset()", "pass", "R4"),
    V("EOF ignored", SFILE, f"{SH}.BaseShell._read_without_output", "if not chunk:", "if False:", "R4"),
    V("returncode off by one", SFILE, f"{SH}.BaseShell._read_with_output", "marker_pos + len(end_marker) + 1", "marker_pos + len(end_marker)", "R4"),
    V("constant marker", SFILE, EX, "f'SF_CMD_END_{random_name()}'", "'SF_CMD_END'", "R4"),
    V("wait then read", UFILE, f"{UT}.run_in_subprocess", "stdout, _ = await asyncio.wait_for(proc.communicate(), timeout=timeout)",
      "await asyncio.wait_for(proc.wait(), timeout=timeout)\n        stdout = await proc.stdout.read()", "R5", control=True),
    V("return code constant", UFILE, f"{UT}.run_in_subprocess", "proc.returncode", "0", "R5"),
    V("local: unquoted sh -c argument", "streamflow/deployment/connector/local.py", "streamflow.deployment.connector.local.LocalConnector.run",
      "mslex.quote(command) if sys.platform == 'win32' else shlex.quote(command)", "command", "R5"),
    # benign
    V("quote into a local first", UFILE, f"{UT}.create_command", "workdir=f'cd {shlex.quote(workdir)} && ' if workdir is not None else ''",
      "workdir=f'cd {shlex.quote(str(workdir))} && ' if workdir is not None else ''", None),
    V("rename reader local", SFILE, f"{SH}.BaseShell._read_with_output", "decoded_chunk", "dc", None, count=2),
    V("logging in execute", SFILE, EX, "end_marker = f'SF_CMD_END_{random_name()}'", "end_marker = f'SF_CMD_END_{random_name()}'\n        logger.debug('x')", None),
]
