"""C08 Saving then loading a workflow reproduces it exactly.

R1 writer/reader key agreement: for every class with an effective `_load` and `_save_additional_params`, each key the
   loader reads from the params mapping is written along the `super()` chain of the effective saver (entity-row keys
   must be columns of the schema); round-trip wiring: a key handed to constructor parameter p is saved from an
   attribute that `__init__` fills from p (or, for port parameters, from the port registered from p).
R2 constructor coverage: the `cls(...)` call of the effective `_load` supplies every parameter of the class's
   `__init__` (required: otherwise loading crashes; defaulted: otherwise the saved value is silently reset). A subclass
   that adds a parameter and inherits `_load` is a violation. Listed exceptions carry a reason.
R3 type dispatch: every persistable family stores the concrete class name on save and dispatches
   `get_class_from_name(row["type"])._load` on load; the loaded object is registered in the loading context.
R4 independent loads: the database getters used by loaders hand out deep copies (shared with C09.R4), so two loads of
   the same row never alias nested containers.
R5 builder copy: WorkflowBuilder.add_port/add_step do not assign persistent ids, a deep-copied workflow loses its id,
   a re-loaded step is reset to WAITING / not terminated.
R7 relations are saved on every save: `Step.save` records the step's input and output port dependencies and
   `Workflow.save` saves every port and every step on *every* normal path (also when the entity already has a
   persistent id: wiring or members added after the first save must reach the database), and no function of the
   persistence package that produces row values is memoised (`functools.lru_cache` / `cache`): a memoised decoder
   hands the same mutable container to every load.
"""

from __future__ import annotations

import ast
import collections
import os
import re

from ..model import REPO, unparse
from ..selftest import V
from .c09 import DEEP, _cached_decorator

PE = "streamflow.core.persistence.PersistableEntity"
CORE = "streamflow/core/workflow.py"
STEPF = "streamflow/workflow/step.py"
LC = "streamflow.persistence.loading_context"
LCFILE = "streamflow/persistence/loading_context.py"

META = {
    "explanation": (
        "Class-table rules over all persistable classes (every class whose MRO provides `_load` and "
        "`_save_additional_params`): key-set agreement between saver and loader along the super() chain, wiring of "
        "each saved key through __init__ back to the attribute it was saved from, constructor coverage of the loader's "
        "cls(...) call, type dispatch of the families' load/save, deep-copy discipline of the cached getters, builder "
        "copy semantics. Necessary conditions for save-then-load fidelity over every class; equality of arbitrary "
        "nested token values relies on the JSON round trip, which is trusted."
    ),
    "undecided": "equality of arbitrary nested token values (JSON round trip is trusted); classes loaded from plugins",
    "assumptions": ["json.dumps/loads round-trips JSON-compatible values", "cachebox semantics as in C09"],
}

# constructor parameters `_load` cannot supply, with the reason (DESIGN section 7)
CTOR_EXCEPTIONS = {
    ("FilterTokenPort", "filter_function"): "a closure cannot be persisted; FilterTokenPort is re-created by restore()",
    ("ListToken", "recoverable"): "derived from the elements (property), not a stored flag",
    ("ObjectToken", "recoverable"): "derived from the elements (property), not a stored flag",
}


def _columns(ctx) -> set[str]:
    path = os.path.join(ctx.prog.root, "streamflow/persistence/schemas/sqlite.sql")
    ctx.require(os.path.exists(path), "C08: sqlite.sql schema not found")
    txt = open(path).read()
    cols = set(re.findall(r"^\s+([a-z_]+)\s+(?:INTEGER|TEXT|BLOB)", txt, flags=re.M))
    ctx.require(len(cols) >= 20, "C08: could not read the schema columns")
    return cols | {"recoverable"}  # computed column of get_token


def _saver_chain(p, cq):
    f = p.resolve_method(cq, "_save_additional_params")
    while f is not None:
        yield f
        sup = any(isinstance(n, ast.Call) and isinstance(n.func, ast.Attribute) and n.func.attr == "_save_additional_params"
                  and isinstance(n.func.value, ast.Call) and unparse(n.func.value.func) == "super" for n in f.body_nodes())
        f = p.resolve_method(cq, "_save_additional_params", after=f.cls.qualname) if sup else None


def written(p, cq):
    """{key: (Func, value expr)} along the super() chain; second result: dynamic keys present"""
    out, dyn = {}, False
    for f in _saver_chain(p, cq):
        for n in f.body_nodes():
            if isinstance(n, ast.Dict):
                for k, v in zip(n.keys, n.values):
                    if isinstance(k, ast.Constant) and isinstance(k.value, str):
                        out.setdefault(k.value, (f, v))
                    elif k is None:
                        dyn = True
            if isinstance(n, ast.Subscript) and isinstance(n.ctx, ast.Store) and isinstance(n.slice, ast.Constant) and isinstance(n.slice.value, str):
                out.setdefault(n.slice.value, (f, None))
    return out, dyn


def _row_names(f):
    rows = {"row", "params"} & set(f.params) | ({"row"} if "row" in f.params else set())
    pnames = set()
    for n in f.body_nodes():
        if isinstance(n, ast.Assign) and len(n.targets) == 1 and isinstance(n.targets[0], ast.Name):
            txt = unparse(n.value)
            if "row['params']" in txt and isinstance(n.value, (ast.Subscript, ast.Call)) and not isinstance(n.value, ast.Await):
                if txt in ("row['params']", "json.loads(row['params'])"):
                    pnames.add(n.targets[0].id)
    return rows, pnames


def read_keys(f):
    """[(level, key, node)] level in {'row','params'}"""
    rows, pnames = _row_names(f)
    out = []
    for n in f.body_nodes():
        key = base = None
        if isinstance(n, ast.Subscript) and isinstance(n.slice, ast.Constant) and isinstance(n.slice.value, str) and isinstance(n.ctx, ast.Load):
            key, base = n.slice.value, n.value
        elif isinstance(n, ast.Call) and isinstance(n.func, ast.Attribute) and n.func.attr == "get" and n.args and isinstance(n.args[0], ast.Constant) and isinstance(n.args[0].value, str):
            key, base = n.args[0].value, n.func.value
        if key is None:
            continue
        if isinstance(base, ast.Name) and base.id in pnames:
            out.append(("params", key, n))
        elif isinstance(base, ast.Subscript) and isinstance(base.value, ast.Name) and base.value.id in rows and unparse(base.slice) == "'params'":
            out.append(("params", key, n))
        elif isinstance(base, ast.Name) and base.id in rows:
            out.append(("row", key, n))
    return out


def _classes(ctx):
    p = ctx.prog
    return [c for c in sorted(p.classes) if p.resolve_method(c, "_load") is not None and p.resolve_method(c, "_save_additional_params") is not None
            and p.resolve_method(c, "_load").name == "_load" and "row" in p.resolve_method(c, "_load").params]


def _init_attr_map(p, cq):
    """constructor parameter -> attributes assigned from it / 'PORT' when registered through add_*_port"""
    out = collections.defaultdict(set)
    f = p.resolve_method(cq, "__init__")
    ren = {}
    hops = 0
    while f is not None and hops < 8:
        hops += 1
        for n in f.body_nodes():
            if isinstance(n, (ast.Assign, ast.AnnAssign)):
                t = n.targets[0] if isinstance(n, ast.Assign) else n.target
                v = n.value
                if isinstance(t, ast.Attribute) and isinstance(t.value, ast.Name) and t.value.id == "self" and v is not None:
                    for x in ast.walk(v):
                        if isinstance(x, ast.Name) and x.id in f.params:
                            out[ren.get((f.qualname, x.id), x.id)].add(t.attr)
            if isinstance(n, ast.Call) and isinstance(n.func, ast.Attribute) and isinstance(n.func.value, ast.Name) and n.func.value.id == "self" \
                    and n.func.attr in ("add_input_port", "add_output_port", "_add_port"):
                for a in n.args:
                    for x in ast.walk(a):
                        if isinstance(x, ast.Name) and x.id in f.params:
                            out[ren.get((f.qualname, x.id), x.id)].add("<PORT>")
            if isinstance(n, (ast.For,)):
                for x in ast.walk(n.iter):
                    if isinstance(x, ast.Name) and x.id in f.params and any(
                        isinstance(c, ast.Call) and isinstance(c.func, ast.Attribute) and c.func.attr in ("add_input_port", "add_output_port") for c in ast.walk(n)):
                        out[ren.get((f.qualname, x.id), x.id)].add("<PORT>")
        nxt = None
        for c in f.calls():
            if isinstance(c.func, ast.Attribute) and c.func.attr == "__init__" and isinstance(c.func.value, ast.Call) and unparse(c.func.value.func) == "super":
                nxt = p.resolve_method(cq, "__init__", after=f.cls.qualname)
                if nxt is not None:
                    names = [a.arg for a in nxt.node.args.args][1:]
                    for i, a in enumerate(c.args):
                        if isinstance(a, ast.Name) and i < len(names):
                            ren[(nxt.qualname, names[i])] = ren.get((f.qualname, a.id), a.id)
                    for k in c.keywords:
                        if k.arg and isinstance(k.value, ast.Name):
                            ren[(nxt.qualname, k.arg)] = ren.get((f.qualname, k.value.id), k.value.id)
        f = nxt
    return out


def r1(ctx):
    p = ctx.prog
    cols = _columns(ctx)
    classes = _classes(ctx)
    ctx.require(len(classes) >= 60, f"C08.R1: only {len(classes)} persistable classes found")
    lossy = []
    for cq in classes:
        L = p.resolve_method(cq, "_load")
        W, dyn = written(p, cq)
        reads = read_keys(L)
        entity_rows = "workflow" in {k for lvl, k, _ in reads if lvl == "row"} or any(lvl == "params" for lvl, _, _ in reads)
        for lvl, key, node in reads:
            if lvl == "params" or (lvl == "row" and key not in cols):
                ok = key in W or dyn
                ctx.ob("R1", f"{cq.rsplit('.', 1)[1]}: key `{key}` read by {L.cls.name}._load is written by the saver chain", ok, func=L, node=node,
                       qualname=cq, instance=f"read:{key}",
                       message=f"{cq.rsplit('.', 1)[1]}: `_load` (defined in {L.cls.name}) reads key `{key}` that `_save_additional_params` never writes (written: {sorted(W)})")
            else:
                ctx.ob("R1", f"{cq.rsplit('.', 1)[1]}: row key `{key}` is a schema column", key in cols or key in W, func=L, node=node, qualname=cq,
                       instance=f"rowkey:{key}", message=f"`{key}` is neither a column of the schema nor a saved key")
        # wiring through the constructor
        calls = [c for c in L.calls() if isinstance(c.func, ast.Name) and c.func.id == "cls"]
        if not calls:
            continue
        am = _init_attr_map(p, cq)
        for k in calls[0].keywords:
            if not k.arg:
                continue
            keys = [x.slice.value for x in ast.walk(k.value) if isinstance(x, ast.Subscript) and isinstance(x.slice, ast.Constant) and isinstance(x.slice.value, str) and x.slice.value != "params"]
            keys += [x.args[0].value for x in ast.walk(k.value) if isinstance(x, ast.Call) and isinstance(x.func, ast.Attribute) and x.func.attr == "get" and x.args
                     and isinstance(x.args[0], ast.Constant) and isinstance(x.args[0].value, str)]
            for key in keys:
                if key not in W or W[key][1] is None:
                    continue
                sf, v = W[key]
                attrs = am.get(k.arg, set())
                used = {x.attr for x in ast.walk(v) if isinstance(x, ast.Attribute) and isinstance(x.value, ast.Name) and x.value.id == "self"}
                ok = bool((attrs - {"<PORT>"}) & used) or k.arg in used or ("<PORT>" in attrs and ".persistent_id" in unparse(v) and any(u.startswith("get_") and "port" in u for u in used))
                ctx.ob("R1", f"{cq.rsplit('.', 1)[1]}: key `{key}` -> parameter `{k.arg}` is saved from the attribute that parameter initialises", ok,
                       func=L, node=k.value, qualname=cq, instance=f"wiring:{key}:{k.arg}",
                       message=f"{cq.rsplit('.', 1)[1]}: key `{key}` is loaded into constructor parameter `{k.arg}` (attributes {sorted(attrs)}) but saved from `{unparse(v)[:80]}`")
        readset = {k for _, k, _ in reads}
        fam_load = p.resolve_method(cq, "load")
        fam_reads = {k for _, k, _ in read_keys(fam_load)} if fam_load is not None and "row" in unparse(fam_load.node) else set()
        for key in W:
            if key not in readset and key not in fam_reads:
                lossy.append(f"{cq.rsplit('.', 1)[1]}.{key}")
    if lossy:
        ctx.observe("C08: keys written but read by neither `_load` nor the family `load` (lossy or redundant): " + ", ".join(sorted(lossy)[:25]))


def r2(ctx):
    p = ctx.prog
    n = 0
    for cq in _classes(ctx) + [c for c in sorted(p.classes) if p.is_subclass(c, PE) and p.resolve_method(c, "_load") is not None and c not in _classes(ctx)]:
        L = p.resolve_method(cq, "_load")
        init = p.resolve_method(cq, "__init__")
        if L is None or init is None or "row" not in L.params:
            continue
        a = init.node.args
        names = [x.arg for x in a.posonlyargs + a.args][1:]
        nd = len(a.defaults)
        req = names[: len(names) - nd] if nd else list(names)
        opt = names[len(names) - nd:] if nd else []
        opt += [x.arg for x in a.kwonlyargs]
        calls = [c for c in L.calls() if isinstance(c.func, ast.Name) and c.func.id == "cls"]
        if not calls:
            ctx.observe(f"C08.R2: {L.qualname} does not construct through cls(...): constructor coverage not decided for {cq.rsplit('.', 1)[1]}")
            continue
        for c in calls:
            n += 1
            kws = {k.arg for k in c.keywords if k.arg}
            star = any(k.arg is None for k in c.keywords) or any(isinstance(x, ast.Starred) for x in c.args)
            passed = set((req + opt)[: len(c.args)]) | kws
            short = cq.rsplit(".", 1)[1]
            mreq = [x for x in req if x not in passed]
            mopt = [x for x in opt if x not in passed and (short, x) not in CTOR_EXCEPTIONS]
            extra = [k for k in kws if k not in req + opt and a.kwarg is None]
            ok = star or not (mreq or mopt or extra)
            ctx.ob("R2", f"{short}: {L.cls.name}._load supplies every constructor parameter", ok, func=L, node=c, qualname=cq, instance=f"ctor:{short}",
                   message=f"{short}: `_load` (defined in {L.cls.name}) calls cls(...) without {mreq + mopt}"
                           + (f" and with unknown {extra}" if extra else "")
                           + (": loading raises TypeError" if mreq or extra else ": the saved value is silently reset to the default"))
    ctx.require(n >= 70, f"C08.R2: only {n} loader constructions found")


FAMILIES = [
    "streamflow.core.workflow.Workflow",
    "streamflow.core.workflow.Step",
    "streamflow.core.workflow.Port",
    "streamflow.core.workflow.Token",
    "streamflow.core.deployment.Target",
    "streamflow.core.deployment.DeploymentConfig",
    "streamflow.core.deployment.FilterConfig",
]
NESTED_FAMILIES = [
    "streamflow.workflow.step.Combinator",
    "streamflow.core.workflow.Command",
    "streamflow.core.workflow.CommandTokenProcessor",
    "streamflow.core.processor.CommandOutputProcessor",
    "streamflow.core.processor.TokenProcessor",
    "streamflow.core.scheduling.HardwareRequirement",
]


def r3(ctx):
    p = ctx.prog
    for cq in FAMILIES + NESTED_FAMILIES:
        c = p.cls(cq)
        ld = c.methods.get("load")
        sv = c.methods.get("save")
        ctx.require(ld is not None and sv is not None, f"C08.R3: {cq} lost its load/save")
        src = unparse(ld.node)
        dispatch = [x for x in ld.calls() if isinstance(x.func, ast.Attribute) and x.func.attr == "get_class_from_name" or (isinstance(x.func, ast.Name) and x.func.id == "get_class_from_name")]
        polymorphic = bool(p.subclasses(cq))
        if dispatch:
            arg = unparse(dispatch[0].args[0]) if dispatch[0].args else ""
            okd = arg.endswith("['type']")
            used = any(isinstance(x.func, ast.Attribute) and x.func.attr == "_load" and isinstance(x.func.value, ast.Name)
                       and any(isinstance(d.value, ast.Call) and "get_class_from_name" in unparse(d.value) for d in __import__("sfverif.dataflow", fromlist=["defs_of"]).defs_of(ld, x.func.value.id))
                       for x in ld.calls())
            ctx.ob("R3", f"{c.name}.load dispatches on the stored class name", okd and used, func=ld, node=dispatch[0], instance=f"{c.name}:dispatch",
                   message=f"{c.name}.load does not call `_load` of the class stored in row['type']: subclasses are loaded as the wrong class")
        else:
            ctx.ob("R3", f"{c.name}.load dispatches on the stored class name", not polymorphic, func=ld, node=ld.node, instance=f"{c.name}:dispatch",
                   message=f"{c.name} has subclasses but load() does not dispatch on the stored type")
        # save stores the concrete type
        ssrc = unparse(sv.node)
        oks = "type=type(self)" in ssrc or "get_class_fullname(type(self))" in ssrc or not polymorphic
        ctx.ob("R3", f"{c.name}.save stores the concrete class", oks, func=sv, node=sv.node, instance=f"{c.name}:save-type",
               message=f"{c.name}.save does not store type(self): every subclass is re-loaded as {c.name}")
        if cq in FAMILIES:
            reg = any(isinstance(x.func, ast.Attribute) and x.func.attr.startswith("add_") and unparse(x.func.value) == "loading_context" for x in ld.calls())
            ctx.ob("R3", f"{c.name}.load registers the loaded object in the loading context", reg, func=ld, node=ld.node, instance=f"{c.name}:register")
            # save is idempotent: guarded by persistent_id
            ctx.ob("R3", f"{c.name}.save writes a new row only when the object has no id", "self.persistent_id" in ssrc, func=sv, node=sv.node, instance=f"{c.name}:save-once")
    # database add_* methods store the fully qualified class name
    db = p.cls("streamflow.persistence.sqlite.SqliteDatabase")
    for m in db.methods.values():
        ann = m.param_annotation("type") if "type" in m.params else None
        if m.name.startswith("add_") and ann is not None and unparse(ann).startswith("type["):
            ok = "utils.get_class_fullname(type)" in unparse(m.node) or "get_class_fullname(type)" in unparse(m.node)
            ctx.ob("R3", f"{m.name} stores the fully qualified class name", ok, func=m, node=m.node, instance=f"{m.name}:fullname",
                   message=f"{m.name} does not store get_class_fullname(type): the row cannot be dispatched on load")


def r4(ctx):
    p = ctx.prog
    db = p.cls("streamflow.persistence.sqlite.SqliteDatabase")
    used = set()
    for cq in FAMILIES:
        ld = p.cls(cq).methods["load"]
        for c in ld.calls():
            if isinstance(c.func, ast.Attribute) and c.func.attr.startswith("get_") and unparse(c.func.value).endswith("database"):
                used.add(c.func.attr)
    ctx.require(len(used) >= 6, f"C08.R4: loaders use only {sorted(used)}")
    for name in sorted(used):
        m = db.methods.get(name)
        ctx.require(m is not None, f"C08.R4: SqliteDatabase.{name} not found")
        dec = _cached_decorator(m)
        if dec is None:
            ctx.ob("R4", f"{name} is not memoised: every load decodes a fresh row", True, func=m, node=m.node, instance=f"{name}:uncached", trivial=True)
            continue
        pp = [k.value for k in dec.keywords if k.arg == "postprocess"]
        ok = bool(pp) and unparse(pp[0]).split(".")[-1] in DEEP
        ctx.ob("R4", f"{name}: rows handed to loaders are deep copies", ok, func=m, node=dec, instance=f"{name}:deepcopy",
               message=f"two loads through {name} share the decoded `params` containers: changing one loaded object changes the other and later loads")


def r5(ctx):
    p = ctx.prog
    wb = p.cls(f"{LC}.WorkflowBuilder")
    for name in ("add_port", "add_step"):
        m = wb.methods.get(name)
        ctx.require(m is not None, f"C08.R5: WorkflowBuilder.{name} vanished (the base class assigns persistent ids)")
        assigns = [n for n in m.body_nodes() if isinstance(n, ast.Assign) and any(isinstance(t, ast.Attribute) and t.attr == "persistent_id" for t in n.targets)]
        sup = any(isinstance(c.func, ast.Attribute) and isinstance(c.func.value, ast.Call) and unparse(c.func.value.func) == "super" for c in m.calls())
        ctx.ob("R5", f"WorkflowBuilder.{name} does not give the copy the id of the original", not assigns and not sup, func=m, node=m.node, instance=f"builder:{name}",
               message=f"WorkflowBuilder.{name} assigns persistent_id: saving the copied workflow updates nothing / overwrites the original rows")
    lw = wb.methods["load_workflow"]
    g = lw.cfg
    resets = [n for n in g.nodes.values() if n.kind == "stmt" and isinstance(n.ast, ast.Assign) and unparse(n.ast.targets[0]).endswith(".persistent_id") and unparse(n.ast.value) == "None"]
    from ..facts import edge_for

    _deep = lambda a, v: v and unparse(a) == "self.deep_copy"  # noqa: E731
    tests = [n for n in g.nodes.values() if n.kind == "test" and n.ast is not None and edge_for(n.ast, _deep)]
    ok = bool(resets) and bool(tests) and all(any(r.id in g.reach([b], include_src=True) for r in resets) for t in tests for b, k in g.succ[t.id] if k == edge_for(t.ast, _deep))
    loads = [n for n in g.nodes.values() if any(isinstance(c.func, ast.Attribute) and c.func.attr == "load" for c in n.calls())]
    ok = ok and all(g.dominates([l.id for l in loads], r.id) for r in resets)
    ctx.ob("R5", "a deep-copied workflow loses its persistent id after loading", ok, func=lw, node=lw.node, instance="builder:load_workflow",
           message="the deep copy keeps the id of the original workflow: saving it overwrites the original")
    ls = wb.methods["load_step"]
    src = unparse(ls.node)
    asg = [n for n in ls.body_nodes() if isinstance(n, ast.Assign) and isinstance(n.targets[0], ast.Attribute)]
    ok = any(n.targets[0].attr == "status" and unparse(n.value) == "Status.WAITING" for n in asg) and any(
        n.targets[0].attr == "terminated" and unparse(n.value) == "False" for n in asg)
    ctx.ob("R5", "a re-loaded step starts WAITING and not terminated", ok, func=ls, node=ls.node, instance="builder:load_step")
    # Step.load restores status from the row and input/output ports from the dependencies
    sl = p.func("streamflow.core.workflow.Step.load")
    src = unparse(sl.node)
    ok = "['status'])" in src and "Status(" in src and "get_input_ports(persistent_id)" in src and "get_output_ports(persistent_id)" in src
    ctx.ob("R5", "Step.load restores status and both port maps", ok, func=sl, node=sl.node, instance="step:load")
    wl = p.func("streamflow.core.workflow.Workflow.load")
    src = unparse(wl.node)
    ok = "get_workflow_ports" in src and "get_workflow_steps" in src
    ctx.ob("R5", "Workflow.load restores every port and step of the workflow", ok, func=wl, node=wl.node, instance="workflow:load")


def _falsy_enum(p, cq) -> bool:
    c = p.classes.get(cq)
    if c is None or not any(b.split(".")[-1] in ("Enum", "IntEnum", "Flag", "IntFlag") for b in p.mro(cq)):
        return False
    for n in c.node.body:
        if isinstance(n, ast.Assign) and isinstance(n.value, ast.Constant) and not n.value.value and n.value.value is not None:
            return True
    return False


def r6(ctx):
    """(a) Optional values are reconstructed under `is not None`: `V(row[k]) if row[k] else None` loses every legitimate
    falsy value (an enum member with value 0, 0, '', False); (b) a family `load` restores each saved field once: a
    field assigned on the loaded object must not also be changed by a mutating method called on it."""
    p = ctx.prog
    n = 0
    for f in p.all_funcs():
        if f.name not in ("_load", "load") or f.cls is None or "row" not in f.params:
            continue
        for x in f.body_nodes():
            if not isinstance(x, ast.IfExp):
                continue
            none_arm = lambda e: isinstance(e, ast.Constant) and e.value is None  # noqa: E731
            if none_arm(x.orelse) and not none_arm(x.body):
                body, taken = x.body, True
            elif none_arm(x.body) and not none_arm(x.orelse):
                body, taken = x.orelse, False
            else:
                continue
            body = body.value if isinstance(body, ast.Await) else body
            if not isinstance(body, ast.Call):
                continue
            callee = p.resolve_call(f, body, fanout=False)[0]
            valueish = callee in ("int", "float", "str", "bool") or _falsy_enum(p, callee)
            if not valueish:
                continue
            n += 1
            from ..facts import atoms as _atoms

            # the value arm is taken exactly when the stored value is not None (however the test is spelled)
            truthy = not any((not v) and isinstance(a, ast.Compare) and len(a.ops) == 1 and isinstance(a.ops[0], (ast.Is, ast.Eq))
                             and isinstance(a.comparators[0], ast.Constant) and a.comparators[0].value is None for a, v in _atoms(x.test, taken))
            ctx.ob("R6", f"{f.cls.name}.{f.name}: optional `{unparse(body)[:50]}` is reconstructed under an `is not None` test", not truthy, func=f, node=x,
                   qualname=f.qualname, instance=f"optional:{unparse(body)[:60]}",
                   message=f"{f.cls.name}.{f.name}: `{unparse(x)[:90]}` tests truthiness: a saved falsy value (e.g. an enum member with value 0) is loaded back as None")
    ctx.require(n >= 1, "C08.R6: no optional value reconstruction found")
    # (b) double restore in family loads
    from ..roles import vars_from

    for cq in FAMILIES + NESTED_FAMILIES:
        ld = p.cls(cq).methods.get("load")
        if ld is None:
            continue
        objs = vars_from(ld, lambda e: isinstance(e, ast.Call) and isinstance(e.func, ast.Attribute) and e.func.attr == "_load")
        for o in objs:
            stored = {t.attr for x in ld.body_nodes() if isinstance(x, (ast.Assign, ast.AnnAssign)) for t in (x.targets if isinstance(x, ast.Assign) else [x.target])
                      if isinstance(t, ast.Attribute) and isinstance(t.value, ast.Name) and t.value.id == o}
            for c in ld.calls():
                if isinstance(c.func, ast.Attribute) and isinstance(c.func.value, ast.Name) and c.func.value.id == o:
                    m = p.resolve_method(cq, c.func.attr)
                    if m is None:
                        continue
                    mutated = set()
                    for y in m.body_nodes():
                        tg = None
                        if isinstance(y, (ast.Assign, ast.AugAssign)):
                            tg = y.targets[0] if isinstance(y, ast.Assign) else y.target
                            while isinstance(tg, ast.Subscript):
                                tg = tg.value
                        elif isinstance(y, ast.Call) and isinstance(y.func, ast.Attribute) and y.func.attr in ("append", "extend", "add", "update", "insert", "setdefault", "pop", "remove"):
                            tg = y.func.value
                            while isinstance(tg, ast.Subscript):
                                tg = tg.value
                        if isinstance(tg, ast.Attribute) and isinstance(tg.value, ast.Name) and tg.value.id == "self":
                            mutated.add(tg.attr)
                    twice = sorted(stored & mutated)
                    ctx.ob("R6", f"{p.cls(cq).name}.load: `{o}.{c.func.attr}(...)` does not touch fields that load() already restored", not twice, func=ld, node=c,
                           instance=f"double-restore:{c.func.attr}",
                           message=f"{p.cls(cq).name}.load restores {twice} by assignment and again through `{o}.{c.func.attr}()`, which also mutates them: the loaded object differs from the saved one")
        ctx.ob("R6", f"{p.cls(cq).name}.load examined for double restoration", True, func=ld, node=ld.node, instance="double-restore:examined", trivial=True)


def r7(ctx):
    p = ctx.prog
    # (a) Step.save: add_dependency for INPUT over the input ports and OUTPUT over the output ports, on every path
    for q in ["streamflow.core.workflow.Step", *p.subclasses("streamflow.core.workflow.Step")]:
        c = p.classes.get(q)
        f = c.methods.get("save") if c is not None else None
        if f is None:
            continue
        g = f.cfg
        deps = {}
        for n in g.nodes.values():
            for call in n.calls():
                if isinstance(call.func, ast.Attribute) and call.func.attr == "add_dependency":
                    kw = {k.arg: unparse(k.value) for k in call.keywords}
                    kind = kw.get("type", "")
                    # the iterable the enclosing comprehension / loop ranges over
                    src = ""
                    for a in __import__("sfverif.model", fromlist=["ancestors"]).ancestors(call):
                        if isinstance(a, (ast.GeneratorExp, ast.ListComp, ast.SetComp)):
                            src = unparse(a.generators[0].iter)
                            break
                        if isinstance(a, (ast.For, ast.AsyncFor)):
                            src = unparse(a.iter)
                            break
                    deps.setdefault(n.id, []).append((kind, src))
        for role, getter in (("INPUT", "get_input_ports"), ("OUTPUT", "get_output_ports")):
            ids = [i for i, lst in deps.items() if any(k.endswith(role) and getter in s_ for k, s_ in lst)]
            esc = g.escape(g.entry, ids) if ids else [g.entry, g.exit]
            ctx.ob("R7", f"{c.name}.save records the {role} dependencies of the step on every path", bool(ids) and esc is None, func=f, node=f.node,
                   instance=f"{q}.save:{role}",
                   message=f"{c.name}.save can return without writing the step's {role} port dependencies (e.g. for a step that already has a persistent id): "
                           "wiring added after the first save is lost and the loaded workflow has dangling ports",
                   witness=g.describe(esc) if esc else [])
    # (b) Workflow.save: every port and every step saved on every path
    for q in ["streamflow.core.workflow.Workflow", *p.subclasses("streamflow.core.workflow.Workflow")]:
        c = p.classes.get(q)
        f = c.methods.get("save") if c is not None else None
        if f is None:
            continue
        g = f.cfg
        for member in ("ports", "steps"):
            ids = []
            for n in g.nodes.values():
                for call in n.calls():
                    if isinstance(call.func, ast.Attribute) and call.func.attr == "save":
                        for a in __import__("sfverif.model", fromlist=["ancestors"]).ancestors(call):
                            it = a.generators[0].iter if isinstance(a, (ast.GeneratorExp, ast.ListComp, ast.SetComp)) else (a.iter if isinstance(a, (ast.For, ast.AsyncFor)) else None)
                            if it is not None:
                                if unparse(it) in (f"self.{member}.values()", f"list(self.{member}.values())", f"tuple(self.{member}.values())"):
                                    ids.append(n.id)
                                break
            esc = g.escape(g.entry, ids) if ids else [g.entry, g.exit]
            ctx.ob("R7", f"{c.name}.save saves every member of self.{member} on every path", bool(ids) and esc is None, func=f, node=f.node,
                   instance=f"{q}.save:{member}",
                   message=f"{c.name}.save can return without saving self.{member} (e.g. for a workflow that already has a persistent id): members added later are never stored",
                   witness=g.describe(esc) if esc else [])
    # (c) no memoised value producers in the persistence package
    for m in p.modules.values():
        if not m.relpath.startswith("streamflow/persistence/"):
            continue
        funcs = [f for f in p.all_funcs() if f.file == m.relpath]
        if not funcs:
            continue
        memo = []
        for f in funcs:
            for d in f.decorators:
                name = (unparse(d.func) if isinstance(d, ast.Call) else unparse(d)).split(".")[-1]
                if name in ("lru_cache", "cache", "cached_property"):
                    memo.append(f)
        bad = memo[0] if memo else None
        ctx.ob("R7", f"no function of {m.relpath} is memoised with a functools cache", not memo, func=bad or funcs[0], node=(bad or funcs[0]).node,
               instance=f"memoised:{m.relpath}:{bad.qualname if bad else ''}",
               message=(f"{bad.qualname} is memoised (functools cache): every caller receives the same mutable object, so two loads of one record share "
                        "their containers and a change made through one loaded entity shows up in the others") if bad else "")


RULES = [("R1", r1), ("R2", r2), ("R3", r3), ("R4", r4), ("R5", r5), ("R6", r6), ("R7", r7)]
FLOORS = {"R1": 400, "R2": 70, "R3": 30, "R4": 5, "R5": 6, "R6": 3, "R7": 7}

G = "streamflow.workflow.step.GatherStep"
VARIANTS = [
    V("Step.save returns early once persisted", CORE, "streamflow.core.workflow.Step.save",
      "if self.persistent_id is None:\n        if self._saving is not None:", "if self.persistent_id is not None:\n        return\n    if True:\n        if self._saving is not None:", "R7", control=True),
    V("Step.save writes only the input dependencies", CORE, "streamflow.core.workflow.Step.save", "DependencyType.OUTPUT", "DependencyType.INPUT", "R7"),
    V("Step.save iterates the input ports twice", CORE, "streamflow.core.workflow.Step.save", "self.get_output_ports().items()", "self.get_input_ports().items()", "R7"),
    V("Workflow.save skips the members of a persisted workflow", CORE, "streamflow.core.workflow.Workflow.save",
      "if self.persistent_id is None:\n        if self._saving is not None:", "if self.persistent_id is not None:\n        return\n    if True:\n        if self._saving is not None:", "R7"),
    V("memoised JSON decoding of rows", "streamflow/persistence/sqlite.py", None, "def _load_keys(", "@functools.lru_cache(maxsize=1024)\ndef _load_keys(", "R7"),
    V("Step.save with a guard clause only around the insert (benign)", CORE, "streamflow.core.workflow.Step.save",
      "if self.persistent_id is None:\n        if self._saving is not None:", "missing = self.persistent_id is None\n    if missing:\n        if self._saving is not None:", None),

    V("GatherStep: key renamed on the save side", STEPF, f"{G}._save_additional_params", "'depth': self.depth", "'gather_depth': self.depth", "R1", control=True),
    V("GatherStep: key renamed on the load side", STEPF, f"{G}._load", "params['depth']", "params['level']", "R1"),
    V("GatherStep: depth saved from another attribute", STEPF, f"{G}._save_additional_params", "'depth': self.depth", "'depth': len(self.size_map)", "R1"),
    V("Combinator: key dropped from save", STEPF, "streamflow.workflow.step.Combinator._save_additional_params", "'combinators_map': self.combinators_map, ", "", None),
    V("GatherStep: loader forgets depth", STEPF, f"{G}._load", "depth=params['depth'], ", "", "R2", control=True),
    V("subclass adds a parameter and inherits _load", STEPF, None, None, None, "R2",
      append="class TimedGatherStep(GatherStep):\n    def __init__(self, name, workflow, size_port, depth=1, deadline=0):\n        super().__init__(name, workflow, size_port, depth)\n        self.deadline = deadline\n"),
    V("Token.save stores the base class", CORE, "streamflow.core.workflow.Token.save", "type=type(self)", "type=Token", "R3", control=True),
    V("Step.load ignores the stored type", CORE, "streamflow.core.workflow.Step.load", "step = await type_._load(row, loading_context)", "step = await cls._load(row, loading_context)", "R3"),
    V("add_step stores the short class name", "streamflow/persistence/sqlite.py", "streamflow.persistence.sqlite.SqliteDatabase.add_step", "utils.get_class_fullname(type)", "type.__name__", "R3"),
    V("get_port without deep copy", "streamflow/persistence/sqlite.py", "streamflow.persistence.sqlite.SqliteDatabase.get_port", ", postprocess=postprocess_deepcopy_mutables", "", "R4"),
    V("builder add_step assigns the id", LCFILE, f"{LC}.WorkflowBuilder.add_step", "self._steps[persistent_id] = step", "step.persistent_id = persistent_id\n    self._steps[persistent_id] = step", "R5", control=True),
    V("deep copy keeps the workflow id", LCFILE, f"{LC}.WorkflowBuilder.load_workflow", "self.workflow.persistent_id = None", "pass", "R5"),
    V("re-loaded step keeps its status", LCFILE, f"{LC}.WorkflowBuilder.load_step", "step.status = Status.WAITING", "pass", "R5"),
    V("optional enum reconstructed under truthiness", "streamflow/cwl/processor.py", "streamflow.cwl.processor.CWLTokenProcessor._load",
      "LoadListing(row['load_listing']) if row['load_listing'] is not None else None", "LoadListing(row['load_listing']) if row['load_listing'] else None", "R6"),
    V("Combinator.load re-attaches inner combinators through add_combinator", STEPF, "streamflow.workflow.step.Combinator.load",
      "return combinator", "for inner in list(combinator.combinators.values()):\n        combinator.add_combinator(inner, set())\n    return combinator", "R6"),
    # benign
    V("reorder dict keys", STEPF, "streamflow.workflow.step.Combinator._save_additional_params", "'items': self.items, 'workflow': self.workflow.persistent_id", "'workflow': self.workflow.persistent_id, 'items': self.items", None),
    V("params dict built in two statements", STEPF, f"{G}._save_additional_params", "return cast(dict[str, Any], await super()._save_additional_params(database)) | {",
      "base = cast(dict[str, Any], await super()._save_additional_params(database))\n    return base | {", None),
    V("loader reads through row['params'] directly", STEPF, f"{G}._load", "depth=params['depth']", "depth=row['params']['depth']", None),
]
