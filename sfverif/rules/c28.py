"""C28 Steps get the binding of their nearest bound ancestor.

Clauses decided (necessary conditions visible in the code's shape):
R1 nearest-ancestor resolver: `get_binding_config` looks the binding up with `WorkflowConfig.propagate`
   (never `get`) on `PurePosixPath(<step name>)` / `<target type>`; `propagate` descends one path component per
   iteration, overwrites its candidate at each deeper node that carries the key, never leaves the walk right after a
   hit, and every `return` yields the candidate (so a missing child returns the nearest ancestor, not the default);
   absence of any binding falls back to `BindingConfig(targets=[LocalTarget()])`.
R2 cycle rejection: `_check_stacked_deployments` is called on every normal path of `WorkflowConfig.__init__`, after
   the last write of `self.deployments`; its `while` over `wraps` tests every newly reached deployment against a
   visited set that is fresh per start deployment, raises `WorkflowDefinitionException` on a revisit and records the
   deployment otherwise.  `_get_workdir` (an unbounded `while` over `wraps`) is called only from `get_binding_config`
   with a constructed `WorkflowConfig`, and follows the chain with the same key expression as the checker.
R3 working directory: `Target` receives the target's own `workdir` and a `DeploymentConfig` whose `workdir` is
   `_get_workdir(<deployment of that target>)`; `Target.__init__` prefers own over deployment workdir (decided on the
   value `self.workdir` finally holds, by cases: see Recognisers); `_get_workdir`
   reads the deployment's own `workdir` before following `wraps`, continues only while it is None, returns it.
R4 binding tree construction (added): `put` stores the value at the node reached after the whole walk; the keys
   "step"/"port" are written only by `_process_binding` (through `put`) and by `set_targets`, which never overwrites an
   explicit binding and hands each node's *own* effective target down to its children.  Every caller of `set_targets`
   starts it at the root (`self.filesystem`, no inherited target) and no binding insertion (`put` or a WorkflowConfig
   method that reaches `put`) is reachable in the caller's CFG after the call: inheritance is materialised on the
   complete tree (set_targets never overwrites, so a value frozen on a half-built tree shadows a binding listed later).
R5 resolution is a function of the configuration at hand: the resolver functions (get_binding_config, _get_workdir and their callees
   in streamflow.deployment.utils / streamflow.config.config, every WorkflowConfig method, set_targets) carry no
   memoising decorator, no mutable default argument, no `global`/`nonlocal` declaration, and never store into / call a
   mutating method on an object rooted at a module-level name (module dict, function attribute, imported module).  A
   result memoised outside the WorkflowConfig survives into the next configuration of the same process.

Recognisers: the tests of R1 (`<config> is None`, `name in node`), R2 (`<key> in <visited>`) and R4 (`'step' in node`) are
found through branch facts (sfverif.facts): the outcome of a CFG test that *implies* the canonical atom, whatever the
spelling (`is not`/`not .. is`, `not in`/`not (.. in ..)`, swapped branches, guard clauses, conjuncts); where the clause
says "exactly when" the other outcome must imply the negated atom.  The loop condition of `_get_workdir` (R3) is
read the same way: the `continue the walk` outcome must imply exactly `(workdir := d.get('workdir')) is None` = true and
`(wraps := d.get('wraps')) is None` = false, in this evaluation order (`is not None`, `not (.. is None)`, the De Morgan
form `not (.. is not None or .. is None)` and `None is ..` are one shape; `or`, a flipped polarity, a swapped order, a
dropped or an additional conjunct are not).  The value of a `return` is followed through
temporaries with reaching definitions (`ret = X; return ret` in several branches is one value per return).
`Target.__init__` (R3) is evaluated symbolically (`_value_cases`): every feasible normal path of the CFG x every operand
an `or`/`and` chain or a conditional expression can yield, locals / walruses / `self.<attr>` aliases substituted by
their values, tests recorded as canonical truth facts, a call that resolves to one function of the program inlined
(two levels, parameters bound to the call's arguments).  The clause holds when every case whose value is not the
own `workdir` argument carries the fact `workdir` is falsy (or None), every case whose value is neither that nor
`[self.]deployment.workdir` also carries the fact that the latter is falsy (or None), `self.workdir` is assigned on
every path and both the own and the inherited case exist -- one `or` chain, if statements that re-assign the
parameter, several assignments of the attribute and an extracted helper are one shape.
Known limit (refused as a finding, not accepted silently): a single-exit rewrite of get_binding_config
(`ret = <fallback>` before the test, overwritten on the bound branch, one `return ret`) is not recognised as tied to
the `no binding` outcome -- this needs path-sensitive value tracking.
"""

from __future__ import annotations

import ast
import re

from ..dataflow import reaching_defs
from ..facts import atoms, edge_for
from ..model import dotted, unparse
from ..selftest import V
from ._util_C import (
    branch,
    const,
    defs_of,
    is_name,
    kwarg,
    leads_only_to_raise,
    must_pass,
    only_via,
    origins,
    resolves_to,
    strip_await,
    within,
)

CFGM = "streamflow.config.config"
WC = f"{CFGM}.WorkflowConfig"
PROP = f"{WC}.propagate"
GET = f"{WC}.get"
PUT = f"{WC}.put"
CHECK = f"{WC}._check_stacked_deployments"
DU = "streamflow.deployment.utils"
GBC = f"{DU}.get_binding_config"
GWD = f"{DU}._get_workdir"
TARGET = "streamflow.core.deployment.Target"
LOCAL = "streamflow.core.deployment.LocalTarget"
WDE = "streamflow.core.exception.WorkflowDefinitionException"
CFILE = "streamflow/config/config.py"
UFILE = "streamflow/deployment/utils.py"
DFILE = "streamflow/core/deployment.py"

META = {
    "explanation": (
        "AST/CFG/def-use rules over WorkflowConfig (propagate, put, set_targets, __init__, _check_stacked_deployments), "
        "get_binding_config, _get_workdir and Target.__init__: which resolver is called with which arguments, "
        "overwrite-and-continue shape of the tree walk, must-pass-through of the cycle check on every constructor path, "
        "visited-set discipline of the wraps walk, own-before-inherited order of the working directory. Decides "
        "necessary structural conditions; the resolution of concrete StreamFlow files is not executed."
    ),
    "undecided": (
        "equality of the resolved BindingConfig with the declared one for concrete binding trees (needs execution); "
        "schema validation of the StreamFlow file; filters"
    ),
    "assumptions": [
        "R2 is deliberately strict: guarding the cycle check with any condition (even `if self.deployments:`) is reported",
        "PurePosixPath.parts yields the root and then one component per level",
        "WorkflowConfig objects are only created through WorkflowConfig.__init__",
    ],
}


# --------------------------------------------------------------------------- spelling-independent helpers


def _origins_at(f, expr, at=None, depth=5):
    """Like `origins`, but flow-sensitive: a local name is replaced by the plain assignments that *reach* the place
    where it is read (`at`: the expression/statement reading it, default `expr` itself), so that a temporary which is
    assigned in several branches (`ret = A; return ret` / `ret = B; return ret`) denotes one value per read."""
    at = expr if at is None else at
    if isinstance(expr, ast.Name) and depth > 0:
        ds = reaching_defs(f, expr.id, at)
        if ds and all(d.kind in ("assign", "walrus") and d.index is None and d.stmt is not None for d in ds):
            out = []
            for d in ds:
                out.extend(_origins_at(f, d.value, d.value, depth - 1))
            return out
    if isinstance(expr, ast.Await):
        return _origins_at(f, expr.value, at, depth)
    if isinstance(expr, ast.IfExp):
        return _origins_at(f, expr.body, at, depth) + _origins_at(f, expr.orelse, at, depth)
    return [expr]


def _plain(e):
    """`x` for the walrus `(x := e)`."""
    return e.target if isinstance(e, ast.NamedExpr) else e


def _cmp_atom(a, op):
    """(left, right) of a canonical one-operator comparison atom `left <op> right`, else None."""
    if isinstance(a, ast.Compare) and len(a.ops) == 1 and isinstance(a.ops[0], op):
        return _plain(a.left), _plain(a.comparators[0])
    return None


def _none_walrus(a):
    """The walrus `(x := e)` of a canonical atom `(x := e) is None` / `None is (x := e)`, else None."""
    if isinstance(a, ast.Compare) and len(a.ops) == 1 and isinstance(a.ops[0], ast.Is):
        x, y = a.left, a.comparators[0]
        if isinstance(x, ast.NamedExpr) and const(y) is None:
            return x
        if isinstance(y, ast.NamedExpr) and const(x) is None:
            return y
    return None


def _tests_implying(g, pred, truth=True, scope=None, exact=False):
    """[(test node, edge kind)]: the CFG tests one of whose outcomes (and only one) implies that a canonical atom with
    pred(atom) has truth value `truth` -- whatever the spelling (`if a:..else:..` / `if not a:` / guard clause /
    `a and b` / `not in` vs `not .. in`).  `exact`: the other outcome must imply the opposite truth value (the test
    decides the atom; it is not merely a conjunct of a stronger condition)."""
    out = []
    for n in g.nodes.values():
        if n.kind != "test" or n.ast is None or (scope is not None and not within(n.ast, scope)):
            continue
        e = edge_for(n.ast, lambda a, v: v is truth and pred(a))
        if e is None:
            continue
        if exact and edge_for(n.ast, lambda a, v: v is (not truth) and pred(a)) != _other(e):
            continue
        out.append((n, e))
    return out


def _other(edge):
    return "f" if edge == "t" else "t"


# --------------------------------------------------------------------------- R3: value of Target.workdir by cases

_UNKNOWN = "__sf_unknown__"
_RET = "<return>"
_HEADER_SKIP = ("body", "orelse", "finalbody", "handlers", "cases")


def _parse(text):
    return ast.parse(text, mode="eval").body


def _subst(expr, env, bind=False):
    """`expr` (re-parsed, never the engine's node) with every local name / `self.<attr>` alias replaced by the
    symbolic value it holds in `env` (texts over the function's inputs); a walrus denotes its value and, with `bind`,
    is recorded in `env` at its place in the evaluation order."""

    class T(ast.NodeTransformer):
        def visit_NamedExpr(self, node):
            v = self.visit(node.value)
            if bind:
                env[node.target.id] = unparse(v) if len(unparse(v)) <= 600 else _UNKNOWN
            return v

        def visit_Name(self, node):
            if isinstance(node.ctx, ast.Load) and node.id in env:
                return _parse(env[node.id])
            return node

        def visit_Attribute(self, node):
            if isinstance(node.ctx, ast.Load) and unparse(node) in env:
                return _parse(env[unparse(node)])
            return self.generic_visit(node)

        def visit_Lambda(self, node):
            return node

    return T().visit(_parse(unparse(expr)))


def _fact_key(atom):
    return unparse(_subst(atom, {}))


def _consistent(facts):
    for k, v in facts:
        if (k, not v) in facts:
            return False
        if v and ((f"{k} is None", True) in facts or (f"None is {k}", True) in facts):
            return False
    return True


def _with_facts(facts, test, truth):
    out = frozenset(facts | {(_fact_key(a), v) for a, v in atoms(test, truth)})
    return out if _consistent(out) else None


def _header_nodes(node):
    """AST nodes of a statement without the statements nested in it (and without nested scopes)."""
    todo = [node]
    while todo:
        n = todo.pop()
        yield n
        for name, val in ast.iter_fields(n):
            if n is node and name in _HEADER_SKIP:
                continue
            for c in (val if isinstance(val, list) else [val]):
                if isinstance(c, ast.AST) and not isinstance(c, (ast.FunctionDef, ast.AsyncFunctionDef, ast.ClassDef, ast.Lambda)):
                    todo.append(c)


def _bind_call(h, call):
    """{parameter of h: argument expression} for `call`, or None (star arguments, missing argument)."""
    if any(isinstance(x, ast.Starred) for x in call.args) or any(k.arg is None for k in call.keywords):
        return None
    a = h.node.args
    if a.vararg is not None or a.kwarg is not None:
        return None
    pos = [x.arg for x in a.posonlyargs + a.args]
    out = {}
    defaults = dict(zip(reversed(pos), reversed(a.defaults)))
    for k, dv in zip(a.kwonlyargs, a.kw_defaults):
        if dv is not None:
            defaults[k.arg] = dv
    static = any(unparse(d) == "staticmethod" for d in h.decorators)
    if h.cls is not None and not static and pos and isinstance(call.func, ast.Attribute):
        out[pos[0]] = call.func.value
        pos = pos[1:]
    if len(call.args) > len(pos):
        return None
    for name, arg in zip(pos, call.args):
        out[name] = arg
    for k in call.keywords:
        if k.arg in out or k.arg not in pos + [x.arg for x in a.kwonlyargs]:
            return None
        out[k.arg] = k.value
    for name in pos + [x.arg for x in a.kwonlyargs]:
        if name not in out:
            if name not in defaults:
                return None
            out[name] = defaults[name]
    return out


def _expand(p, f, expr, facts, interest, depth):
    """[(facts, leaf expression)]: the operand that an `or` / `and` chain or a conditional expression evaluates to,
    with the truth facts under which it is chosen; a call of a single resolved helper of the program is inlined
    (`depth` levels) into the cases of its return value."""
    out = []
    if isinstance(expr, ast.BoolOp):
        stop_truth = isinstance(expr.op, ast.Or)  # `or` stops at the first truthy operand, `and` at the first falsy one
        fs = facts
        for i, v in enumerate(expr.values):
            if fs is None:
                break
            if i == len(expr.values) - 1:
                out.extend(_expand(p, f, v, fs, interest, depth))
                break
            chosen = _with_facts(fs, v, stop_truth)
            if chosen is not None:
                out.extend(_expand(p, f, v, chosen, interest, depth))
            fs = _with_facts(fs, v, not stop_truth)
        return out
    if isinstance(expr, ast.IfExp):
        for truth, branch_ in ((True, expr.body), (False, expr.orelse)):
            fs = _with_facts(facts, expr.test, truth)
            if fs is not None:
                out.extend(_expand(p, f, branch_, fs, interest, depth))
        return out
    if isinstance(expr, ast.Call) and depth > 0:
        try:
            qs = p.resolve_call(f, expr)
        except Exception:  # noqa: BLE001 -- an unresolvable call stays an opaque leaf
            qs = []
        h = p.functions.get(qs[0]) if len(qs) == 1 else None
        if h is not None and not h.is_async and isinstance(h.node, ast.FunctionDef) \
                and not any(isinstance(n, (ast.Yield, ast.YieldFrom)) for n in h.body_nodes()):
            args = _bind_call(h, expr)
            if args is not None:
                sub = _value_cases(p, h, {k: unparse(v) for k, v in args.items()}, _RET, interest, depth - 1, facts)
                if sub is not None:
                    return [(fs, leaf) for fs, leaf in sub if leaf is not None]
    return [(facts, expr)]


def _value_cases(p, f, env0, target, interest, depth=2, facts0=frozenset(), budget=3000):
    """Path-sensitive symbolic evaluation of a small function: [(facts, leaf expression | None)] -- for every
    feasible normal path to the exit, the operand that `target` (a `self.<attr>` text or the return value) finally
    denotes, expressed over the function's inputs, with the canonical truth facts (sfverif.facts atoms, locals
    substituted by their values) that hold on that path.  Only tests that mention one of the `interest` words are
    recorded (others merge at the join).  None when the function cannot be interpreted within `budget` states."""
    g = f.cfg
    word = re.compile(r"\b(" + "|".join(map(re.escape, interest)) + r")\b")
    start = (g.entry, tuple(sorted(env0.items())), frozenset(facts0))
    todo, seen, out = [start], {start}, []

    def push(st):
        if st not in seen:
            seen.add(st)
            todo.append(st)

    def assign(env, tgt, text):
        if len(text) > 600:
            text = _UNKNOWN
        if isinstance(tgt, ast.Name):
            env[tgt.id] = text
        elif isinstance(tgt, ast.Attribute) and is_name(tgt.value, "self"):
            k = unparse(tgt)
            if k == target or dotted(_parse(text)) is not None:
                env[k] = text  # the tracked attribute, or a plain alias (`self.deployment = deployment`)
            else:
                env.pop(k, None)
        else:
            for x in ast.walk(tgt):
                if isinstance(x, ast.Name) and isinstance(x.ctx, ast.Store):
                    env[x.id] = _UNKNOWN

    while todo:
        if len(seen) > budget:
            return None
        nid, envt, facts = todo.pop()
        n = g.nodes[nid]
        env = dict(envt)
        if nid == g.exit:
            v = env.get(target, "None" if target == _RET else None)
            if v is None:
                out.append((facts, None))
            else:
                out.extend(_expand(p, f, _parse(v), facts, interest, depth))
            continue
        a = n.ast
        sub = None
        if isinstance(a, (ast.FunctionDef, ast.AsyncFunctionDef, ast.ClassDef)):
            env[a.name] = _UNKNOWN
        elif a is not None:
            handled = set()
            if n.kind == "return":
                env[_RET] = unparse(_subst(a.value, env, bind=True)) if a.value is not None else "None"
            elif n.kind == "test":
                sub = _subst(a, env, bind=True)
            elif n.kind == "stmt" and isinstance(a, ast.Assign):
                text = unparse(_subst(a.value, env, bind=True))
                for t in a.targets:
                    assign(env, t, text)
                    handled.update(id(x) for x in ast.walk(t))
            elif n.kind == "stmt" and isinstance(a, ast.AnnAssign) and a.value is not None:
                assign(env, a.target, unparse(_subst(a.value, env, bind=True)))
                handled.update(id(x) for x in ast.walk(a.target))
            else:
                ws = [x for x in _header_nodes(a) if isinstance(x, ast.NamedExpr)]
                for x in sorted(ws, key=lambda x: (x.lineno, x.col_offset)):
                    _subst(x, env, bind=True)
            for x in _header_nodes(a):
                if isinstance(x, ast.NamedExpr):
                    handled.add(id(x.target))
            for x in _header_nodes(a):
                if id(x) in handled:
                    continue
                if isinstance(x, ast.Name) and isinstance(x.ctx, (ast.Store, ast.Del)):
                    env[x.id] = _UNKNOWN
                elif isinstance(x, ast.Attribute) and isinstance(x.ctx, (ast.Store, ast.Del)) and unparse(x) in env:
                    env[unparse(x)] = _UNKNOWN
                elif isinstance(x, ast.ExceptHandler) and x.name:
                    env[x.name] = _UNKNOWN
        if sub is not None and not word.search(unparse(sub)):
            sub = None
        envt = tuple(sorted(env.items()))
        for b, k in g.succ[nid]:
            if k not in ("n", "t", "f"):
                continue
            fs = facts
            if sub is not None and k in ("t", "f"):
                fs = _with_facts(facts, sub, k == "t")
                if fs is None:
                    continue  # contradicts what the path already established
            push((b, envt, fs))
    return out



def _workdir_order(p, ti, own, dep_p):
    """(holds, reason).  The value of `self.workdir` at the end of Target.__init__, by cases (every feasible path x
    every operand an `or`-chain / conditional expression / inlined private helper can yield): it is the own `workdir`
    argument unless that is known to be falsy (or None); it is the deployment's workdir unless the latter is known
    to be falsy too; both cases exist.  The spelling (one `or` chain, if statements that re-assign a local, several
    assignments of the attribute, a helper) does not matter, the order of preference does."""
    cases = _value_cases(p, ti, {}, "self.workdir", [own, dep_p])
    if cases is None:
        return False, "Target.__init__ is too large to evaluate `self.workdir` by cases"
    deps = (f"{dep_p}.workdir", f"self.{dep_p}.workdir")

    def absent(facts, names):
        return any((x, False) in facts or (f"{x} is None", True) in facts or (f"None is {x}", True) in facts for x in names)

    def where(facts):
        fs = sorted(f"{k} is {'true' if v else 'false'}" for k, v in facts)
        return ("when " + " and ".join(x[:60] for x in fs)) if fs else "unconditionally"

    kinds = set()
    for facts, leaf in cases:
        if leaf is None:
            return False, f"`self.workdir` is not assigned {where(facts)}"
        text = unparse(leaf)
        if text == own:
            kinds.add("own")
            continue
        if not absent(facts, (own,)):
            return False, f"{where(facts)} the value is `{text[:70]}` although the own `{own}` may be set"
        if text in deps:
            kinds.add("dep")
            continue
        if not absent(facts, deps):
            return False, f"{where(facts)} the value is `{text[:70]}` although the deployment's workdir may be set"
    if "own" not in kinds:
        return False, f"the own `{own}` is never stored"
    if "dep" not in kinds:
        return False, f"the deployment's workdir (`self.{dep_p}.workdir`) is never inherited"
    return True, ""


# --------------------------------------------------------------------------- R1


def _walk_loop(ctx, f, what):
    """The `for part in <path>.parts` loop of propagate/put and the descent statement inside it."""
    path_p = f.params[1]
    loops = [
        n
        for n in f.body_nodes()
        if isinstance(n, ast.For) and isinstance(n.iter, ast.Attribute) and n.iter.attr == "parts" and is_name(n.iter.value, path_p)
    ]
    ctx.require(len(loops) == 1 and is_name(loops[0].target), f"C28.{what}: walk over `{path_p}.parts` not found in {f.qualname}")
    loop = loops[0]
    part = loop.target.id
    descents = []
    for n in ast.walk(loop):
        if (
            isinstance(n, ast.Assign)
            and len(n.targets) == 1
            and is_name(n.targets[0])
            and isinstance(n.value, ast.Subscript)
            and is_name(n.value.slice, part)
            and isinstance(n.value.value, ast.Subscript)
            and const(n.value.value.slice) == "children"
            and is_name(n.value.value.value, n.targets[0].id)
        ):
            descents.append(n)
    ctx.require(len(descents) == 1, f"C28.{what}: descent `node = node['children'][{part}]` not found in {f.qualname}")
    return loop, descents[0], descents[0].targets[0].id


def r1(ctx):
    p = ctx.prog
    # ---- get_binding_config: the resolver and its arguments
    f = p.func(GBC)
    ctx.require(len(f.params) >= 3, "C28.R1: get_binding_config signature changed")
    name_p, type_p, wc_p = f.params[:3]
    srcs = []  # expressions whose ['targets'] is iterated
    for n in f.body_nodes():
        it = None
        if isinstance(n, (ast.For, ast.comprehension)):
            it = n.iter
        if it is not None and isinstance(it, ast.Subscript) and const(it.slice) == "targets":
            srcs.append(it.value)
    ctx.require(bool(srcs), "C28.R1: loop over `<config>['targets']` not found in get_binding_config")
    lookups = []
    for s in srcs:
        for o in origins(f, s):
            o = strip_await(o)
            ctx.require(isinstance(o, ast.Call), f"C28.R1: cannot interpret the origin of the binding `{unparse(o)}`")
            lookups.append(o)
    for c in lookups:
        ok = resolves_to(p, f, c, PROP)
        ctx.ob("R1", "get_binding_config resolves the binding with WorkflowConfig.propagate", ok, func=f, node=c,
               instance="gbc:resolver",
               message=f"binding resolved through `{unparse(c.func)}` ({', '.join(p.resolve_call(f, c))}) instead of "
                       "WorkflowConfig.propagate: a step without its own binding no longer inherits its ancestor's")
        a_path, a_name = kwarg(c, "path", 0), kwarg(c, "name", 1)
        ok_path = False
        if a_path is not None:
            for o in origins(f, a_path):
                ok_path = (
                    isinstance(o, ast.Call)
                    and resolves_to(p, f, o, "pathlib.PurePosixPath")
                    and len(o.args) == 1
                    and is_name(o.args[0], name_p)
                )
        ok_name = a_name is not None and all(is_name(o, type_p) for o in origins(f, a_name))
        a_def = kwarg(c, "default", 2)
        ok_def = a_def is None or const(a_def) is None
        ctx.ob("R1", "lookup uses PurePosixPath(<name>) and the requested target type, default None",
               ok_path and ok_name and ok_def, func=f, node=c, instance="gbc:lookup-args",
               message=f"lookup arguments of `{unparse(c)}` are not (PurePosixPath({name_p}), {type_p})")
    # ---- fallback to LocalTarget() exactly when nothing is bound
    cfgvars = {s.id for s in srcs if isinstance(s, ast.Name)}
    g = f.cfg

    def is_none(a):
        """canonical atom `<config> is None` (either operand order, walrus allowed)"""
        lr = _cmp_atom(a, ast.Is)
        if lr is None:
            return False
        x, y = lr
        return (is_name(x) and x.id in cfgvars and const(y) is None) or (is_name(y) and y.id in cfgvars and const(x) is None)

    # tests with an outcome that implies `<config> is None` (whatever the spelling: `is None`, `not ... is not None`,
    # swapped branches, a conjunct of `a and b`); `exact`: the other outcome implies `<config> is not None`
    tests = _tests_implying(g, is_none)
    exact = _tests_implying(g, is_none, exact=True)
    ctx.require(len(tests) >= 1, "C28.R1: `<config> is (not) None` test not found in get_binding_config")

    fallback = []
    for r in (n for n in f.body_nodes() if isinstance(n, ast.Return) and n.value is not None):
        # flow-sensitive: `ret = BindingConfig(...); return ret` in both branches is one value per return
        for o in _origins_at(f, r.value, r):
            if not (isinstance(o, ast.Call) and resolves_to(p, f, o, "streamflow.core.config.BindingConfig")):
                continue
            tg = kwarg(o, "targets", 0)
            elts = []
            if tg is not None:
                for oo in _origins_at(f, tg):
                    if isinstance(oo, ast.List):
                        elts = oo.elts
            if len(elts) == 1 and isinstance(elts[0], ast.Call) and resolves_to(p, f, elts[0], LOCAL) \
                    and not elts[0].args and not elts[0].keywords:
                fallback.append(r)
    # the fallback is reached only through the `is None` outcome of such a test ...
    ok = len(fallback) >= 1 and all(
        any(only_via(g, t.id, e, i) for t, e in tests for i in g.ids_of(r)) for r in fallback)
    ctx.ob("R1", "no binding on the path and its ancestors => BindingConfig(targets=[LocalTarget()])", ok, func=f,
           node=tests[0][0].ast, instance="gbc:fallback",
           message="the local-execution fallback is missing or not tied to the `no binding found` outcome")
    # ... and the `is None` outcome (of a test whose other outcome means `bound`) always ends in the fallback return
    fb_ids = [i for r in fallback for i in g.ids_of(r)]
    ctx.ob("R1", "the `no binding` outcome always ends in the LocalTarget fallback",
           bool(fb_ids) and any(all(must_pass(g, s, [g.exit], fb_ids) for s in branch(g, t.id, e)) for t, e in exact),
           func=f, node=tests[0][0].ast, instance="gbc:fallback-total")

    # ---- propagate: overwrite-and-continue walk
    f = p.func(PROP)
    ctx.require(len(f.params) >= 4, "C28.R1: WorkflowConfig.propagate signature changed")
    _, path_p, key_p, default_p = f.params[:4]
    loop, descent, nodevar = _walk_loop(ctx, f, "R1")
    g = f.cfg
    it = g.ids_of(loop)
    ctx.require(len(it) == 1, "C28.R1: propagate loop duplicated in the CFG")
    it = it[0]
    d_id = g.ids_of(descent)[0]
    rets = [n for n in f.body_nodes() if isinstance(n, ast.Return)]
    post = [r for r in rets if not within(r, loop)]
    ctx.require(len(post) >= 1 and all(is_name(r.value) for r in post) and len({r.value.id for r in post}) == 1,
                "C28.R1: propagate does not return a candidate variable after the walk")
    cand = post[0].value.id
    for r in rets:
        ctx.ob("R1", "every return of propagate yields the candidate (nearest ancestor so far)", is_name(r.value, cand),
               func=f, node=r, instance="propagate:return:" + ("in-walk" if within(r, loop) else "after-walk"),
               message=f"`{unparse(r)}` drops the value inherited from the ancestors (a step below the last declared "
                       "node would get the default instead of its nearest ancestor's binding)")
    ds = defs_of(f, cand)
    init = [d for d in ds if d.stmt is not None and not within(d.stmt, loop)]
    ctx.ob("R1", "the candidate starts as the caller's default", bool(init) and all(is_name(d.value, default_p) for d in init),
           func=f, node=init[0].stmt if init else f.node, instance="propagate:init")
    upd = [d for d in ds if d.stmt is not None and within(d.stmt, loop)]
    ctx.ob("R1", "the candidate is overwritten inside the walk", bool(upd), func=f, node=loop, instance="propagate:overwrites",
           message="propagate never updates its candidate while descending: deeper bindings are ignored")
    for d in upd:
        v = d.value
        a_id = g.ids_of(d.stmt)[0]
        form = None
        if isinstance(v, ast.Subscript) and is_name(v.value, nodevar) and is_name(v.slice, key_p):
            form = "subscript"
        elif isinstance(v, ast.Call) and isinstance(v.func, ast.Attribute) and v.func.attr == "get" and is_name(v.func.value, nodevar) \
                and len(v.args) == 2 and is_name(v.args[0], key_p) and is_name(v.args[1], cand):
            form = "get"
        ctx.ob("R1", "the candidate is taken from the current node under the requested key", form is not None, func=f,
               node=d.stmt, instance="propagate:source", message=f"`{unparse(d.stmt)}` does not read `{nodevar}[{key_p}]`")
        okg = form == "get"  # dict.get(key, candidate) keeps the candidate when the key is absent
        if form == "subscript":
            def has_key(a):
                lr = _cmp_atom(a, ast.In)
                return lr is not None and is_name(lr[0], key_p) and is_name(lr[1], nodevar)

            # exact: `if name in node and <more>:` is not "exactly when the node carries the key"
            okg = any(only_via(g, t.id, e, a_id) for t, e in _tests_implying(g, has_key, exact=True))
        ctx.ob("R1", "overwrite happens exactly when the node carries the key", okg, func=f, node=d.stmt,
               instance="propagate:guard")
        ctx.ob("R1", "the node is entered before its own binding is examined (own path wins)",
               g.path(it, [a_id], avoid=[d_id]) is None, func=f, node=d.stmt, instance="propagate:descent-first",
               message="the candidate is read before descending: a step's own binding is not seen")
        w = g.escape(a_id, [it])
        ctx.ob("R1", "the walk continues after a hit (the last hit wins)", w is None, func=f, node=d.stmt,
               instance="propagate:continues", message="propagate leaves the walk at the first bound ancestor",
               witness=g.describe(w) if w else [])
    # the descent goes into the child named by the path component: verified by _walk_loop; starts at the root
    roots = [d for d in defs_of(f, nodevar) if d.stmt is not None and not within(d.stmt, loop)]
    ctx.ob("R1", "the walk starts at the root of the binding tree",
           bool(roots) and all(unparse(d.value) == "self.filesystem" for d in roots), func=f,
           node=roots[0].stmt if roots else f.node, instance="propagate:root")
    # ---- nobody resolves step/port bindings through the exact-match `get`
    bad = []
    for cf, c in p.calls_by_attr("get"):
        nm = kwarg(c, "name", 1)
        if nm is None or const(nm) not in ("step", "port"):
            continue
        if resolves_to(p, cf, c, GET):
            bad.append((cf, c))
    ctx.ob("R1", "no step/port binding is looked up with the exact-match WorkflowConfig.get anywhere", not bad,
           func=bad[0][0] if bad else p.func(GET), node=bad[0][1] if bad else None, instance="program:get-lookup",
           message="a step/port binding is resolved with WorkflowConfig.get (no ancestor inheritance)")


# --------------------------------------------------------------------------- R2


def _wraps_walk(ctx, f, what):
    """The `while` that follows `wraps`: (while node, walrus name of wraps, receiver name, advance Assign)."""
    loops = []
    for n in f.body_nodes():
        if not isinstance(n, ast.While):
            continue
        for x in ast.walk(n.test):
            if isinstance(x, ast.NamedExpr) and isinstance(x.value, ast.Call) and isinstance(x.value.func, ast.Attribute) \
                    and x.value.func.attr == "get" and x.value.args and const(x.value.args[0]) == "wraps" \
                    and is_name(x.value.func.value):
                loops.append((n, x.target.id, x.value.func.value.id))
    ctx.require(len(loops) == 1, f"C28.{what}: `while (wraps := <d>.get('wraps')) ...` walk not found in {f.qualname}")
    loop, wvar, dvar = loops[0]
    adv = [
        n for n in ast.walk(loop)
        if isinstance(n, ast.Assign) and len(n.targets) == 1 and is_name(n.targets[0], dvar)
        and isinstance(n.value, ast.Subscript) and isinstance(n.value.value, ast.Attribute) and n.value.value.attr == "deployments"
    ]
    ctx.require(len(adv) == 1, f"C28.{what}: advance `{dvar} = <config>.deployments[...]` not found in {f.qualname}")
    return loop, wvar, dvar, adv[0]


def _norm_key(adv: ast.Assign, wvar: str) -> str:
    key = ast.parse(unparse(adv.value.slice), mode="eval").body
    for x in ast.walk(key):
        if isinstance(x, ast.Name) and x.id == wvar:
            x.id = "W"
    return unparse(key)


def r2(ctx):
    p = ctx.prog
    # ---- the check is on every normal path of the constructor, after the last write of self.deployments
    init = p.func(f"{WC}.__init__")
    g = init.cfg
    calls = [n.id for n in g.nodes.values() if any(resolves_to(p, init, c, CHECK) for c in n.calls())]
    w = g.escape(g.entry, calls) if calls else [g.entry, g.exit]
    ctx.ob("R2", "WorkflowConfig.__init__ runs _check_stacked_deployments on every normal path", bool(calls) and w is None,
           func=init, node=init.node, instance="init:check-on-all-paths",
           message="a WorkflowConfig can be constructed without the wraps-cycle check (cyclic chains make _get_workdir loop forever)",
           witness=g.describe(w) if w else [])
    writes = [
        n.id for n in g.nodes.values()
        if n.kind == "stmt" and isinstance(n.ast, (ast.Assign, ast.AnnAssign, ast.AugAssign))
        and any(unparse(t) == "self.deployments" for t in (n.ast.targets if isinstance(n.ast, ast.Assign) else [n.ast.target]))
    ]
    ctx.require(bool(writes), "C28.R2: WorkflowConfig.__init__ never assigns self.deployments")
    late = [wr for wr in writes if calls and wr in g.reach(calls)]
    ctx.ob("R2", "self.deployments is final when the cycle check runs", not late, func=init,
           node=g.nodes[late[0]].ast if late else init.node, instance="init:check-after-writes",
           message="self.deployments is re-assigned after the cycle check")
    # ---- the checker's walk
    f = p.func(CHECK)
    g = f.cfg
    loop, wvar, dvar, adv = _wraps_walk(ctx, f, "R2")
    wt = g.ids_of(loop.test)
    ctx.require(len(wt) == 1, "C28.R2: while test duplicated")
    wt = wt[0]
    adv_id = g.ids_of(adv)[0]
    body_first = branch(g, wt, "t")

    def set_defs(v):
        return [d for d in defs_of(f, v) if d.kind == "assign" and (
            isinstance(d.value, ast.Set) or (isinstance(d.value, ast.Call) and is_name(d.value.func, "set")))]

    def member(a):
        """canonical atom `<key> in <local set>`"""
        lr = _cmp_atom(a, ast.In)
        return lr is not None and is_name(lr[1]) and bool(set_defs(lr[1].id))

    # the visited test: a test of the walk one outcome of which implies `<key> not in <visited>` (the `new deployment`
    # outcome), spelled `in`/`not in`/`not (.. in ..)`, with either branch order or as a guard clause.  Every revisit
    # necessarily takes the *other* outcome, which is therefore the one that has to raise.
    members = []
    for n, miss in _tests_implying(g, member, truth=False, scope=loop):
        if n.ast is loop.test:
            continue
        atom = next(a for a, v in atoms(n.ast, miss == "t") if v is False and member(a))
        k, vs = _cmp_atom(atom, ast.In)
        members.append((n, miss, k, vs.id, set_defs(vs.id)))
    ctx.ob("R2", "the wraps walk tests each reached deployment against a visited set", len(members) == 1, func=f, node=loop,
           instance="check:visited-test", message="the wraps walk carries no visited-set membership test: cyclic chains are "
           "not rejected (and the walk never ends)")
    if len(members) != 1:
        # the dependent clauses cannot hold without the test; keep them as (failed) instances so that the report is
        # a violation naming the construct rather than a floor error
        for inst in ("visited-fresh", "every-iteration", "advanced-key", "raise", "add"):
            ctx.ob("R2", f"visited-set discipline ({inst})", False, func=f, node=loop, instance=f"check:{inst}",
                   message="no visited-set membership test in the wraps walk")
        _gwd_reachability(ctx, p, loop_key=None)
        return
    mt, miss_edge, key, vis, setdefs = members[0]
    hit_edge = _other(miss_edge)
    # fresh per start deployment
    outer = [a for a in [n for n in f.body_nodes() if isinstance(n, ast.For)] if within(loop, a)]
    ctx.require(len(outer) >= 1, "C28.R2: the wraps walk is not inside the loop over deployments")
    fresh = all(any(within(d.stmt, o) for o in outer) for d in setdefs) and not any(within(d.stmt, loop) for d in setdefs)
    ctx.ob("R2", "the visited set is created anew for every start deployment (and not inside the walk)", fresh, func=f,
           node=setdefs[0].stmt, instance="check:visited-fresh",
           message="the visited set is shared between start deployments (two deployments wrapping the same parent are "
                   "reported as a cycle) or reset inside the walk (cycles are never seen)")
    # every iteration is tested, after advancing, on the advanced deployment
    ctx.ob("R2", "every iteration of the walk passes the visited test", all(must_pass(g, s, [wt], [mt.id]) for s in body_first),
           func=f, node=mt.ast, instance="check:every-iteration")
    # the key may be held in a temporary (`name = deployment['name']; if name in seen`): then the temporary must be
    # (re)assigned after the advance in every iteration, too
    key_src, key_fresh = [key], True
    if is_name(key) and key.id != dvar:
        kd = defs_of(f, key.id)
        key_fresh = bool(kd) and all(
            d.kind == "assign" and d.index is None and within(d.stmt, loop)
            and must_pass(g, wt, g.ids_of(d.stmt), [adv_id]) for d in kd
        ) and must_pass(g, wt, [mt.id], [i for d in kd for i in g.ids_of(d.stmt)])
        key_src = [d.value for d in kd if d.value is not None]
    ctx.ob("R2", "the visited test examines the deployment just reached",
           must_pass(g, wt, [mt.id], [adv_id]) and key_fresh
           and all(dvar in {x.id for x in ast.walk(k) if isinstance(x, ast.Name)} for k in key_src),
           func=f, node=mt.ast, instance="check:advanced-key")
    # revisit -> raise WorkflowDefinitionException
    hit = branch(g, mt.id, hit_edge)
    raises = [g.nodes[i] for i in g.reach(hit, include_src=True) if g.nodes[i].kind == "raise_stmt"]
    ok_raise = leads_only_to_raise(g, hit, stop=[wt]) and bool(raises) and all(
        r.ast.exc is not None and resolves_to(p, f, r.ast.exc, WDE) for r in raises)
    ctx.ob("R2", "a revisited deployment raises WorkflowDefinitionException", ok_raise, func=f, node=mt.ast,
           instance="check:raise", message="a revisit of a deployment in the wraps chain does not end in a "
           "WorkflowDefinitionException")
    # miss -> recorded before the next iteration
    key_texts = {unparse(key)} | {unparse(k) for k in key_src}
    adds = [
        n.id for n in g.nodes.values()
        if any(isinstance(c.func, ast.Attribute) and c.func.attr == "add" and is_name(c.func.value, vis)
               and len(c.args) == 1 and unparse(c.args[0]) in key_texts for c in n.calls())
    ]
    ok_add = bool(adds) and all(must_pass(g, s, [wt], adds) for s in branch(g, mt.id, miss_edge))
    ctx.ob("R2", "a new deployment is recorded in the visited set before the walk continues", ok_add, func=f, node=mt.ast,
           instance="check:add", message=f"`{vis}.add({unparse(key)})` is missing on a path back to the loop test: a cycle "
           "that does not contain the start deployment is never detected")
    _gwd_reachability(ctx, p, loop_key=_norm_key(adv, wvar))


def _gwd_reachability(ctx, p, loop_key):
    """_get_workdir: only reachable through a constructed WorkflowConfig; same chain as the checker."""
    gw = p.func(GWD)
    sites = [(cf, c) for cf, c in p.calls_by_attr("_get_workdir")]
    gbc = p.func(GBC)
    if not sites:
        ctx.ob("R2", "_get_workdir has no caller (its unbounded walk is unreachable)", True, func=gw, node=gw.node,
               instance="gwd-caller:none", trivial=True)
    for cf, c in sites:
        ok = cf.qualname == GBC and len(c.args) >= 2 and is_name(c.args[1], gbc.params[2]) \
            and p.ann_to_class(gbc.module, gbc.param_annotation(gbc.params[2])) == WC
        ctx.ob("R2", "_get_workdir is called only by get_binding_config on its WorkflowConfig", ok, func=cf, node=c,
               instance=f"gwd-caller:{cf.qualname}",
               message="_get_workdir (unbounded walk over wraps) is reachable without a cycle-checked WorkflowConfig")
    _, wvar2, _, adv2 = _wraps_walk(ctx, gw, "R2")
    k1, k2 = loop_key, _norm_key(adv2, wvar2)
    if k1 is None:
        chk = p.func(CHECK)
        _, wv, _, adv1 = _wraps_walk(ctx, chk, "R2")
        k1 = _norm_key(adv1, wv)
    ctx.ob("R2", "checker and _get_workdir follow the wraps chain with the same key expression",
           k1 == k2 and "'deployment'" in k1, func=gw, node=adv2, instance="wraps-key-agreement",
           message=f"cycle check follows `{k1}` but _get_workdir follows `{k2}`")


# --------------------------------------------------------------------------- R3


def r3(ctx):
    p = ctx.prog
    f = p.func(GBC)
    wc_p = f.params[2]
    tcalls = [c for c in f.calls() if resolves_to(p, f, c, TARGET)]
    ctx.require(len(tcalls) >= 1, "C28.R3: get_binding_config no longer builds Target objects")
    for c in tcalls:
        bs = [
            (t, it) for n in ast.walk(f.node) if isinstance(n, (ast.For, ast.comprehension))
            for t, it in [(n.target, n.iter)]
            if isinstance(it, ast.Subscript) and const(it.slice) == "targets" and is_name(t)
            and (isinstance(n, ast.comprehension) or within(c, n))
        ]
        ctx.require(len(bs) >= 1, "C28.R3: Target(...) is not built inside the loop over the declared targets")
        tvar = bs[0][0].id
        wd = kwarg(c, "workdir", 3)
        own = False
        if wd is not None:
            os_ = [o for o in origins(f, wd) if const(o) is not None]
            own = bool(os_) and all(
                isinstance(o, ast.Call) and isinstance(o.func, ast.Attribute) and o.func.attr == "get"
                and is_name(o.func.value, tvar) and o.args and const(o.args[0]) == "workdir" for o in os_)
        ctx.ob("R3", "Target receives the declared target's own workdir", own, func=f, node=c, instance="gbc:own-workdir",
               message="Target(workdir=...) does not come from `<target>.get('workdir')`")
        dep = kwarg(c, "deployment", 0)
        ok_dep = False
        msg = "Target(deployment=...) is not a DeploymentConfig built in get_binding_config"
        if dep is not None:
            for o in origins(f, dep):
                if not (isinstance(o, ast.Call) and resolves_to(p, f, o, "streamflow.core.deployment.DeploymentConfig")):
                    continue
                dwd = kwarg(o, "workdir")
                nm = kwarg(o, "name", 0)
                if dwd is None or not resolves_to(p, f, dwd, GWD):
                    msg = "DeploymentConfig(workdir=...) is not computed by _get_workdir (workdir is not inherited along wraps)"
                    continue
                gcall = strip_await(dwd)
                a0 = gcall.args[0] if gcall.args else None
                a1 = gcall.args[1] if len(gcall.args) > 1 else None
                # the deployment handed to _get_workdir is the one looked up for this target (same variable as name=)
                same = a0 is not None and isinstance(nm, ast.Subscript) and const(nm.slice) == "name" and unparse(nm.value) == unparse(a0)
                looked_up = a0 is not None and all(
                    isinstance(x, ast.Subscript) and unparse(x.value) == f"{wc_p}.deployments"
                    and isinstance(x.slice, ast.Subscript) and is_name(x.slice.value, tvar)
                    and const(x.slice.slice) in ("deployment", "model")
                    for x in origins(f, a0))
                ok_dep = same and looked_up and is_name(a1, wc_p)
                if not ok_dep:
                    msg = f"_get_workdir is not applied to the deployment of this target: `{unparse(gcall)}`"
        ctx.ob("R3", "the deployment workdir is _get_workdir(<deployment of this target>, workflow_config)", ok_dep, func=f,
               node=c, instance="gbc:deployment-workdir", message=msg)
    # ---- Target.__init__: own workdir first, then the deployment's
    ti = p.func(f"{TARGET}.__init__")
    asg = [
        n for n in ti.body_nodes()
        if isinstance(n, (ast.Assign, ast.AnnAssign))
        and any(unparse(t) == "self.workdir" for t in (n.targets if isinstance(n, ast.Assign) else [n.target]))
    ]
    ctx.require(len(asg) >= 1 and all(a.value is not None for a in asg), "C28.R3: Target.__init__ does not assign self.workdir")
    ctx.require("workdir" in ti.params and "deployment" in ti.params, "C28.R3: Target.__init__ signature changed")
    ok, why = _workdir_order(p, ti, "workdir", "deployment")
    ctx.ob("R3", "Target.workdir = own workdir, else the deployment's, else a default", ok, func=ti, node=asg[0],
           instance="target:workdir-order", message=f"{why}: `self.workdir` does not prefer the own workdir over the inherited one")
    # ---- _get_workdir: own first, continue only while None, return it
    gw = p.func(GWD)
    g = gw.cfg
    loop, wvar, dvar, adv = _wraps_walk(ctx, gw, "R3")
    ctx.require(gw.params and gw.params[0] == dvar, "C28.R3: _get_workdir does not walk from its first parameter")
    t = loop.test
    # Branch facts instead of the spelling: the outcome `continue the walk` (test true) must imply exactly the two
    # canonical atoms `(workdir := d.get('workdir')) is None` = True and `(wraps := d.get('wraps')) is None` = False,
    # in this evaluation order (the own workdir is bound before the short-circuit on wraps can skip it).  Accepts
    # `is not None` / `not (.. is None)` / `not (wd is not None or wraps is None)` / `None is ..`; rejects `or`
    # (a true disjunction stays one compound atom), inverted polarity, swapped order, dropped or extra conjuncts.
    cont = [(_none_walrus(a), v) for a, v in atoms(t, True)]
    shape = len(cont) == 2 and all(w is not None for w, _ in cont)
    (wd_w, wd_truth), (wr_w, wr_truth) = cont if shape else ((None, None), (None, None))
    wd_var = wd_w.target.id if shape else None
    ok_test = (
        shape
        and wd_truth is True
        and wr_truth is False
        and wr_w.target.id == wvar
        and isinstance(wd_w.value, ast.Call)
        and isinstance(wd_w.value.func, ast.Attribute)
        and wd_w.value.func.attr == "get"
        and is_name(wd_w.value.func.value, dvar)
        and bool(wd_w.value.args)
        and const(wd_w.value.args[0]) == "workdir"
    )
    ctx.ob("R3", "_get_workdir reads the own workdir first and follows wraps only while it is None", ok_test, func=gw, node=loop,
           instance="gwd:loop-test",
           message=f"loop condition `{unparse(t)[:100]}` is not `(workdir := d.get('workdir')) is None and (wraps := d.get('wraps')) is not None`")
    rets = [r for r in gw.body_nodes() if isinstance(r, ast.Return)]
    ctx.require(bool(rets), "C28.R3: _get_workdir has no return")
    ok_ret = all(
        r.value is not None and (is_name(r.value, wd_var) or unparse(r.value) == f"{dvar}.get('workdir')") for r in rets
    ) and all(not within(r, loop) for r in rets)
    ctx.ob("R3", "_get_workdir returns the workdir found at the end of the walk", ok_ret, func=gw, node=rets[0],
           instance="gwd:return")
    wt = g.ids_of(loop.test)[0]
    ctx.ob("R3", "the chain is advanced only after the own workdir was examined", g.dominates(wt, g.ids_of(adv)[0]), func=gw,
           node=adv, instance="gwd:own-first")


# --------------------------------------------------------------------------- R4


def r4(ctx):
    p = ctx.prog
    # ---- put: value stored at the node reached after the whole walk
    f = p.func(PUT)
    ctx.require(len(f.params) >= 4, "C28.R4: WorkflowConfig.put signature changed")
    _, path_p, key_p, val_p = f.params[:4]
    loop, descent, nodevar = _walk_loop(ctx, f, "R4")
    g = f.cfg
    stores = [
        n for n in f.body_nodes()
        if isinstance(n, ast.Assign) and len(n.targets) == 1 and isinstance(n.targets[0], ast.Subscript)
        and is_name(n.targets[0].value, nodevar) and is_name(n.targets[0].slice, key_p)
    ]
    ok = len(stores) == 1 and is_name(stores[0].value, val_p) and not within(stores[0], loop)
    if ok:
        it = g.ids_of(loop)[0]
        sid = g.ids_of(stores[0])[0]
        ok = g.dominates(it, sid) and it not in g.reach([sid])
    ctx.ob("R4", "put stores the value under the key at the node of the full path", ok, func=f,
           node=stores[0] if stores else f.node, instance="put:store",
           message="put does not store `node[name] = value` once, after walking the whole path")
    ctx.ob("R4", "put walks from the root of the binding tree",
           all(unparse(d.value) == "self.filesystem" for d in defs_of(f, nodevar) if d.stmt is not None and not within(d.stmt, loop)),
           func=f, node=f.node, instance="put:root")
    # ---- writers of the "step"/"port" keys
    pb = p.func(f"{WC}._process_binding")
    for cf, c in p.calls_by_attr("put"):
        if not resolves_to(p, cf, c, PUT):
            continue
        nm = kwarg(c, "name", 1)
        if cf.qualname == pb.qualname:
            # name is 'step' iff the binding has a `step` key; the path comes from the same key
            kinds = {const(o) for o in (origins(cf, nm) if nm is not None else [])}
            pa = kwarg(c, "path", 0)
            keys = set()
            for o in (origins(cf, pa) if pa is not None else []):
                for x in ast.walk(o):
                    if isinstance(x, ast.Subscript) and is_name(x.value, pb.params[1]) and isinstance(const(x.slice), str):
                        keys.add(const(x.slice))
            ctx.ob("R4", "_process_binding files the binding under its own step/port path and kind",
                   kinds == {"step", "port"} and keys == {"step", "port"}, func=cf, node=c, instance="process_binding:put",
                   message=f"binding stored under kinds {sorted(map(str, kinds))} with path keys {sorted(keys)}")
        else:
            k = const(nm) if nm is not None else ...
            ctx.ob("R4", "other writers of the binding tree do not touch the step/port keys",
                   isinstance(k, str) and k not in ("step", "port"), func=cf, node=c, instance=f"put-caller:{cf.qualname}",
                   message="a second writer files values under the step/port keys of the binding tree")
    # ---- set_targets
    st = p.func(f"{CFGM}.set_targets")
    ctx.require(len(st.params) == 2, "C28.R4: set_targets signature changed")
    node_p, tgt_p = st.params
    g = st.cfg
    loops = [n for n in st.body_nodes() if isinstance(n, ast.For) and is_name(n.target)]
    ctx.require(len(loops) == 1, "C28.R4: set_targets loop over the children not found")
    child = loops[0].target.id
    stores = [
        n for n in st.body_nodes()
        if isinstance(n, ast.Assign) and any(isinstance(t, ast.Subscript) and const(t.slice) == "step" for t in n.targets)
    ]
    ctx.require(bool(stores), "C28.R4: set_targets no longer writes node['step']")
    for s in stores:
        sid = g.ids_of(s)[0]

        def has_step(a):
            lr = _cmp_atom(a, ast.In)
            return lr is not None and const(lr[0]) == "step" and is_name(lr[1], child)

        # reached only through an outcome that implies `'step' not in <child>` (any spelling / branch order)
        okg = any(only_via(g, t.id, e, sid) for t, e in _tests_implying(g, has_step, truth=False))
        okv = is_name(s.value, tgt_p) and all(isinstance(t, ast.Subscript) and is_name(t.value, child) for t in s.targets)
        ctx.ob("R4", "set_targets fills in the inherited target only where no explicit binding exists", okg and okv, func=st,
               node=s, instance="set_targets:guard",
               message="set_targets overwrites explicit step bindings (or writes a value other than the parent's target)")
    rec = [c for c in st.calls() if resolves_to(p, st, c, st.qualname)]
    ctx.require(bool(rec), "C28.R4: set_targets is no longer recursive")
    for c in rec:
        ok = len(c.args) == 2 and is_name(c.args[0], child) and isinstance(c.args[1], ast.Subscript) \
            and is_name(c.args[1].value, child) and const(c.args[1].slice) == "step"
        ctx.ob("R4", "set_targets hands each node's own effective target to its children", ok, func=st, node=c,
               instance="set_targets:recursion",
               message=f"`{unparse(c)}` does not recurse with the node's own effective target: grandchildren of a bound "
                       "step inherit from the wrong ancestor")

    # ---- inheritance is materialised once the tree is complete
    wc = p.cls(WC)
    inserters = {PUT}
    grew = True
    while grew:
        grew = False
        for m in wc.methods.values():
            if m.name != "__init__" and m.qualname not in inserters and any(resolves_to(p, m, c, *inserters) for c in m.calls()):
                inserters.add(m.qualname)
                grew = True
    sites = [(cf, c) for cf, c in p.callers(st.qualname) if cf.qualname != st.qualname]
    ctx.ob("R4", "WorkflowConfig.__init__ materialises the inherited targets", any(cf.qualname == f"{WC}.__init__" for cf, _ in sites),
           func=p.func(f"{WC}.__init__"), node=None, instance="set_targets:called",
           message="WorkflowConfig.__init__ no longer calls set_targets")
    for cf, c in sites:
        a0, a1 = kwarg(c, node_p, 0), kwarg(c, tgt_p, 1)
        ok_args = a0 is not None and a1 is not None and all(unparse(o) == "self.filesystem" for o in origins(cf, a0)) \
            and all(const(o) is None for o in origins(cf, a1))
        ctx.ob("R4", "target inheritance starts at the root of the binding tree with no inherited target", ok_args, func=cf, node=c,
               instance=f"set_targets-root:{cf.qualname}",
               message=f"`{unparse(c)}` does not start at `self.filesystem` with target None")
        cg = cf.cfg
        st_ids = cg.node_containing(c)
        ctx.require(bool(st_ids), f"C28.R4: set_targets call of {cf.qualname} not found in its CFG")
        after = cg.reach(st_ids)
        late = [n for n in cg.nodes.values() if n.id in after and any(resolves_to(p, cf, k, *inserters) for k in n.calls())]
        wit = cg.path(st_ids[0], [late[0].id]) if late else None
        ctx.ob("R4", "target inheritance runs after all bindings were inserted (no insertion can follow set_targets)", not late,
               func=cf, node=c, instance=f"set_targets-final:{cf.qualname}",
               message=f"`{unparse(c)}` can be followed by `{late[0].text()[:70] if late else ''}`: set_targets never overwrites, so "
                       "targets inherited on the half-built tree shadow a binding inserted later (a deeper binding listed "
                       "before its ancestor's keeps the stale target)",
               witness=cg.describe(wit) if wit else [])


# --------------------------------------------------------------------------- R5

_MUTATORS = {
    "add", "append", "appendleft", "extend", "insert", "update", "setdefault", "pop", "popitem", "clear", "remove", "discard",
    "__setitem__", "__delitem__", "__setattr__",
}
_MEMO_WORDS = ("cache", "memo", "lru")
_CONTAINERS = {"dict", "list", "set", "bytearray", "defaultdict", "OrderedDict", "Counter", "deque", "ChainMap",
               "WeakValueDictionary", "WeakKeyDictionary", "WeakSet"}


def _root_name(e):
    while isinstance(e, (ast.Attribute, ast.Subscript)):
        e = e.value
    return e.id if isinstance(e, ast.Name) else None


def _local_names(f):
    out = set(f.params)
    declared = set()
    for n in ast.walk(f.node):
        if isinstance(n, ast.Name) and isinstance(n.ctx, (ast.Store, ast.Del)):
            out.add(n.id)
        elif isinstance(n, (ast.FunctionDef, ast.AsyncFunctionDef, ast.ClassDef)) and n is not f.node:
            out.add(n.name)
        elif isinstance(n, ast.arg):
            out.add(n.arg)
        elif isinstance(n, ast.ExceptHandler) and n.name:
            out.add(n.name)
        elif isinstance(n, (ast.Import, ast.ImportFrom)):
            out.update((a.asname or a.name).split(".")[0] for a in n.names)
        elif isinstance(n, (ast.Global, ast.Nonlocal)):
            declared.update(n.names)
    return out - declared, declared


def _state_leaks(p, f):
    """Ways in which `f` keeps something beyond one call: [(ast node, description)]."""
    out = []
    for d in f.decorators:
        target = d.func if isinstance(d, ast.Call) else d
        names = [unparse(target)] + [q for q in (p.resolve_call(f, d) if isinstance(d, ast.Call) else [])]
        full = f.module.imports.get(_root_name(target) or "", "")
        if any(w in (nm + " " + full).lower() for nm in names for w in _MEMO_WORDS):
            out.append((d, f"memoising decorator `@{unparse(d)}`"))
    a = f.node.args
    for dflt in list(a.defaults) + [k for k in a.kw_defaults if k is not None]:
        ctor = (dotted(dflt.func) or "").rpartition(".")[2] if isinstance(dflt, ast.Call) else ""
        if isinstance(dflt, (ast.Dict, ast.List, ast.Set, ast.DictComp, ast.ListComp, ast.SetComp)) or ctor in _CONTAINERS \
                or any(w in ctor.lower() for w in _MEMO_WORDS):
            out.append((dflt, f"mutable default argument `{unparse(dflt)}` (shared by all calls)"))
    local, declared = _local_names(f)
    if declared:
        out.append((f.node, f"`global`/`nonlocal` declaration of {sorted(declared)}"))
    for n in ast.walk(f.node):
        tgts = []
        if isinstance(n, ast.Assign):
            tgts = n.targets
        elif isinstance(n, (ast.AugAssign, ast.AnnAssign)):
            tgts = [n.target]
        elif isinstance(n, ast.Delete):
            tgts = n.targets
        elif isinstance(n, ast.NamedExpr):
            tgts = [n.target]
        flat = []
        for t in tgts:
            flat.extend(t.elts if isinstance(t, (ast.Tuple, ast.List)) else [t])
        for t in flat:
            if isinstance(t, ast.Starred):
                t = t.value
            if isinstance(t, (ast.Attribute, ast.Subscript)):
                r = _root_name(t)
                if r is not None and r not in local:
                    out.append((n, f"store into module-level state `{unparse(t)}`"))
        if isinstance(n, ast.Call) and isinstance(n.func, ast.Attribute) and n.func.attr in _MUTATORS:
            r = _root_name(n.func.value)
            if r is not None and r not in local:
                out.append((n, f"mutation of module-level state `{unparse(n.func)}(...)`"))
    return out


def _resolvers(p):
    mods = (CFGM, DU)
    todo = [GBC, GWD, f"{CFGM}.set_targets"] + [m.qualname for m in p.cls(WC).methods.values()]
    seen = {}
    while todo:
        q = todo.pop()
        if q in seen or q not in p.functions:
            continue
        f = p.functions[q]
        if f.module.name not in mods:
            continue
        seen[q] = f
        for n in ast.walk(f.node):
            if isinstance(n, ast.Call):
                ef = p.enclosing_func(n) or f
                todo.extend(x for x in p.resolve_call(ef, n) if x.rpartition(".")[0].startswith(mods))
            elif isinstance(n, (ast.FunctionDef, ast.AsyncFunctionDef, ast.Lambda)) and n is not f.node:
                nq = f"{q}.<locals>.{getattr(n, 'name', '')}"
                todo.append(nq)
    return [seen[q] for q in sorted(seen)]


def r5(ctx):
    p = ctx.prog
    fs = _resolvers(p)
    ctx.require({GBC, GWD, PROP} <= {f.qualname for f in fs}, "C28.R5: get_binding_config / _get_workdir / propagate not found")
    for f in fs:
        leaks = _state_leaks(p, f)
        ctx.ob("R5", f"{f.qualname} keeps no state outside the configuration it is given", not leaks, func=f,
               node=leaks[0][0] if leaks else f.node, instance=f"stateless:{f.qualname}",
               message=f"{leaks[0][1] if leaks else ''}: a binding / working directory resolved for one configuration is "
                       "reused for the next one in the same process (resolution result memoised across configurations)")


RULES = [("R1", r1), ("R2", r2), ("R3", r3), ("R4", r4), ("R5", r5)]
FLOORS = {"R1": 14, "R2": 10, "R3": 6, "R4": 9, "R5": 9}

_FALLBACK_OLD = "        return BindingConfig(targets=targets, filters=[FilterConfig(name=c.name, type=c.type, config=c.config) for c in config.get('filters')])\n    else:\n        return BindingConfig(targets=[LocalTarget()])"

_TEMPRET_NEW = (
    "        _sf_ret = BindingConfig(targets=targets, filters=[FilterConfig(name=c.name, type=c.type, config=c.config) "
    "for c in config.get('filters')])\n        return _sf_ret\n    else:\n"
    "        _sf_ret = BindingConfig(targets=[LocalTarget()])\n        return _sf_ret"
)
_VISITED_OLD = (
    "if deployment['name'] in deployments:\n                raise WorkflowDefinitionException(f'The deployment "
    "`{deployment['name']}` leads to a circular reference: Recursive deployment definitions are not allowed.')\n"
    "            else:\n                deployments.add(deployment['name'])"
)

_GWD_TEST_OLD = "while (workdir := deployment.get('workdir')) is None and (wraps := deployment.get('wraps')) is not None:"

_TWD_DEFAULT = ("(os.path.join(os.path.realpath(tempfile.gettempdir()), 'streamflow') if deployment.type == 'local' else "
                "posixpath.join('/tmp', 'streamflow'))")
_TWD_OLD = "self.workdir: str = workdir or self.deployment.workdir or " + _TWD_DEFAULT
_TWD_IFS = (
    "if not workdir:\n        workdir = self.deployment.workdir\n    if not workdir:\n        if deployment.type == 'local':\n"
    "            workdir = os.path.join(os.path.realpath(tempfile.gettempdir()), 'streamflow')\n        else:\n"
    "            workdir = posixpath.join('/tmp', 'streamflow')\n    self.workdir: str = workdir"
)
_TWD_HELPER = (
    "def _pick_workdir(own, deployment):\n    if own:\n        return own\n    inherited = deployment.workdir\n"
    "    if inherited:\n        return inherited\n    return posixpath.join('/tmp', 'streamflow')\n"
)

VARIANTS = [
    # ---- R1
    V("get instead of propagate", UFILE, GBC, "workflow_config.propagate(path, target_type)", "workflow_config.get(path, target_type)",
      "R1", control=True),
    V("propagate returns at the first hit", CFILE, PROP, "value = current_node[name]", "value = current_node[name]\n            return value", "R1",
      control=True),
    V("propagate breaks at the first hit", CFILE, PROP, "value = current_node[name]", "value = current_node[name]\n            break", "R1"),
    V("missing child returns the default", CFILE, PROP, "            return value\n", "            return default\n", "R1"),
    V("candidate read before descending", CFILE, PROP,
      "current_node = current_node['children'][part]\n        if name in current_node:\n            value = current_node[name]",
      "if name in current_node:\n            value = current_node[name]\n        current_node = current_node['children'][part]", "R1"),
    V("candidate only set once", CFILE, PROP, "if name in current_node:", "if name in current_node and value is default:", "R1"),
    V("lookup with the wrong kind", UFILE, GBC, "workflow_config.propagate(path, target_type)", "workflow_config.propagate(path, 'step')", "R1"),
    V("fallback dropped", UFILE, GBC, "return BindingConfig(targets=[LocalTarget()])", "return BindingConfig(targets=[])", "R1"),
    V("new exact-match lookup elsewhere", UFILE, None, None, None, "R1",
      append="def _port_binding(name, workflow_config: WorkflowConfig):\n    return workflow_config.get(PurePosixPath(name), 'port')\n"),
    # ---- R2
    V("cycle check call removed", CFILE, f"{WC}.__init__", "\n    self._check_stacked_deployments()", "", "R2", control=True),
    V("cycle check under a condition", CFILE, f"{WC}.__init__", "\n    self._check_stacked_deployments()",
      "\n    if workflow_config.get('bindings'):\n        self._check_stacked_deployments()", "R2"),
    V("visited set dropped", CFILE, CHECK,
      "if deployment['name'] in deployments:", "if deployment['name'] == wraps:", "R2"),
    V("visited set never grows", CFILE, CHECK, "deployments.add(deployment['name'])", "pass", "R2"),
    V("visited set shared between start deployments", CFILE, CHECK,
      "for deployment in self.deployments.values():\n        deployments = {deployment['name']}",
      "deployments = set()\n    for deployment in self.deployments.values():\n        deployments.add(deployment['name'])", "R2"),
    V("revisit only logged", CFILE, CHECK, "raise WorkflowDefinitionException(", "logger.warning(", "R2"),
    V("wrong exception type", CFILE, CHECK, "raise WorkflowDefinitionException(", "raise RuntimeError(", "R2"),
    V("_get_workdir follows another key", UFILE, GWD, "wraps['deployment']", "wraps['service']", "R2"),
    V("deployments re-assigned after the check", CFILE, f"{WC}.__init__", "\n    self._check_stacked_deployments()",
      "\n    self._check_stacked_deployments()\n    self.deployments = dict(self.deployments)", "R2"),
    # ---- R3
    V("deployment workdir not inherited", UFILE, GBC, "workdir=_get_workdir(target_deployment, workflow_config)",
      "workdir=target_deployment.get('workdir')", "R3"),
    V("own workdir ignored", UFILE, GBC, "service=target.get('service'), workdir=workdir", "service=target.get('service'), workdir=None", "R3"),
    V("inherited workdir wins", DFILE, f"{TARGET}.__init__", "workdir or self.deployment.workdir or", "self.deployment.workdir or workdir or", "R3"),
    V("_get_workdir: or instead of and", UFILE, GWD, "is None and (wraps", "is None or (wraps", "R3"),
    V("_get_workdir: inverted None test", UFILE, GWD, "(workdir := deployment.get('workdir')) is None", "(workdir := deployment.get('workdir')) is not None", "R3"),
    # ---- R4
    V("set_targets overwrites explicit bindings", CFILE, f"{CFGM}.set_targets", "if 'step' not in node:\n            node['step'] = target",
      "node['step'] = target", "R4"),
    V("set_targets recursion passes the parent's target", CFILE, f"{CFGM}.set_targets", "set_targets(node, node['step'])", "set_targets(node, target)", "R4"),
    V("put stores at every level", CFILE, PUT,
      "current_node = current_node['children'][part]\n    current_node[name] = value", "current_node = current_node['children'][part]\n        current_node[name] = value", "R4"),
    # ---- R4: inheritance materialised on the complete tree
    V("set_targets inside the binding loop (seeded C28-2)", CFILE, f"{WC}.__init__",
      "self._process_binding(binding)\n    set_targets(self.filesystem, None)",
      "self._process_binding(binding)\n        set_targets(self.filesystem, None)", "R4", control=True),
    V("set_targets before the bindings are inserted", CFILE, f"{WC}.__init__",
      "for binding in workflow_config.get('bindings', []):\n        self._process_binding(binding)\n    set_targets(self.filesystem, None)",
      "set_targets(self.filesystem, None)\n    for binding in workflow_config.get('bindings', []):\n        self._process_binding(binding)", "R4"),
    V("a binding inserted after set_targets", CFILE, f"{WC}.__init__", "\n    self._check_stacked_deployments()",
      "\n    self._check_stacked_deployments()\n    for late in workflow_config.get('extraBindings', []):\n        self._process_binding(late)", "R4"),
    V("set_targets only on the first binding's iteration", CFILE, f"{WC}.__init__",
      "self._process_binding(binding)\n    set_targets(self.filesystem, None)",
      "self._process_binding(binding)\n        if binding.get('step') == '/':\n            set_targets(self.filesystem, None)", "R4"),
    V("set_targets started below the root", CFILE, f"{WC}.__init__", "set_targets(self.filesystem, None)",
      "set_targets(self.filesystem['children'].get('/', self.filesystem), None)", "R4"),
    V("set_targets started with a target", CFILE, f"{WC}.__init__", "set_targets(self.filesystem, None)",
      "set_targets(self.filesystem, {'targets': [], 'filters': []})", "R4"),
    V("set_targets call removed", CFILE, f"{WC}.__init__", "    set_targets(self.filesystem, None)\n", "", "R4"),
    # ---- R5: nothing memoised across configurations
    V("workdir memoised in a module dict, return shape kept (seeded C28-3 essence)", UFILE, GWD, "    return workdir",
      "    workdir = _workdirs.setdefault(deployment['name'], workdir)\n    return workdir", "R5",
      append="_workdirs = {}\n"),
    V("workdir memoised in a module dict by subscript store", UFILE, GWD, "    return workdir",
      "    _workdirs[deployment['name']] = workdir\n    return workdir", "R5", append="_workdirs = {}\n"),
    V("functools.cache on _get_workdir", UFILE, GWD, "def _get_workdir(", "@functools.cache\ndef _get_workdir(", "R5"),
    V("lru_cache on propagate", CFILE, PROP, "def propagate(", "@lru_cache(maxsize=None)\ndef propagate(", "R5"),
    V("memo in a mutable default argument", CFILE, PROP, "default: Any | None=None)", "default: Any | None=None, _memo: dict={})", "R5"),
    V("memo as a function attribute", UFILE, GBC, "config = workflow_config.propagate(path, target_type)",
      "config = workflow_config.propagate(path, target_type)\n    get_binding_config.seen[name] = config", "R5"),
    V("memo through a global rebinding", UFILE, GBC, "path = PurePosixPath(name)",
      "global _last\n    path = PurePosixPath(name)\n    _last = (name, target_type)", "R5"),
    V("memo written by a new helper of get_binding_config", UFILE, GBC, "config = workflow_config.propagate(path, target_type)",
      "config = _remember(name, workflow_config.propagate(path, target_type))", "R5",
      append="_seen = {}\n\n\ndef _remember(name, config):\n    return _seen.setdefault(name, config)\n"),
    # ---- benign
    V("rename locals of propagate", CFILE, PROP, "current_node", "cur", None, count=6),
    V("early-continue style", CFILE, PROP, "if name in current_node:\n            value = current_node[name]",
      "if name not in current_node:\n            continue\n        value = current_node[name]", None),
    V("dict.get style overwrite", CFILE, PROP, "if name in current_node:\n            value = current_node[name]",
      "value = current_node.get(name, value)", None),
    V("temporary for the lookup path and logging", UFILE, GBC, "path = PurePosixPath(name)",
      "step_path = PurePosixPath(name)\n    logger.debug(f'resolving {step_path}')\n    path = step_path", None),
    V("early return for the fallback", UFILE, GBC, "    if config is not None:\n        targets = []",
      "    if config is None:\n        return BindingConfig(targets=[LocalTarget()])\n    if config is not None:\n        targets = []", None),
    V("visited test in not-in style with rename", CFILE, CHECK,
      "if deployment['name'] in deployments:\n                raise WorkflowDefinitionException(f'The deployment `{deployment['name']}` leads to a circular reference: Recursive deployment definitions are not allowed.')\n            else:\n                deployments.add(deployment['name'])",
      "if deployment['name'] not in deployments:\n                deployments.add(deployment['name'])\n                continue\n            raise WorkflowDefinitionException('circular reference')", None),
    V("reorder independent constructor statements", CFILE, f"{WC}.__init__",
      "set_targets(self.filesystem, None)\n    self._check_stacked_deployments()", "self._check_stacked_deployments()\n    set_targets(self.filesystem, None)", None),
    V("set_targets on a temporary, keyword style, logging in between", CFILE, f"{WC}.__init__", "set_targets(self.filesystem, None)",
      "root = self.filesystem\n    logger.debug('bindings inserted')\n    set_targets(current_node=root, target=None)", None),
    V("set_targets run twice on the complete tree", CFILE, f"{WC}.__init__", "set_targets(self.filesystem, None)",
      "set_targets(self.filesystem, None)\n    set_targets(self.filesystem, None)", None),
    V("bindings collected first, inserted by index", CFILE, f"{WC}.__init__",
      "for binding in workflow_config.get('bindings', []):\n        self._process_binding(binding)",
      "todo = list(workflow_config.get('bindings', []))\n    i = 0\n    while i < len(todo):\n        self._process_binding(todo[i])\n        i += 1", None),
    V("per-call local table and module constant in _get_workdir", UFILE, GWD, "    return workdir",
      "    chain = {}\n    chain[deployment.get(_NAME)] = workdir\n    return workdir", None, append="_NAME = 'name'\n"),
    V("per-call mutable locals in get_binding_config", UFILE, GBC, "path = PurePosixPath(name)",
      "trace = []\n    trace.append(name)\n    path = PurePosixPath(name)", None),
    # ---- benign: mechanical refactorings (tools/benign_battery.py: tempret, ifswap) and relatives
    V("tempret: every return of get_binding_config through one temporary", UFILE, GBC, _FALLBACK_OLD, _TEMPRET_NEW, None),
    V("ifswap: visited test negated, branches swapped", CFILE, CHECK, _VISITED_OLD,
      "if not deployment['name'] in deployments:\n                deployments.add(deployment['name'])\n            else:\n"
      "                raise WorkflowDefinitionException('circular reference')", None),
    V("visited test on a temporary key assigned after the advance", CFILE, CHECK, _VISITED_OLD,
      "reached = deployment['name']\n            if not reached in deployments:\n                deployments.add(reached)\n"
      "            else:\n                raise WorkflowDefinitionException('circular reference')", None),
    V("ifswap: `not <config> is not None` guard for the fallback, `not <config> is None` for the bound case", UFILE, GBC,
      "    if config is not None:\n        targets = []",
      "    if not config is not None:\n        return BindingConfig(targets=[LocalTarget()])\n    if not config is None:\n        targets = []",
      None),
    V("ifswap + tempret: fallback first, both through a temporary", UFILE, GBC,
      "    if config is not None:\n        targets = []",
      "    if not config is not None:\n        _sf_ret = BindingConfig(targets=[LocalTarget()])\n        return _sf_ret\n"
      "    if None is not config:\n        targets = []", None),
    V("ifswap: propagate guard negated with an else branch", CFILE, PROP, "if name in current_node:\n            value = current_node[name]",
      "if not name in current_node:\n            pass\n        else:\n            value = current_node[name]", None),
    V("ifswap: set_targets guard negated with an else branch", CFILE, f"{CFGM}.set_targets",
      "if 'step' not in node:\n            node['step'] = target",
      "if 'step' in node:\n            pass\n        else:\n            node['step'] = target", None),
    # ---- breaking: the polarity of a re-spelled test is evaluated, a temporary is followed per return
    V("tempret shape, fallback value dropped", UFILE, GBC, _FALLBACK_OLD,
      _TEMPRET_NEW.replace("_sf_ret = BindingConfig(targets=[LocalTarget()])", "_sf_ret = BindingConfig(targets=[])"), "R1"),
    V("tempret shape, the fallback temporary is overwritten by the bound branch's leftovers", UFILE, GBC, _FALLBACK_OLD,
      _TEMPRET_NEW.replace("_sf_ret = BindingConfig(targets=[LocalTarget()])",
                           "_sf_ret = BindingConfig(targets=[LocalTarget()])\n        _sf_ret = BindingConfig(targets=[], filters=[])"), "R1"),
    V("negated None test without swapping the branches", UFILE, GBC, "    if config is not None:\n        targets = []",
      "    if not config is not None:\n        targets = []", "R1"),
    V("negated visited test without swapping the branches", CFILE, CHECK, "if deployment['name'] in deployments:",
      "if not deployment['name'] in deployments:", "R2"),
    V("visited test on a temporary key read before the advance", CFILE, CHECK,
      "deployment = self.deployments[wraps if isinstance(wraps, str) else wraps['deployment']]\n            " + _VISITED_OLD,
      "reached = deployment['name']\n            deployment = self.deployments[wraps if isinstance(wraps, str) else wraps['deployment']]\n"
      "            if reached in deployments:\n                raise WorkflowDefinitionException('circular reference')\n"
      "            else:\n                deployments.add(reached)", "R2"),
    V("visited test before the advance", CFILE, CHECK,
      "deployment = self.deployments[wraps if isinstance(wraps, str) else wraps['deployment']]\n            " + _VISITED_OLD,
      _VISITED_OLD + "\n            deployment = self.deployments[wraps if isinstance(wraps, str) else wraps['deployment']]", "R2"),
    V("visited test weakened by a conjunct", CFILE, CHECK, "if deployment['name'] in deployments:",
      "if deployment['name'] in deployments and isinstance(wraps, str):", "R2"),
    V("negated set_targets guard without swapping", CFILE, f"{CFGM}.set_targets", "if 'step' not in node:", "if not 'step' not in node:", "R4"),
    # ---- _get_workdir loop condition through branch facts (tools/benign_battery.py: notform) and relatives
    V("notform: `not (wraps := ..) is None` in the _get_workdir loop condition", UFILE, GWD,
      "(wraps := deployment.get('wraps')) is not None", "(not (wraps := deployment.get('wraps')) is None)", None),
    V("De Morgan form of the _get_workdir loop condition, constants on the left", UFILE, GWD, _GWD_TEST_OLD,
      "while not (None is not (workdir := deployment.get('workdir')) or None is (wraps := deployment.get('wraps'))):", None),
    V("double negation of the own-workdir test in _get_workdir", UFILE, GWD,
      "(workdir := deployment.get('workdir')) is None", "(not (not (workdir := deployment.get('workdir')) is None))", None),
    V("notform spelling with the wrong polarity on wraps", UFILE, GWD,
      "(wraps := deployment.get('wraps')) is not None", "(not (wraps := deployment.get('wraps')) is not None)", "R3"),
    V("notform spelling with the wrong polarity on the own workdir", UFILE, GWD,
      "(workdir := deployment.get('workdir')) is None", "(not (workdir := deployment.get('workdir')) is None)", "R3"),
    V("De Morgan form with `and` left inside the negation", UFILE, GWD, _GWD_TEST_OLD,
      "while not ((workdir := deployment.get('workdir')) is not None and (wraps := deployment.get('wraps')) is None):", "R3"),
    V("wraps examined before the own workdir", UFILE, GWD, _GWD_TEST_OLD,
      "while (wraps := deployment.get('wraps')) is not None and (workdir := deployment.get('workdir')) is None:", "R3"),
    V("own workdir test dropped from the loop condition", UFILE, GWD, _GWD_TEST_OLD,
      "while (workdir := deployment.get('workdir')) is not False and (wraps := deployment.get('wraps')) is not None:", "R3"),
    V("extra conjunct ends the walk early", UFILE, GWD, _GWD_TEST_OLD,
      _GWD_TEST_OLD[:-1] + " and isinstance(wraps, str):", "R3"),
    # ---- Target.workdir by cases: or-chain / conditional expression / if statements that assign / helper (B13-7)
    V("B13-7: or-chain replaced by if statements that re-assign the parameter", DFILE, f"{TARGET}.__init__", _TWD_OLD, _TWD_IFS, None),
    V("Target.workdir as nested conditional expressions on a temporary", DFILE, f"{TARGET}.__init__", _TWD_OLD,
      "inherited = self.deployment.workdir\n    chosen = workdir if workdir else inherited if inherited else " + _TWD_DEFAULT
      + "\n    self.workdir: str = chosen", None),
    V("Target.workdir assigned in the branches of an if/elif/else, `is None` tests", DFILE, f"{TARGET}.__init__", _TWD_OLD,
      "if workdir is not None:\n        self.workdir: str = workdir\n    elif not deployment.workdir is None:\n"
      "        self.workdir = deployment.workdir\n    else:\n        self.workdir = " + _TWD_DEFAULT, None),
    V("Target.workdir: or-chain on a temporary, default by a guard afterwards", DFILE, f"{TARGET}.__init__", _TWD_OLD,
      "if not (wd := (workdir or self.deployment.workdir)):\n        wd = " + _TWD_DEFAULT + "\n    self.workdir: str = wd", None),
    V("Target.workdir chosen by an extracted module-level helper", DFILE, f"{TARGET}.__init__", _TWD_OLD,
      "self.workdir: str = _pick_workdir(workdir, self.deployment)", None, append=_TWD_HELPER),
    V("if-statement shape, inherited workdir wins", DFILE, f"{TARGET}.__init__", _TWD_OLD,
      _TWD_IFS.replace("if not workdir:\n        workdir = self.deployment.workdir\n",
                       "if self.deployment.workdir:\n        workdir = self.deployment.workdir\n", 1), "R3"),
    V("if-statement shape, guard of the inheritance negated", DFILE, f"{TARGET}.__init__", _TWD_OLD,
      _TWD_IFS.replace("if not workdir:\n        workdir = self.deployment.workdir\n",
                       "if workdir:\n        workdir = self.deployment.workdir\n", 1), "R3"),
    V("if-statement shape, own workdir overwritten unconditionally", DFILE, f"{TARGET}.__init__", _TWD_OLD,
      _TWD_IFS.replace("if not workdir:\n        workdir = self.deployment.workdir\n", "workdir = self.deployment.workdir\n", 1), "R3"),
    V("if-statement shape, deployment workdir no longer inherited", DFILE, f"{TARGET}.__init__", _TWD_OLD,
      _TWD_IFS.replace("if not workdir:\n        workdir = self.deployment.workdir\n    ", "", 1), "R3"),
    V("if-statement shape, default shadows the deployment workdir", DFILE, f"{TARGET}.__init__", _TWD_OLD,
      _TWD_IFS.replace("workdir = self.deployment.workdir\n    if not workdir:", "workdir = self.deployment.workdir\n    if True:", 1), "R3"),
    V("conditional expression with the preference inverted", DFILE, f"{TARGET}.__init__", _TWD_OLD,
      "self.workdir: str = self.deployment.workdir if self.deployment.workdir else workdir or " + _TWD_DEFAULT, "R3"),
    V("extracted helper that prefers the inherited workdir", DFILE, f"{TARGET}.__init__", _TWD_OLD,
      "self.workdir: str = _pick_workdir(self.deployment.workdir, self.deployment) or workdir", "R3", append=_TWD_HELPER),
    V("self.workdir left unassigned when nothing is declared", DFILE, f"{TARGET}.__init__", _TWD_OLD,
      "if workdir:\n        self.workdir: str = workdir\n    elif deployment.workdir:\n        self.workdir = deployment.workdir", "R3"),
]
