"""C32 Remapping CWL file values between directories is lossless.

R1 codec symmetry and operand roles in `remap_path` (one instance per `return`):
   a. on the `file://` branch the number of `urllib.parse.unquote*` applications on the way in equals the number of
      `urllib.parse.quote*` applications on the way out (flow-sensitive: only definitions that reach the return
      are counted); the plain-path branch applies no URL coding at all -- a plain path is not percent-encoded, so
      decoding it changes names that contain `%`, and a decoded location that is not re-encoded does not round-trip;
   b. the directory given to `relpath` is `old_dir`, the first component of the re-assembled path is `new_dir`;
   c. the prefix sliced off a `file://` location has exactly the length of the literal prefix put back;
   d. the part below the old directory is computed by a separator-aware relative-path operation (`relpath`,
      `relative_to`, `removeprefix`) and re-assembled by `path_processor.join`: cutting the path by character count
      (`path[len(old_dir) + 1:]`) is wrong by one as soon as `old_dir` is written with a trailing separator;
   e. the operand of that operation is the *complete* parameter `path` -- on the plain branch the parameter itself, on
      the `file://` branch the parameter with exactly the literal prefix removed (`path[7:]`, `path[len('file://'):]`,
      `path.removeprefix('file://')`), followed through the definitions that reach the return and through URL
      decoders.  A component of a parsed URL (`urlsplit(path).path`) is not the complete name: the parser cuts it at
      `#` and `?`, so `file:///old/a#1.txt` would be re-based as `/old/a`.
R2 recursion coverage and pass-through:
   a. `remap_token_value`, for File/Directory objects (both class names in the guarding pattern): `location` and `path`
      are replaced by `remap_path(value[<same key>])`, `secondaryFiles` and `listing` by the element-wise recursion
      over `value[<same key>]`, each under the presence test of that same key (a fact that holds on every path reaching
      the store, however the test is spelled), with `path_processor/old_dir/new_dir` forwarded in their own roles *and
      unchanged*: at every remap call (fields, `listing`, `secondaryFiles`, arrays, records) the only definition of
      each of the three names that arrives is the parameter value -- nested entries carry complete paths below the
      same old directory, so a recursion whose directories were re-bound on the way (e.g. to the entry's own old/new
      `path`) re-bases them on something else than what the caller asked for;
   b. every `return` is the (mutated) value itself, the element-wise recursion over a sequence, or the value-wise
      recursion over a mapping (keys unchanged); no path falls off the end of the function;
   c. `remap_path` returns the path unchanged for a scheme other than `file`: the rewriting return lies only behind the
      edge of a test on which "scheme is `file`" is implied (true edge of `==`/`startswith`, false edge of `!=` or
      `not ==`, a conjunct of a true `and`; the atom names no second scheme), and an unchanged return is reachable
      from the other edge.
Returned values and stored right-hand sides are read through the definitions that reach the statement (sfverif.rules.
_util_G.expand_at), so `tmp = <expr>; return tmp` repeated on several branches is the same shape as `return <expr>`.

Today's tree violates R1a on both branches (confirmed finding S10).
Not decided: behaviour of `os.path.relpath` for paths outside old_dir, Windows separators, the value equality itself.
"""

from __future__ import annotations

import ast

from ..facts import atoms, edge_for, facts_at, region
from ..model import parent, unparse
from ..selftest import V
from ._util_G import assign_nodes, calls_flow, const_str, expand, expand_at, is_call_to, reaching

MOD = "streamflow.cwl.utils"
FILE = "streamflow/cwl/utils.py"
RP = f"{MOD}.remap_path"
RTV = f"{MOD}.remap_token_value"

DECODERS = ("urllib.parse.unquote", "urllib.parse.unquote_plus", "urllib.parse.unquote_to_bytes", "urllib.request.url2pathname")
ENCODERS = ("urllib.parse.quote", "urllib.parse.quote_plus", "urllib.parse.quote_from_bytes", "urllib.request.pathname2url")

META = {
    "explanation": (
        "AST/CFG rules on streamflow.cwl.utils.remap_path and remap_token_value: per return statement the URL decoders "
        "and encoders applied to the value are counted along reaching definitions; operand roles of old_dir/new_dir; "
        "literal-prefix/slice agreement; the relative part comes from relpath/relative_to/removeprefix (not from a len(old_dir) slice) "
        "and its operand is the complete `path` parameter behind the literal prefix (not a parsed-URL component); for File/Directory objects every path-carrying key is rewritten from the same "
        "key under its own presence test and nested values are recursed with the unchanged path_processor/old_dir/new_dir parameters (reaching definitions at the call); return shapes; non-file schemes untouched (branch facts, independent of the spelling of the test)."
    ),
    "undecided": "equality of the round-tripped value (needs execution); relpath semantics for paths outside old_dir",
    "assumptions": ["urllib.parse.quote/unquote are mutually inverse on path names", "CWL File/Directory objects carry paths only in location/path/secondaryFiles/listing"],
}


def _nid(f, stmt):
    ids = f.cfg.ids_of(stmt)
    return ids[0] if ids else None


def _at_of(f, expr, default):
    """CFG node that evaluates `expr` (a node of the analysed tree), else `default`."""
    ids = f.cfg.node_containing(expr)
    return ids[0] if ids else default


def _kind_of_return(f, r):
    """`unchanged` (the parameter itself), `url` (a `file:` literal is put in front) or `plain`.  The returned value is
    followed through the definitions that reach *this* return, so `tmp = <expr>; return tmp` on every branch is read
    like `return <expr>`."""
    rid = _nid(f, r)
    ex = expand_at(f, r.value, rid) if rid is not None else expand(f, r.value)
    if isinstance(ex, ast.Name) and ex.id == "path" and (not assign_nodes(f.cfg, "path") or (rid is not None and reaching(f, "path", rid) == ["param"])):
        return "unchanged", None
    for n in ast.walk(ex):
        s = const_str(n)
        if s is not None and s.startswith("file:"):
            return "url", s.split("{")[0]
    return "plain", None


def _count(p, f, calls, names):
    return [c for c in calls if is_call_to(p, f, c, *names)]


URL_PARSERS = ("urllib.parse.urlsplit", "urllib.parse.urlparse", "urllib.parse.urldefrag", "urllib.parse.urlunsplit", "urllib.parse.urlunparse")
REL_ATTRS = ("relpath", "relative_to", "removeprefix")


def _is_rel(p, f, c) -> bool:
    if isinstance(c.func, ast.Attribute):
        if c.func.attr == "removeprefix":  # `path.removeprefix('file://')` strips the scheme, it is not the re-basing
            return bool(c.args) and const_str(expand(f, c.args[0])) is None
        return c.func.attr in REL_ATTRS
    return is_call_to(p, f, c, "os.path.relpath", "posixpath.relpath", "ntpath.relpath")


def _rel_base(c):
    """The directory operand of a relative-path call (`start` of relpath, the argument of relative_to/removeprefix)."""
    if isinstance(c.func, ast.Attribute) and c.func.attr in ("relative_to", "removeprefix"):
        return c.args[0] if c.args else None
    for k in c.keywords:
        if k.arg == "start":
            return k.value
    pos = [a for a in c.args if not isinstance(a, ast.Starred)]
    if any(k.arg == "path" for k in c.keywords):
        return pos[0] if pos else None
    return pos[1] if len(pos) > 1 else None


def _rel_subject(c):
    """The path operand of a relative-path call: first argument of `relpath`, receiver of `relative_to`/`removeprefix`
    (a `*Path(x)` constructor around the receiver is looked through)."""
    if isinstance(c.func, ast.Attribute) and c.func.attr in ("relative_to", "removeprefix"):
        e = c.func.value
        if isinstance(e, ast.Call) and unparse(e.func).endswith("Path") and len(e.args) == 1 and not e.keywords:
            e = e.args[0]
        return e
    for k in c.keywords:
        if k.arg == "path":
            return k.value
    return c.args[0] if c.args and not isinstance(c.args[0], ast.Starred) else None


def _const_len(f, e, at=None):
    """Value of a prefix length written as an int literal or as `len('<literal>')`."""
    e = expand(f, e) if at is None else expand_at(f, e, at)
    if isinstance(e, ast.Constant) and isinstance(e.value, int) and not isinstance(e.value, bool):
        return e.value
    if isinstance(e, ast.Call) and isinstance(e.func, ast.Name) and e.func.id == "len" and len(e.args) == 1 and const_str(e.args[0]) is not None:
        return len(e.args[0].value)
    return None


def _source(p, f, e, at, depth=6):
    """How `e`, evaluated at CFG node `at`, derives from parameter `path`: one `(cut, problem)` per reaching
    definition chain.  `cut` is what was removed in front (None, a character count, or a literal prefix); `problem`
    is a text when `e` is not the parameter with only a leading prefix removed."""
    if isinstance(e, ast.Await):
        e = e.value
    if depth <= 0:
        return [(None, f"`{unparse(e)[:60]}` could not be followed back to parameter `path`")]
    if isinstance(e, ast.Call):
        one_arg = len(e.args) == 1 and not isinstance(e.args[0], ast.Starred)
        if one_arg and (is_call_to(p, f, e, *DECODERS, *ENCODERS) or (isinstance(e.func, ast.Name) and e.func.id == "str") or is_call_to(p, f, e, "os.fspath")):
            return _source(p, f, e.args[0], at, depth - 1)
        if isinstance(e.func, ast.Attribute) and e.func.attr == "removeprefix" and one_arg and not e.keywords:
            lit = const_str(expand_at(f, e.args[0], at))
            if lit is not None:
                return [(lit, pr) if c is None else (c, pr or "a prefix is removed twice") for c, pr in _source(p, f, e.func.value, at, depth - 1)]
    elif isinstance(e, ast.Subscript) and isinstance(e.slice, ast.Slice) and e.slice.upper is None and e.slice.step is None and e.slice.lower is not None:
        k = _const_len(f, e.slice.lower, at)
        if k is not None and k >= 0:
            return [(k, pr) if c is None else (c, pr or "a prefix is removed twice") for c, pr in _source(p, f, e.value, at, depth - 1)]
    elif isinstance(e, ast.Name):
        defs = reaching(f, e.id, at)
        if e.id == "path" and defs == ["param"]:
            return [(None, None)]
        out = []
        for d in defs:
            if d == "param":
                if e.id == "path":
                    out.append((None, None))
                continue
            a = f.cfg.nodes[d].ast
            if isinstance(a, ast.AnnAssign) and a.value is not None and isinstance(a.target, ast.Name):
                out += _source(p, f, a.value, d, depth - 1)
            elif isinstance(a, ast.Assign) and len(a.targets) == 1 and isinstance(a.targets[0], ast.Name):
                out += _source(p, f, a.value, d, depth - 1)
            else:
                out.append((None, f"`{e.id}` is bound by `{f.cfg.nodes[d].text(50)}`"))
        if out:
            return out
    ex = expand_at(f, e, at)
    parsed = [c for c in [ex, *ast.walk(ex)] if is_call_to(p, f, c, *URL_PARSERS)]
    if parsed:
        return [(None, f"`{unparse(e)[:60]}` is a component of the parsed URL `{unparse(parsed[0])[:60]}`: the parser cuts the name at `#` and `?` (and strips tab/newline characters), so `file:///old/a#1.txt` is re-based as `/old/a` and the rest of the name is lost")]
    return [(None, f"`{unparse(ex)[:70]}` is not parameter `path` with only the literal prefix removed")]


def r1(ctx):
    p = ctx.prog
    f = p.func(RP)
    g = f.cfg
    ctx.require(f.params == ["path_processor", "path", "old_dir", "new_dir"], f"C32.R1: remap_path signature changed: {f.params}")
    rets = [n for n in f.body_nodes() if isinstance(n, ast.Return) and n.value is not None]
    kinds = {}
    for r in rets:
        kind, prefix = _kind_of_return(f, r)
        kinds.setdefault(kind, []).append(r)
        if kind == "unchanged":
            continue
        rid = g.ids_of(r)
        ctx.require(bool(rid), "C32.R1: return not in CFG")
        calls = calls_flow(f, r.value, rid[0])
        dec = _count(p, f, calls, DECODERS)
        enc = _count(p, f, calls, ENCODERS)
        if kind == "url":
            ok = len(dec) == len(enc)
            msg = (
                f"file:// branch decodes the location {len(dec)}x ({', '.join(unparse(c)[:50] for c in dec)}) but re-encodes it {len(enc)}x: "
                "`file:///old/a%20b` comes back as `file:///new/a b`, and a literal `%25` is decoded twice over a round trip"
            )
        else:
            ok = not dec and not enc
            msg = (
                f"plain-path branch applies URL coding ({', '.join(unparse(c)[:50] for c in dec + enc)}) to a file-system path: "
                "`/old/a%20b.txt` becomes `/new/a b.txt`"
            )
        ctx.ob("R1", f"remap_path [{kind} branch]: URL decode/encode applications are balanced", ok, func=f, node=r,
               instance=f"remap_path:{kind}:codec", message=msg,
               witness=[f"decoders: {[unparse(c)[:60] for c in dec]}", f"encoders: {[unparse(c)[:60] for c in enc]}"])
        # d. a separator-aware relative-path operation, re-assembled by path_processor.join
        rel = [c for c in calls if _is_rel(p, f, c)]
        join = [c for c in calls if isinstance(c.func, ast.Attribute) and c.func.attr == "join" and isinstance(c.func.value, ast.Name) and c.func.value.id == "path_processor"]
        whole = expand_at(f, r.value, rid[0])
        counted = [n for n in ast.walk(whole) if isinstance(n, ast.Subscript) and isinstance(n.slice, ast.Slice)
                   and any(isinstance(x, ast.Name) and x.id in ("old_dir", "new_dir") for x in ast.walk(n.slice))]
        if not rel and counted:
            how = (f"cuts the path by character count (`{unparse(counted[0])[:70]}`): with the directory written with a trailing separator "
                   "(`/data/out/`) the slice eats the first character of the relative part (`/data/out/a b.txt` -> `<new_dir>/ b.txt`)")
        elif not rel:
            how = f"contains no relpath/relative_to/removeprefix against old_dir (`return {unparse(r.value)[:70]}`)"
        else:
            how = "does not re-assemble the result with path_processor.join(new_dir, ...)"
        ctx.ob("R1", f"remap_path [{kind} branch]: the part below old_dir comes from a relative-path operation and is joined by path_processor", bool(rel) and bool(join),
               func=f, node=r, instance=f"remap_path:{kind}:relative", message=f"{kind} branch {how}")
        # b. operand roles
        if rel and join:
            bases = [expand_at(f, b, _at_of(f, c, rid[0])) if b is not None else None for c, b in zip(rel, map(_rel_base, rel))]
            rel_ok = all(isinstance(b, ast.Name) and b.id == "old_dir" for b in bases) and not any(
                isinstance(a, ast.Name) and a.id == "new_dir" for c in rel for a in [*c.args, *(k.value for k in c.keywords)])
            join_ok = all(c.args and isinstance(c.args[0], ast.Name) and c.args[0].id == "new_dir" for c in join)
            ctx.ob("R1", f"remap_path [{kind} branch]: relative to old_dir, re-based on new_dir", rel_ok and join_ok, func=f, node=r,
                   instance=f"remap_path:{kind}:roles",
                   message=f"{kind} branch: relpath against `{[unparse(b) if b is not None else None for b in bases]}` and join on `{[unparse(c.args[0]) for c in join if c.args]}` (expected old_dir / new_dir)")
        # e. the operand is the complete path
        if rel:
            problems = []
            for c in rel:
                subj = _rel_subject(c)
                if subj is None:
                    problems.append(f"`{unparse(c)[:60]}` has no path operand")
                    continue
                for cut, pr in _source(p, f, subj, _at_of(f, c, rid[0])):
                    if pr:
                        problems.append(pr)
                    elif kind == "plain" and cut is not None:
                        problems.append(f"the plain path loses its first {cut!r} before it is made relative to old_dir")
                    elif kind == "url" and cut is None:
                        problems.append(f"the location is made relative to old_dir with its `{prefix}` prefix still in front")
                    elif kind == "url" and cut != prefix and cut != len(prefix):
                        problems.append(f"the location is cut at {cut!r} but the prefix put back is {prefix!r} ({len(prefix)} characters)")
            ctx.ob("R1", f"remap_path [{kind} branch]: the re-based operand is the complete path" + (" behind the literal prefix" if kind == "url" else ""), not problems,
                   func=f, node=r, instance=f"remap_path:{kind}:operand", message=f"{kind} branch: " + "; ".join(dict.fromkeys(problems)))
        # c. prefix length
        if kind == "url":
            slices = set()
            for c in calls:
                for n in ast.walk(c):
                    if isinstance(n, ast.Subscript) and isinstance(n.value, ast.Name) and n.value.id == "path" and isinstance(n.slice, ast.Slice):
                        lo = n.slice.lower
                        if isinstance(lo, ast.Constant) and isinstance(lo.value, int) and n.slice.upper is None:
                            slices.add(lo.value)
            if slices:
                ctx.ob("R1", "remap_path: the sliced-off prefix is as long as the literal prefix put back", all(s == len(prefix) for s in slices),
                       func=f, node=r, instance="remap_path:url:prefix-length",
                       message=f"location is cut at {sorted(slices)} but the prefix put back is {prefix!r} ({len(prefix)} characters)")
    ctx.require("plain" in kinds and "url" in kinds, f"C32.R1: expected a file:// branch and a plain branch in remap_path, found {sorted(kinds)}")


# --------------------------------------------------------------------------- R2


def _args_of(f_callee_params, call):
    m = {}
    for i, a in enumerate(call.args):
        if isinstance(a, ast.Starred):
            break
        if i < len(f_callee_params):
            m[f_callee_params[i]] = a
    for k in call.keywords:
        if k.arg:
            m[k.arg] = k.value
    return m


def _is_value_key(e, key=None):
    """`value[<const>]` (optionally with the given key); returns the key or None."""
    if isinstance(e, ast.Subscript) and isinstance(e.value, ast.Name) and e.value.id == "value" and isinstance(e.slice, ast.Constant):
        if key is None or e.slice.value == key:
            return e.slice.value
    return None


def _forwarded(f, m, at, names=("path_processor", "old_dir", "new_dir")) -> list[str]:
    """Operands of a remap call that are not the caller's own, *unchanged* parameters: each must be the bare parameter
    name, and at CFG node `at` (where the call is evaluated) the only definition of that name that arrives must be the
    parameter value itself -- a directory re-bound on the way (`old_dir, new_dir = value['path'], ...` in front of the
    `listing` recursion) re-bases the nested files on something else than the requested directories."""
    bad = []
    for n in names:
        a = m.get(n)
        if not (isinstance(a, ast.Name) and a.id == n):
            bad.append(f"{n}={unparse(a) if a is not None else '<missing>'}")
        elif at is not None:
            ds = [d for d in reaching(f, n, at) if d != "param"]
            if ds:
                bad.append(f"{n} after it was re-bound by `{'`, `'.join(dict.fromkeys(f.cfg.nodes[d].text(70) for d in ds))}` (not the unchanged parameter)")
    return bad


def _positive_leaves(a, v):
    """Atoms of which at least one holds when atom `a` has truth `v`, if that can be read off the spelling: a true
    atom itself, the disjuncts of a true `or`, the negated conjuncts of a false `and` (De Morgan)."""
    if isinstance(a, ast.BoolOp) and ((isinstance(a.op, ast.Or) and v) or (isinstance(a.op, ast.And) and not v)):
        out = []
        for x in a.values:
            for b, w in atoms(x, v):
                out += _positive_leaves(b, w)
        return out
    return [a] if v else []


def _presence_keys(f, at) -> list:
    """Keys k for which `k in value` holds on every path that reaches CFG node `at` (however the test is spelled)."""
    out = []
    for a, v in facts_at(f.cfg, at):
        if (v and isinstance(a, ast.Compare) and len(a.ops) == 1 and isinstance(a.ops[0], ast.In) and isinstance(a.left, ast.Constant)
                and isinstance(a.comparators[0], ast.Name) and a.comparators[0].id == "value"):
            out.append(a.left.value)
    return out


def _classes_at(f, stmt, at) -> set:
    """String constants of the conditions under which `stmt` runs: the value patterns of the enclosing `case` clauses
    and the constants of the tests that hold at CFG node `at` (a test that is known to be *false* there contributes
    nothing, unless it is a conjunction of negations)."""
    out = set()
    child, p = stmt, parent(stmt)
    while p is not None and p is not f.node:
        if isinstance(p, ast.match_case) and any(child is x for x in p.body):
            for n in ast.walk(p.pattern):
                if isinstance(n, ast.MatchValue) and isinstance(n.value, ast.Constant):
                    out.add(n.value.value)
        child, p = p, parent(p)
    for a, v in facts_at(f.cfg, at):
        for leaf in _positive_leaves(a, v):
            out |= {n.value for n in ast.walk(leaf) if isinstance(n, ast.Constant) and isinstance(n.value, str)}
    return out


FILE_LITERALS = ("file", "file://", "file:")


def _is_file_atom(f, a, at) -> bool:
    """Atom `a` (evaluated at CFG node `at`) compares against the `file` scheme and against nothing else."""
    strs = [const_str(n) for n in ast.walk(expand_at(f, a, at)) if const_str(n) is not None]
    return any(x in FILE_LITERALS for x in strs) and all(x in FILE_LITERALS or x == "" for x in strs)


def r2(ctx):
    p = ctx.prog
    f = p.func(RTV)
    g = f.cfg
    rp = p.func(RP)
    ctx.require(f.params == ["path_processor", "old_dir", "new_dir", "value"], f"C32.R2: remap_token_value signature changed: {f.params}")
    stores = {}
    for n in f.body_nodes():
        if isinstance(n, ast.Assign) and len(n.targets) == 1:
            k = _is_value_key(n.targets[0])
            if k is not None:
                stores.setdefault(k, []).append(n)
    for key, how in (("location", "path"), ("path", "path"), ("secondaryFiles", "rec"), ("listing", "rec")):
        ss = stores.get(key, [])
        if not ss:
            ctx.ob("R2", f"File/Directory: `{key}` is remapped", False, func=f, node=f.node, instance=f"remap_token_value:{key}:missing",
                   message=f"remap_token_value never rewrites value['{key}']: " + ("nested files keep pointing into the old directory" if how == "rec" else "the field keeps the old directory"))
            continue
        for s in ss:
            sid = _nid(f, s)
            ctx.require(sid is not None, f"C32.R2: `{unparse(s)[:60]}` not in CFG")
            rhs = expand_at(f, s.value, sid)
            problems = []
            if how == "path":
                calls = [c for c in [rhs, *ast.walk(rhs)] if is_call_to(p, f, c, RP)]
                if not calls:
                    problems.append("is not computed by remap_path")
                for c in calls:
                    m = _args_of(rp.params, c)
                    src = m.get("path")
                    if _is_value_key(src, key) is None:
                        problems.append(f"is computed from `{unparse(src) if src is not None else None}` instead of value['{key}']")
                    problems += [f"passes {b}" for b in _forwarded(f, m, sid)]
            else:
                comp = rhs if isinstance(rhs, (ast.ListComp, ast.GeneratorExp)) else None
                if comp is None and isinstance(rhs, ast.Call) and unparse(rhs.func) in ("list", "tuple") and rhs.args and isinstance(rhs.args[0], (ast.ListComp, ast.GeneratorExp)):
                    comp = rhs.args[0]
                if comp is None or len(comp.generators) != 1:
                    problems.append("is not the element-wise recursion")
                else:
                    gen = comp.generators[0]
                    if gen.ifs:
                        problems.append(f"drops elements (`if {unparse(gen.ifs[0])}`)")
                    if _is_value_key(gen.iter, key) is None:
                        problems.append(f"iterates `{unparse(gen.iter)}` instead of value['{key}']")
                    if not is_call_to(p, f, comp.elt, RTV):
                        problems.append("does not recurse with remap_token_value")
                    else:
                        m = _args_of(f.params, comp.elt)
                        v = m.get("value")
                        if not (isinstance(v, ast.Name) and isinstance(gen.target, ast.Name) and v.id == gen.target.id):
                            problems.append(f"recurses on `{unparse(v) if v is not None else None}` instead of the element")
                        problems += [f"passes {b}" for b in _forwarded(f, m, sid)]
            guard_keys = _presence_keys(f, sid)
            if key not in guard_keys:
                problems.append(f"is guarded by the presence test of {guard_keys or 'no key'} instead of '{key}'")
            classes = _classes_at(f, s, sid)
            if not {"File", "Directory"} <= classes:
                problems.append(f"runs only for classes {sorted(c for c in classes if c in ('File', 'Directory')) or 'none'} (File and Directory expected)")
            ctx.ob("R2", f"File/Directory: value['{key}'] is rewritten from itself under its own presence test", not problems, func=f, node=s,
                   instance=f"remap_token_value:{key}:store", message=f"value['{key}'] " + "; ".join(problems))
    # b. return shapes
    rets = [n for n in f.body_nodes() if isinstance(n, ast.Return)]
    shapes = []
    for r in rets:
        v = r.value
        shape = "other"
        why = ""
        rid = _nid(f, r)
        ctx.require(rid is not None, "C32.R2: return not in CFG")
        ex = expand_at(f, v, rid) if v is not None else None
        if isinstance(ex, ast.Name) and ex.id == "value":
            shape = "self"
        elif v is not None:
            comp = ex
            if isinstance(ex, ast.Call) and unparse(ex.func) in ("list", "tuple", "dict") and ex.args:
                comp = ex.args[0]
            if isinstance(comp, (ast.ListComp, ast.GeneratorExp)) and len(comp.generators) == 1:
                gen = comp.generators[0]
                if (
                    not gen.ifs and isinstance(gen.iter, ast.Name) and gen.iter.id == "value" and is_call_to(p, f, comp.elt, RTV)
                    and isinstance(gen.target, ast.Name)
                ):
                    m = _args_of(f.params, comp.elt)
                    vv = m.get("value")
                    bad = _forwarded(f, m, rid)
                    if isinstance(vv, ast.Name) and vv.id == gen.target.id and not bad:
                        shape = "seq"
                    why = "; ".join(f"passes {b}" for b in bad)
            elif isinstance(comp, ast.DictComp) and len(comp.generators) == 1:
                gen = comp.generators[0]
                it = gen.iter
                if (
                    not gen.ifs and isinstance(it, ast.Call) and isinstance(it.func, ast.Attribute) and it.func.attr == "items"
                    and isinstance(it.func.value, ast.Name) and it.func.value.id == "value"
                    and isinstance(gen.target, ast.Tuple) and len(gen.target.elts) == 2 and all(isinstance(e, ast.Name) for e in gen.target.elts)
                    and isinstance(comp.key, ast.Name) and comp.key.id == gen.target.elts[0].id and is_call_to(p, f, comp.value, RTV)
                ):
                    m = _args_of(f.params, comp.value)
                    vv = m.get("value")
                    bad = _forwarded(f, m, rid)
                    if isinstance(vv, ast.Name) and vv.id == gen.target.elts[1].id and not bad:
                        shape = "map"
                    why = "; ".join(f"passes {b}" for b in bad)
        shapes.append(shape)
        ctx.ob("R2", "remap_token_value returns the value, the element-wise or the value-wise recursion", shape != "other", func=f, node=r,
               instance=f"remap_token_value:return:{shape if shape != 'other' else unparse(v)[:60] if v is not None else 'None'}",
               message=f"`return {unparse(v)[:90] if v is not None else ''}` is neither the value itself nor a complete recursion over it (operands in their own roles, no element dropped, keys kept)" + (f": {why}" if why else ""))
    for want, what in (("seq", "arrays are recursed element-wise"), ("map", "records are recursed value-wise"), ("self", "other values are returned unchanged")):
        ctx.ob("R2", f"remap_token_value: {what}", want in shapes, func=f, node=f.node, instance=f"remap_token_value:has:{want}",
               message=f"remap_token_value has no `{want}` return: {what} no longer holds")
    falls = [a for a, k in g.pred[g.exit] if g.nodes[a].kind != "return"]
    ctx.ob("R2", "remap_token_value returns on every path", not falls, func=f, node=f.node, instance="remap_token_value:falls-off",
           message=f"a path through remap_token_value ends without `return` (after {[g.nodes[a].text(50) for a in falls][:3]}): the value becomes None")
    # c. non-file schemes
    f = rp
    g = f.cfg
    rets = [n for n in f.body_nodes() if isinstance(n, ast.Return) and n.value is not None]
    url = [r for r in rets if _kind_of_return(f, r)[0] == "url"]
    unchanged = [r for r in rets if _kind_of_return(f, r)[0] == "unchanged"]
    ctx.require(bool(url), "C32.R2: file:// branch of remap_path not found")
    # polarity-agnostic: the edge of a test on which "the scheme is `file`" is implied (`==` on the true edge, `!=` /
    # `not ==` on the false edge, a conjunct of a true `and`, ...); the rewriting return lies only behind that edge,
    # an unchanged return is reachable from the other one
    ok = False
    for r in url:
        rid = g.ids_of(r)[0]
        for t in [n for n in g.nodes.values() if n.kind == "test" and n.ast is not None]:
            edge = edge_for(t.ast, lambda a, v, t=t: v and _is_file_atom(f, a, t.id))
            if edge is None or not g.dominates(t.id, rid) or rid not in region(g, t.id, edge):
                continue
            other = [b for b, k in g.succ[t.id] if k == ("f" if edge == "t" else "t")]
            away = g.reach(other, avoid=[t.id], include_src=True) if other else set()
            if any(_nid(f, u) in away for u in unchanged):
                ok = True
    ctx.ob("R2", "remap_path rewrites only `file` locations; other schemes are returned unchanged", ok, func=f, node=(url[0]),
           instance="remap_path:scheme-guard",
           message="the file:// rewriting is not confined to scheme == 'file' with an unchanged `return path` for every other scheme (an http:// location would be re-based)")


RULES = [("R1", r1), ("R2", r2)]
FLOORS = {"R1": 8, "R2": 9}

_IF_CHAIN = '''def remap_token_value(path_processor: ModuleType, old_dir: str, new_dir: str, value: Any) -> Any:
    if isinstance(value, MutableSequence):
        return [remap_token_value(path_processor, old_dir, new_dir, item) for item in value]
    elif isinstance(value, MutableMapping):
        if get_token_class(value) in ('File', 'Directory'):
            if 'location' in value:
                new_location = remap_path(path_processor, value['location'], old_dir, new_dir)
                value['location'] = new_location
            if 'path' in value:
                value['path'] = remap_path(path_processor=path_processor, path=value['path'], old_dir=old_dir, new_dir=new_dir)
            if 'listing' in value:
                value['listing'] = [remap_token_value(path_processor, old_dir, new_dir, entry) for entry in value['listing']]
            if 'secondaryFiles' in value:
                value['secondaryFiles'] = [remap_token_value(path_processor, old_dir, new_dir, sf) for sf in value['secondaryFiles']]
            return value
        else:
            return {k: remap_token_value(path_processor, old_dir, new_dir, v) for k, v in value.items()}
    else:
        return value'''


_RP_URL = "'file://{}'.format(path_processor.join(new_dir, *os.path.relpath(urllib.parse.unquote(path[7:]), old_dir).split(os.path.sep)))"
_RP_PLAIN = "path_processor.join(new_dir, *os.path.relpath(urllib.parse.unquote(path), old_dir).split(os.path.sep))"
_RP_BODY = ("    if ':/' in path:\n        scheme = urllib.parse.urlsplit(path).scheme\n        if scheme == 'file':\n            return " + _RP_URL
            + "\n        else:\n            return path\n    else:\n        return " + _RP_PLAIN)

VARIANTS = [
    # ---- breaking (R1 already fires twice on remap_path today: each R1 variant must add a finding)
    V("url branch: old_dir/new_dir swapped", FILE, RP, "'file://{}'.format(path_processor.join(new_dir, *os.path.relpath(urllib.parse.unquote(path[7:]), old_dir)",
      "'file://{}'.format(path_processor.join(old_dir, *os.path.relpath(urllib.parse.unquote(path[7:]), new_dir)", "R1", control=True),
    V("plain branch: relative to new_dir", FILE, RP, "os.path.relpath(urllib.parse.unquote(path), old_dir)", "os.path.relpath(urllib.parse.unquote(path), new_dir)", "R1"),
    V("url branch: prefix cut one character late", FILE, RP, "path[7:]", "path[8:]", "R1"),
    V("url branch: prefix put back without slashes", FILE, RP, "'file://{}'.format(", "'file:{}'.format(", "R1"),
    V("non-file schemes are remapped", FILE, RP, "if scheme == 'file':", "if scheme:", "R2", control=True),
    V("only non-file schemes are remapped", FILE, RP, "if scheme == 'file':", "if scheme != 'file':", "R2"),
    V("listing not recursed", FILE, RTV, "value['listing'] = [remap_token_value(path_processor, old_dir, new_dir, sf) for sf in value['listing']]", "pass", "R2", control=True),
    V("secondaryFiles not recursed", FILE, RTV, "value['secondaryFiles'] = [remap_token_value(path_processor, old_dir, new_dir, sf) for sf in value['secondaryFiles']]", "pass", "R2"),
    V("listing rewritten from secondaryFiles", FILE, RTV, "for sf in value['listing']]", "for sf in value['secondaryFiles']]", "R2"),
    V("location computed from path", FILE, RTV, "path=value['location']", "path=value['path']", "R2"),
    V("path guarded by the location test", FILE, RTV, "if 'path' in value:", "if 'location' in value:", "R2"),
    V("nested files: directories swapped", FILE, RTV, "[remap_token_value(path_processor, old_dir, new_dir, sf) for sf in value['listing']]",
      "[remap_token_value(path_processor, new_dir, old_dir, sf) for sf in value['listing']]", "R2"),
    V("remap_path called with swapped directories", FILE, RTV, "path=value['path'], old_dir=old_dir, new_dir=new_dir", "path=value['path'], old_dir=new_dir, new_dir=old_dir", "R2"),
    V("only File objects are remapped", FILE, RTV, "case 'File' | 'Directory':", "case 'File':", "R2"),
    V("arrays returned unchanged", FILE, RTV, "return [remap_token_value(path_processor, old_dir, new_dir, v) for v in value]", "return value", "R2"),
    V("array elements filtered", FILE, RTV, "return [remap_token_value(path_processor, old_dir, new_dir, v) for v in value]",
      "return [remap_token_value(path_processor, old_dir, new_dir, v) for v in value if v]", "R2"),
    V("records: keys remapped too", FILE, RTV, "return {k: remap_token_value(path_processor, old_dir, new_dir, v) for k, v in value.items()}",
      "return {remap_token_value(path_processor, old_dir, new_dir, k): remap_token_value(path_processor, old_dir, new_dir, v) for k, v in value.items()}", "R2"),
    V("default case dropped", FILE, RTV, "        case _:\n            return value", "        case str():\n            return value", "R2"),
    # ---- breaking: R1d/R1e (seeded changes C32-1, C32-3)
    V("url branch: body taken from urlsplit().path (drops #... and ?...)", FILE, RP, "urllib.parse.unquote(path[7:])", "urllib.parse.unquote(urllib.parse.urlsplit(path).path)", "R1"),
    V("url branch: parsed URL kept in a local, .path re-based", FILE, RP,
      "scheme = urllib.parse.urlsplit(path).scheme\n        if scheme == 'file':\n            return 'file://{}'.format(path_processor.join(new_dir, *os.path.relpath(urllib.parse.unquote(path[7:]), old_dir)",
      "url = urllib.parse.urlsplit(path)\n        if url.scheme == 'file':\n            return 'file://{}'.format(path_processor.join(new_dir, *os.path.relpath(urllib.parse.unquote(url.path), old_dir)", "R1"),
    V("url branch: body taken from urlparse through a temporary", FILE, RP,
      "            return 'file://{}'.format(path_processor.join(new_dir, *os.path.relpath(urllib.parse.unquote(path[7:]), old_dir)",
      "            body = urllib.parse.urlparse(path).path\n            return 'file://{}'.format(path_processor.join(new_dir, *os.path.relpath(urllib.parse.unquote(body), old_dir)", "R1"),
    V("url branch: prefix not removed before relpath", FILE, RP, "urllib.parse.unquote(path[7:])", "urllib.parse.unquote(path)", "R1"),
    V("url branch: removeprefix of a shorter literal", FILE, RP, "urllib.parse.unquote(path[7:])", "urllib.parse.unquote(path.removeprefix('file:/'))", "R1"),
    V("plain branch: first character dropped before relpath", FILE, RP, "os.path.relpath(urllib.parse.unquote(path), old_dir)", "os.path.relpath(urllib.parse.unquote(path[1:]), old_dir)", "R1"),
    V("plain branch: relative part by len(old_dir)+1 slice", FILE, RP, "*os.path.relpath(urllib.parse.unquote(path), old_dir).split(os.path.sep)",
      "*urllib.parse.unquote(path)[len(old_dir) + 1:].split(os.path.sep)", "R1", control=True),
    V("url branch: relative part by len(old_dir) slice through a local", FILE, RP,
      "            return 'file://{}'.format(path_processor.join(new_dir, *os.path.relpath(urllib.parse.unquote(path[7:]), old_dir).split(os.path.sep)))",
      "            tail = urllib.parse.unquote(path[7:])[len(old_dir):].lstrip('/')\n            return 'file://{}'.format(path_processor.join(new_dir, *tail.split(os.path.sep)))", "R1"),
    V("plain branch: string concatenation instead of path_processor.join", FILE, RP,
      "return path_processor.join(new_dir, *os.path.relpath(urllib.parse.unquote(path), old_dir).split(os.path.sep))",
      "return new_dir + '/' + os.path.relpath(urllib.parse.unquote(path), old_dir)", "R1"),
    # ---- benign
    V("benign: rename comprehension variable", FILE, RTV, "new_dir, sf) for sf in value['listing']]", "new_dir, entry) for entry in value['listing']]", None),
    V("benign: remap_path result through a temporary", FILE, RTV,
      "value['location'] = remap_path(path_processor=path_processor, path=value['location'], old_dir=old_dir, new_dir=new_dir)",
      "new_location = remap_path(path_processor=path_processor, path=value['location'], old_dir=old_dir, new_dir=new_dir)\n                        value['location'] = new_location", None),
    V("benign: positional call of remap_path", FILE, RTV, "remap_path(path_processor=path_processor, path=value['path'], old_dir=old_dir, new_dir=new_dir)",
      "remap_path(path_processor, value['path'], old_dir, new_dir)", None),
    V("benign: match rewritten as if-chain, keys reordered", FILE, RTV, None, None, None),  # replaced below
    V("benign: relative path into a local (plain branch)", FILE, RP, "else:\n        return path_processor.join(new_dir, *os.path.relpath(urllib.parse.unquote(path), old_dir).split(os.path.sep))",
      "else:\n        rel = os.path.relpath(urllib.parse.unquote(path), old_dir)\n        return path_processor.join(new_dir, *rel.split(os.path.sep))", None),
    V("benign: plain branch without URL decoding (S10 repair, part 1)", FILE, RP, "os.path.relpath(urllib.parse.unquote(path), old_dir)", "os.path.relpath(path, old_dir)", None),
    V("benign: file branch re-encodes (S10 repair, part 2)", FILE, RP,
      "'file://{}'.format(path_processor.join(new_dir, *os.path.relpath(urllib.parse.unquote(path[7:]), old_dir).split(os.path.sep)))",
      "'file://{}'.format(urllib.parse.quote(path_processor.join(new_dir, *os.path.relpath(urllib.parse.unquote(path[7:]), old_dir).split(os.path.sep))))", None),
    V("benign: scheme test through startswith", FILE, RP, "if scheme == 'file':", "if path.startswith('file://'):", None),
    V("benign: url body through a temporary", FILE, RP,
      "            return 'file://{}'.format(path_processor.join(new_dir, *os.path.relpath(urllib.parse.unquote(path[7:]), old_dir)",
      "            body = path[7:]\n            return 'file://{}'.format(path_processor.join(new_dir, *os.path.relpath(urllib.parse.unquote(body), old_dir)", None),
    V("benign: prefix length written as len('file://')", FILE, RP, "path[7:]", "path[len('file://'):]", None),
    V("benign: prefix removed with removeprefix", FILE, RP, "path[7:]", "path.removeprefix('file://')", None),
    V("benign: decoded body through a temporary, parsed URL kept for the scheme only", FILE, RP,
      "scheme = urllib.parse.urlsplit(path).scheme\n        if scheme == 'file':\n            return 'file://{}'.format(path_processor.join(new_dir, *os.path.relpath(urllib.parse.unquote(path[7:]), old_dir)",
      "url = urllib.parse.urlsplit(path)\n        if url.scheme == 'file':\n            decoded = urllib.parse.unquote(path[7:])\n            return 'file://{}'.format(path_processor.join(new_dir, *os.path.relpath(decoded, old_dir)", None),
    V("benign: relpath called with keywords", FILE, RP, "os.path.relpath(urllib.parse.unquote(path), old_dir)", "os.path.relpath(path=urllib.parse.unquote(path), start=old_dir)", None),
    # ---- benign: mechanical restructurings (battery kinds tempret / ifswap / elsedrop) and their breaking twins
    V("benign: every computed return through the same temporary (tempret)", FILE, RP, _RP_BODY,
      "    if ':/' in path:\n        scheme = urllib.parse.urlsplit(path).scheme\n        if scheme == 'file':\n            _sf_ret = " + _RP_URL + "\n            return _sf_ret\n"
      "        else:\n            return path\n    else:\n        _sf_ret = " + _RP_PLAIN + "\n        return _sf_ret", None),
    V("benign: both tests negated, branches swapped (ifswap)", FILE, RP, _RP_BODY,
      "    if not ':/' in path:\n        return " + _RP_PLAIN + "\n    else:\n        scheme = urllib.parse.urlsplit(path).scheme\n        if not scheme == 'file':\n            return path\n"
      "        else:\n            return " + _RP_URL, None),
    V("benign: guard clauses with `!=`, unchanged path through a temporary", FILE, RP, _RP_BODY,
      "    if ':/' not in path:\n        return " + _RP_PLAIN + "\n    scheme = urllib.parse.urlsplit(path).scheme\n    if scheme != 'file':\n        same = path\n        return same\n    return " + _RP_URL, None),
    V("benign: scheme test merged into one conjunction", FILE, RP, _RP_BODY,
      "    if ':/' in path:\n        if not (':/' in path and urllib.parse.urlsplit(path).scheme == 'file'):\n            return path\n        return " + _RP_URL + "\n    return " + _RP_PLAIN, None),
    V("swapped branches, test not negated: only non-file schemes are remapped", FILE, RP, _RP_BODY,
      "    if not ':/' in path:\n        return " + _RP_PLAIN + "\n    else:\n        scheme = urllib.parse.urlsplit(path).scheme\n        if scheme == 'file':\n            return path\n"
      "        else:\n            return " + _RP_URL, "R2"),
    V("scheme test widened to a second scheme", FILE, RP, "if scheme == 'file':", "if scheme in ('file', 'http'):", "R2"),
    V("tempret shape: directories swapped on the url branch", FILE, RP, _RP_BODY,
      "    if ':/' in path:\n        scheme = urllib.parse.urlsplit(path).scheme\n        if scheme == 'file':\n            _sf_ret = " + _RP_URL.replace("new_dir", "@").replace("old_dir", "new_dir").replace("@", "old_dir") + "\n            return _sf_ret\n"
      "        else:\n            return path\n    else:\n        _sf_ret = " + _RP_PLAIN + "\n        return _sf_ret", "R1"),
    V("benign: returns of remap_token_value through a temporary (tempret)", FILE, RTV, "return [remap_token_value(path_processor, old_dir, new_dir, v) for v in value]",
      "_sf_ret = [remap_token_value(path_processor, old_dir, new_dir, v) for v in value]\n            return _sf_ret", None),
    V("benign: every computed return of remap_token_value through one temporary (tempret)", FILE, RTV, None, None, None),  # filled in below
    V("benign: presence test negated with an empty branch", FILE, RTV, "if 'listing' in value:\n                        value['listing'] =",
      "if not 'listing' in value:\n                        pass\n                    else:\n                        value['listing'] =", None),
    # ---- breaking: the directories are re-bound before a nested recursion (seeded change C32-2)
    V("listing: directories re-bound to the entry's own old/new path", FILE, RTV,
      "if 'listing' in value:\n                        value['listing'] =",
      "if 'listing' in value:\n                        if 'path' in value:\n                            old_dir, new_dir = (old_dir, value['path'])\n                        value['listing'] =", "R2"),
    V("secondaryFiles: old_dir re-bound to its parent", FILE, RTV,
      "if 'secondaryFiles' in value:\n                        value['secondaryFiles'] =",
      "if 'secondaryFiles' in value:\n                        old_dir = os.path.dirname(old_dir)\n                        value['secondaryFiles'] =", "R2"),
    V("File objects: new_dir re-bound before location/path are remapped", FILE, RTV, "                    if 'location' in value:",
      "                    new_dir = os.path.join(new_dir, value.get('dirname', ''))\n                    if 'location' in value:", "R2"),
    V("arrays: directories re-bound before the element-wise recursion", FILE, RTV, "            return [remap_token_value(path_processor, old_dir, new_dir, v) for v in value]",
      "            old_dir = new_dir\n            return [remap_token_value(path_processor, old_dir, new_dir, v) for v in value]", "R2"),
    V("records: directory re-bound by a walrus before the value-wise recursion", FILE, RTV,
      "                    return {k: remap_token_value(path_processor, old_dir, new_dir, v) for k, v in value.items()}",
      "                    if (new_dir := value.get('basedir', new_dir)):\n                        pass\n                    return {k: remap_token_value(path_processor, old_dir, new_dir, v) for k, v in value.items()}", "R2"),
]


class _TempRet(ast.NodeTransformer):
    """`return <expr>` -> `_sf_ret = <expr>; return _sf_ret` for every return of a computed value (the same temporary
    on every branch, so the name has several definitions and only a flow-sensitive reading sees which one is returned)."""

    def generic_visit(self, node):
        super().generic_visit(node)
        for fld in ("body", "orelse", "finalbody"):
            b = getattr(node, fld, None)
            if isinstance(b, list) and b and isinstance(b[0], ast.stmt):
                out = []
                for st in b:
                    if isinstance(st, ast.Return) and st.value is not None and not isinstance(st.value, (ast.Name, ast.Constant)):
                        out.append(ast.Assign(targets=[ast.Name(id="_sf_ret", ctx=ast.Store())], value=st.value, lineno=0))
                        out.append(ast.Return(value=ast.Name(id="_sf_ret", ctx=ast.Load())))
                    else:
                        out.append(st)
                setattr(node, fld, out)
        return node


def _fix_variants():
    """The if-chain variant replaces the whole function: its `old` text is the current normalised text, which is
    taken from the variant machinery's own view (ast.unparse of the anchored function) at import time of /repo's
    *source text* -- computed lazily here from the file, not hard-coded."""
    import os

    from .. import REPO

    path = os.path.join(REPO, FILE)
    try:
        with open(path, encoding="utf-8") as fh:
            tree = ast.parse(fh.read())
    except (OSError, SyntaxError):
        return
    for n in tree.body:
        if isinstance(n, ast.FunctionDef) and n.name == "remap_token_value":
            text = ast.unparse(n)
            for v in VARIANTS:
                if v.name.startswith("benign: match rewritten as if-chain"):
                    v.old, v.new = text, _IF_CHAIN
                elif v.name.startswith("benign: every computed return of remap_token_value through one temporary"):
                    v.old, v.new = text, ast.unparse(_TempRet().visit(ast.parse(text)))


_fix_variants()
