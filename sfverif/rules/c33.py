"""C33 Tag ordering and tag selection follow numeric component order.

Clauses decided:
R1 = C01.R1 (compare_tags: both tags split on ".", length difference first-minus-second tested for
   != 0 and returned before any component is compared, components reach ordering/arithmetic only
   through int()).
R2 the result of compare_tags is built only from the length difference and from int differences
   `int(c1) - int(c2)` (first minus second: antisymmetric and transitive by construction); a component
   difference is returned only under its own non-zero test, the other branch goes on with the next
   component; the constant 0 is returned only after the loop.
R3 get_tag: the accumulator starts from the constant "0", every token's `.tag` is examined, the
   accumulator is replaced by a tag exactly when that tag is longer (`>`; `>=` is equivalent on a prefix
   chain, where equal length means equal tag), and the accumulator is returned.  On a prefix chain a
   longer string is a deeper tag.
R4 job names: every `Job(...)` construction takes its name from `posixpath.join(<prefix>, <tag>)`
   (two operands, the second one a tag) or copies the name of another job; `get_job_step_name` is the
   `parent` and `get_job_tag` the `name` of the POSIX path, i.e. the exact inverse of the join.  Every value
   the two helpers can return is classified; accepted formulations of the split on the LAST "/" are
   PurePosixPath(..).parent/.name/.parts[-1], posixpath.dirname/basename/split, rsplit('/', 1), rpartition('/'),
   split('/')[-1] (subscripted or unpacked, through temporaries, `or '/'` fallback on the parent half).  A
   formulation outside this list (regular expression, strip/replace, slicing by index arithmetic, an extra return
   path) cannot be proven to be the inverse of the join: it is a finding of this obligation, not an analysis
   error -- a regular expression over the tag alphabet is exactly how the split silently stops inverting the
   join for tags such as 0.10.

Deviations from DESIGN.md section 3 (C33):
* R3: DESIGN says "strictly greater length".  `>=` is accepted as well: on a prefix chain (the property's
  quantifier) two tags of equal length are equal, so `>=` is behaviour-preserving; only a comparison that
  selects the *shorter* tag, compares something else than lengths/component counts, updates on the
  wrong branch or with the wrong value fires.
* R4 "split only by get_job_step_name / get_job_tag": a by-hand split on the last "/" elsewhere is
  still a correct inverse, so other splitters are listed as an observation (who-splits table over the
  whole program), not as a finding.  The armed part is: the two helpers are the exact inverse of the
  join, and every Job name is `posixpath.join(prefix, tag)` or a copy.
* R2: sign-only results (`-1 if d < 0 else 1`) are a different but legitimate shape -> analysis error
  (unsupported shape), never a finding.
Not armed: single-character root tags other than "0" (get_tag(["5"]) == "0"): the root tag is always
"0" in the engine (Token default) -- printed as an observation.
"""

from __future__ import annotations

import ast

from ..model import dotted, unparse
from ..selftest import V
from . import c01
from ..cfg import ALL
from ._util_A import (
    _node_defs,
    calls_named,
    branch_succ,
    builtin_call,
    const_value,
    in_subtree,
    is_const,
    kwarg,
    merged_parts,
    name_def,
    nid_of,
    nonzero_test,
    only_via,
    origin_at,
    rdefs,
    resolves_to,
    scoped_binding,
    single_origin,
    split_dot,
    strip_await,
)

UT = "streamflow.core.utils"
CT = f"{UT}.compare_tags"
UFILE = "streamflow/core/utils.py"
SFILE = "streamflow/workflow/step.py"
JOB = "streamflow.core.workflow.Job"

META = {
    "explanation": (
        "Kind tracking and CFG rules on compare_tags (shared with C01.R1), classification of every return value "
        "of compare_tags (length difference / int difference / 0 after the loop), accumulator idiom of get_tag "
        "(start value, operator, operands, returned value), who-constructs table of Job names over the whole "
        "program and inverse-pair check of get_job_step_name / get_job_tag against posixpath.join. Decides "
        "necessary structural conditions; the order axioms themselves are not executed."
    ),
    "undecided": "totality/transitivity over all tags as such (follows from R1+R2 for decimal components); tags whose components are not decimal",
    "assumptions": ["tags are dot-separated decimal components without '/'", "the root tag is '0'"],
}

r1 = c01.r1


def r2(ctx):
    p = ctx.prog
    f = p.func(CT)
    g = f.cfg
    tk = c01.TagKinds(p, f)
    rets = [n for n in g.nodes.values() if n.kind == "return"]
    ctx.require(bool(rets), "C33.R2: compare_tags has no return statement")
    seen = set()
    loops = [n for n in f.body_nodes() if isinstance(n, (ast.For, ast.AsyncFor, ast.While))]
    for r in rets:
        v = r.ast.value
        k = tk.kind(v, r.id) if v is not None else ("none",)
        ok, msg = True, ""
        if k is not None and k[0] == "arith":
            ok, msg = False, f"compare_tags returns `{unparse(v)}`: `{k[1]}` of two {k[2]} values is not a difference (not antisymmetric)"
        elif k is None or k[0] not in ("lendiff", "cdiff", "const"):
            # clearly wrong: text is returned / a difference is wrapped in abs() or negated.  Sign-only results
            # (`-1 if d < 0 else 1`, `(a > b) - (a < b)` on ints) are a different, unsupported shape -> analysis error
            vv = strip_await(v)
            raw_text = v is not None and any(
                isinstance(x, (ast.Name, ast.Subscript)) and (kk := tk.kind(x)) and kk[0] in ("tag", "list", "comp") and not _under_int(f, x)
                for o in [v, *origin_at(f, v, r.id)]
                for x in ast.walk(o)
            )
            wrapped = (builtin_call(f, vv, "abs") is not None) or (isinstance(vv, ast.UnaryOp) and isinstance(vv.op, ast.USub))
            if v is not None and not raw_text and not wrapped:
                ctx.require(False, f"C33.R2: return value `{unparse(v)}` of compare_tags has an unsupported (possibly sign-only) shape")
            ok, msg = False, f"compare_tags returns `{unparse(v) if v is not None else None}`, which is neither the length difference nor an int() difference of components"
        elif k[0] == "const":
            if k[1] != 0 or isinstance(k[1], bool):
                ctx.require(False, f"C33.R2: compare_tags returns the constant {k[1]!r}: sign-only shape not supported")
            inside = any(in_subtree(r.ast, lp) for lp in loops)
            ok, msg = not inside, "`return 0` inside the component loop: tags that agree on a leading component compare equal"
        elif k[1:] != (0, 1):
            ok, msg = False, f"{'length' if k[0] == 'lendiff' else 'component'} difference is second minus first: the order is reversed / not antisymmetric with the other difference"
        elif k[0] == "cdiff":
            # returned only under its own non-zero test; the zero branch continues
            guards = []
            for t in g.nodes.values():
                if t.kind != "test":
                    continue
                nz = nonzero_test(t.ast)
                if nz is None or tk.kind(nz[0], t.id) != k:
                    continue
                guards.append((t, nz[1]))
            good = [(t, e) for t, e in guards if e in ("t", "f") and g.dominates(t.id, r.id) and only_via(g, t.id, e, r.id)]
            if not good:
                bad_ops = [e for _t, e in guards if e.startswith("bad")]
                ok, msg = False, ("component difference is returned without testing it for != 0: only the first component is compared"
                                  if not bad_ops else f"component difference is tested with `{bad_ops[0][4:]}` instead of != 0")
            else:
                t, e = good[0]
                other = "f" if e == "t" else "t"
                cont = branch_succ(g, t.id, other)
                heads = []
                for lp in loops:
                    if in_subtree(t.ast, lp):
                        heads += g.ids_of(lp) if not isinstance(lp, ast.While) else g.ids_of(lp.test)
                if not heads or not all(c in heads or any(h in g.reach([c]) for h in heads) for c in cont):
                    ok, msg = False, "after an equal component the loop does not continue with the next component"
        seen.add(k[0] if k else "?")
        ctx.ob("R2", f"compare_tags: `return {unparse(v) if v is not None else ''}` is a length/int difference (first - second) or the final 0", ok,
               func=f, node=r.ast, instance=f"compare_tags:return:{k[0] if k else 'other'}:{unparse(v) if (k is None or k[0] not in ('lendiff', 'cdiff')) and v is not None else ''}", message=msg)
    ctx.ob("R2", "compare_tags returns the length difference, the component difference and 0", {"lendiff", "cdiff", "const"} <= seen,
           func=f, node=f.node, instance="compare_tags:return:all", message=f"return kinds found: {sorted(seen)}")
    # the implicit fall-through `return None`
    falls = [a for a, _k in g.pred[g.exit] if g.nodes[a].kind != "return"]
    ctx.ob("R2", "compare_tags never falls off its end", not falls, func=f, node=f.node, instance="compare_tags:fallthrough",
           message="a path leaves compare_tags without a return value (None is not an int)")


def _under_int(f, x) -> bool:
    p = getattr(x, "_parent", None)
    return builtin_call(f, p, "int") is not None


# --------------------------------------------------------------------------- R3


def _through_temp(f, e, nid, depth: int = 4):
    """The expression a plain local `e` stands for when it is evaluated at CFG node `nid`: the value of its single
    reaching definition (a plain, non-unpacking assignment or a walrus), provided that no local read by that value is
    re-bound on a path from the definition to `nid` (the value is still what re-evaluating the expression at `nid`
    would give, as far as local bindings are concerned).  Anything else (several definitions, parameter, loop
    variable, stale operand) is returned unchanged, so the caller judges the name itself."""
    g = f.cfg
    at = nid  # where the current name is read (the test, then the definition of the previous temporary)
    while depth > 0 and isinstance(e, ast.Name) and scoped_binding(e) is None:
        depth -= 1
        ds = rdefs(f, e.id, at, use=e)
        if len(ds) != 1 or ds[0].kind not in ("assign", "walrus") or ds[0].index is not None or ds[0].value is None:
            break
        d = ds[0]
        if d.nid is None:
            break
        if d.nid != nid:
            after = g.reach([d.nid], avoid=[d.nid], kinds=ALL)
            between = {n for n in after if n == nid or nid in g.reach([n], avoid=[d.nid], kinds=ALL)}
            between.discard(nid)  # a walrus inside the test itself is handled by rdefs(use=)
            read = {x.id for x in ast.walk(d.value) if isinstance(x, ast.Name)}
            if any(_node_defs(g.nodes[n], nm) for n in between for nm in read):
                break
        e, at = strip_await(d.value), d.nid
        if isinstance(e, ast.NamedExpr):
            e = e.value
    return e


def r3(ctx):
    p = ctx.prog
    f = p.func(f"{UT}.get_tag")
    g = f.cfg
    ps = f.params
    ctx.require(len(ps) >= 1, "C33.R3: get_tag lost its parameter")
    tokens_p = ps[0]
    rets = [n for n in g.nodes.values() if n.kind == "return" and n.ast.value is not None]
    ctx.require(len(rets) >= 1, "C33.R3: get_tag has no return")
    loops = [n for n in f.body_nodes() if isinstance(n, (ast.For, ast.AsyncFor))]
    ctx.require(len(loops) == 1, f"C33.R3: get_tag: expected one loop over the tags, found {len(loops)} (unsupported shape)")
    loop = loops[0]
    ctx.require(isinstance(loop.target, ast.Name), "C33.R3: get_tag loop target is not a plain name")
    lv = loop.target.id
    # what does the loop variable denote: a tag (iterating [t.tag for t in tokens]) or a token
    it = single_origin(f, loop.iter, (g.ids_of(loop) or [None])[0])
    ctx.require(it is not None, "C33.R3: get_tag loop iterable has several origins")
    elem = None  # 'tag' | 'token'
    full = True
    if isinstance(it, (ast.ListComp, ast.GeneratorExp, ast.SetComp)) and len(it.generators) == 1:
        gen = it.generators[0]
        src = single_origin(f, gen.iter, (g.ids_of(loop) or [None])[0])
        if isinstance(src, ast.Name) and src.id == tokens_p and isinstance(gen.target, ast.Name):
            if isinstance(it.elt, ast.Attribute) and it.elt.attr == "tag" and isinstance(it.elt.value, ast.Name) and it.elt.value.id == gen.target.id:
                elem = "tag"
            full = not gen.ifs
    elif isinstance(it, ast.Name) and it.id == tokens_p:
        elem = "token"
    ctx.require(elem is not None, f"C33.R3: get_tag iterates `{unparse(loop.iter)}`: unsupported shape")
    ctx.ob("R3", "get_tag examines the tag of every token", full, func=f, node=loop, instance="get_tag:all", message="the loop filters the tokens it looks at")

    def is_loop_tag(e):
        e = strip_await(e)
        if elem == "tag":
            return isinstance(e, ast.Name) and e.id == lv
        return isinstance(e, ast.Attribute) and e.attr == "tag" and isinstance(e.value, ast.Name) and e.value.id == lv

    # accumulator: the name returned
    accs = {r.ast.value.id for r in rets if isinstance(r.ast.value, ast.Name)}
    ctx.require(len(accs) == 1 and all(isinstance(r.ast.value, ast.Name) for r in rets), "C33.R3: get_tag does not return a single accumulator variable")
    acc = accs.pop()
    init_ok, upd = False, []
    inits = []
    for n in g.nodes.values():
        if n.kind == "stmt" and isinstance(n.ast, (ast.Assign, ast.AnnAssign)):
            tgts = n.ast.targets if isinstance(n.ast, ast.Assign) else [n.ast.target]
            if any(isinstance(t, ast.Name) and t.id == acc for t in tgts):
                (upd if in_subtree(n.ast, loop) else inits).append(n)
    ctx.require(bool(inits), "C33.R3: get_tag accumulator is never initialised")
    loop_ids = g.ids_of(loop)
    init_ok = all(is_const(n.ast.value, "0") for n in inits) and all(g.dominates([n.id for n in inits], i) for i in loop_ids)
    ctx.ob("R3", "get_tag starts from the root tag '0'", init_ok, func=f, node=inits[0].ast, instance="get_tag:init",
           message=f"accumulator starts from `{unparse(inits[0].ast.value)}`: a step without inputs / with only root tags gets another tag than '0'")
    ctx.ob("R3", "get_tag returns the accumulator after the loop", all(not in_subtree(r.ast, loop) for r in rets), func=f, node=rets[0].ast,
           instance="get_tag:return", message="get_tag returns from inside the loop: later (deeper) tags are ignored")
    ctx.ob("R3", "get_tag updates the accumulator inside the loop", bool(upd), func=f, node=loop, instance="get_tag:update:exists",
           message="the accumulator is never replaced: get_tag always answers '0'")
    for u in upd:
        ok, msg = True, ""
        if not is_loop_tag(u.ast.value):
            ok, msg = False, f"accumulator is replaced by `{unparse(u.ast.value)}`, not by the examined tag"
        else:
            tests = [t for t in g.nodes.values() if t.kind == "test" and in_subtree(t.ast, loop) and g.dominates(t.id, u.id)]
            tests = [t for t in tests if isinstance(t.ast, ast.Compare) and len(t.ast.ops) == 1]
            if len(tests) != 1:
                ok, msg = False, f"the update is guarded by {len(tests)} comparisons (expected the single length test)"
            else:
                t = tests[0]
                l, r, op = t.ast.left, t.ast.comparators[0], t.ast.ops[0]
                # an operand computed into a temporary first (`n = len(tag)` ... `if n > len(output_tag)`) is read
                # through its single, still valid reaching definition
                l, r = _through_temp(f, l, t.id), _through_temp(f, r, t.id)
                ll, lr = builtin_call(f, l, "len"), builtin_call(f, r, "len")
                if ll is None or lr is None or len(ll.args) != 1 or len(lr.args) != 1:
                    ok, msg = False, f"`{unparse(t.ast)}` does not compare lengths: the deepest tag is not selected"
                else:
                    a, b = ll.args[0], lr.args[0]
                    # component counts (len(x.split('.'))) instead of string lengths: same order on a prefix chain
                    if split_dot(a) is not None and split_dot(b) is not None:
                        a, b = split_dot(a), split_dot(b)
                    is_acc = lambda e: isinstance(e, ast.Name) and e.id == acc  # noqa: E731
                    if is_loop_tag(a) and is_acc(b):
                        want = (ast.Gt, ast.GtE)
                    elif is_acc(a) and is_loop_tag(b):
                        want = (ast.Lt, ast.LtE)
                    else:
                        want = None
                    if want is None:
                        ok, msg = False, f"`{unparse(t.ast)}` does not compare the examined tag with the accumulator"
                    elif isinstance(op, want):
                        # `tag longer` holds on the true branch
                        if not only_via(g, t.id, "t", u.id):
                            ok, msg = False, "the accumulator is replaced on the branch where the tag is NOT longer"
                    elif isinstance(op, (ast.Gt, ast.GtE, ast.Lt, ast.LtE)):
                        # `tag shorter (or equal)` on the true branch: the update belongs on the false branch
                        if not only_via(g, t.id, "f", u.id):
                            ok, msg = False, f"`{unparse(t.ast)}` selects the shortest tag: on a prefix chain the result is the shallowest tag"
                    else:
                        ok, msg = False, f"`{unparse(t.ast)}`: operator {type(op).__name__} does not select the longest tag"
        ctx.ob("R3", "get_tag replaces the accumulator exactly by a longer tag", ok, func=f, node=u.ast, instance="get_tag:update", message=msg)
    ctx.observe("C33.R3 (not armed): get_tag starts from '0' and compares string lengths, so a single-character root tag other than '0' "
                "(e.g. get_tag of one token tagged '5') yields '0'; the engine's root tag is always '0' (Token default), so no rule is bound to it")


# --------------------------------------------------------------------------- R4


_PATH_CLASSES = ("PurePosixPath", "PosixPath", "PurePath")
_ACCEPTED = "PurePosixPath(..).parent/.name, posixpath.dirname/basename/split, rsplit('/', 1), rpartition('/')"


def _is_sep(e) -> bool:
    return is_const(e, "/") or (e is not None and dotted(e) == "posixpath.sep")


def _peel(f, e, or_sep: bool):
    """Look through awaits, str(...) / .as_posix() / .__str__() wrappers, locals with a single origin and
    (only for the `parent` half, `or_sep`) a trailing `or '/'` fallback for an empty parent."""
    for _ in range(12):
        e = strip_await(e)
        if isinstance(e, ast.Call) and isinstance(e.func, ast.Attribute) and e.func.attr in ("as_posix", "__str__") and not e.args and not e.keywords:
            e = e.func.value
        elif builtin_call(f, e, "str") is not None and len(e.args) == 1 and not e.keywords:
            e = e.args[0]
        elif or_sep and isinstance(e, ast.BoolOp) and isinstance(e.op, ast.Or) and len(e.values) >= 2 and all(_is_sep(v) for v in e.values[1:]):
            e = e.values[0]
        elif isinstance(e, ast.Name):
            o = single_origin(f, e)
            if o is None or o is e:
                break
            e = o
        else:
            break
    return e


def _unpacked(f, e):
    """A local bound by sequence unpacking `a, b = <value>` denotes `<value>[i]`: (value, i), else None.
    With one starred target the names after it are counted from the end."""
    if not isinstance(e, ast.Name) or scoped_binding(e) is not None:
        return None
    nid = nid_of(f, e)
    if nid is None:
        return None
    ds = rdefs(f, e.id, nid, use=e)
    if len(ds) != 1 or ds[0].kind != "assign" or ds[0].index is None:
        return None
    d = ds[0]
    tgts = d.stmt.targets if isinstance(d.stmt, ast.Assign) else [d.stmt.target]
    for t in tgts:
        if not isinstance(t, (ast.Tuple, ast.List)):
            continue
        star = [j for j, y in enumerate(t.elts) if isinstance(y, ast.Starred)]
        for i, x in enumerate(t.elts):
            if isinstance(x, ast.Name) and x.id == e.id:
                if not star or i < star[0]:
                    return d.value, i
                return d.value, i - len(t.elts)
    return None


def _split_half(p, f, e, want: str):
    """Which half of a POSIX path does `e` denote?  -> (got, subject): got in {'parent', 'name'} for the exact
    inverses of posixpath.join(prefix, tag), another description for a recognised but different part, None when
    the formulation is not one of the splits this rule can prove."""
    e = _peel(f, e, want == "parent")
    idx, recv = None, e
    un = _unpacked(f, e)
    if un is not None:
        recv, idx = _peel(f, un[0], False), un[1]
    elif isinstance(e, ast.Subscript):
        v = const_value(e.slice)
        if isinstance(v, int) and not isinstance(v, bool):
            recv, idx = _peel(f, e.value, False), v
        else:
            return None, None
    if idx is None:
        chain, base = [], recv
        while isinstance(base, ast.Attribute):
            chain.append(base.attr)
            base = base.value
        base = _peel(f, base, False)
        if chain and isinstance(base, ast.Call):
            q = p.resolve_call(f, base, fanout=False)
            if any(x.split(".")[-1] in _PATH_CLASSES for x in q) and len(base.args) == 1 and not base.keywords:
                return ".".join(reversed(chain)), base.args[0]
            return None, None
        if isinstance(recv, ast.Call) and len(recv.args) == 1 and not recv.keywords:
            if resolves_to(p, f, recv, "posixpath.dirname", "os.path.dirname"):
                return "parent", recv.args[0]
            if resolves_to(p, f, recv, "posixpath.basename", "os.path.basename"):
                return "name", recv.args[0]
        return None, None
    # an element of a split
    two = {0: "parent", -2: "parent", 1: "name", -1: "name"}
    if isinstance(recv, ast.Attribute) and recv.attr == "parts":
        base = _peel(f, recv.value, False)
        if isinstance(base, ast.Call) and len(base.args) == 1 and not base.keywords:
            q = p.resolve_call(f, base, fanout=False)
            if any(x.split(".")[-1] in _PATH_CLASSES for x in q):
                return ("name" if idx == -1 else f"parts[{idx}]"), base.args[0]
        return None, None
    if not isinstance(recv, ast.Call):
        return None, None
    if resolves_to(p, f, recv, "posixpath.split", "os.path.split"):
        if len(recv.args) == 1 and not recv.keywords:
            return two.get(idx, f"split[{idx}]"), recv.args[0]
        return None, None
    if not isinstance(recv.func, ast.Attribute) or recv.func.attr not in ("split", "rsplit", "partition", "rpartition"):
        return None, None
    meth, subject = recv.func.attr, recv.func.value
    if not _is_sep(kwarg(recv, "sep", 0)):
        return None, None  # split on something else than '/'
    if meth == "rpartition":
        return {0: "parent", -3: "parent", 2: "name", -1: "name"}.get(idx, f"rpartition('/')[{idx}]"), subject
    if meth == "partition":
        return f"partition('/')[{idx}] (split at the FIRST '/')", subject
    ms = kwarg(recv, "maxsplit", 1)
    if meth == "rsplit" and ms is not None and is_const(ms, 1):
        return two.get(idx, f"rsplit('/', 1)[{idx}]"), subject
    if ms is None or meth == "rsplit":
        # all components (or the last n+1 pieces): only the last one is a half of the name
        return ("name" if idx == -1 else f"component[{idx}]"), subject
    return f"split('/', {unparse(ms)})[{idx}] (split at the FIRST '/')", subject


def _path_inverse(ctx, f, want: str):
    """get_job_step_name / get_job_tag return the `parent` / `name` half of the job name, in one of the exact
    inverse formulations of posixpath.join(prefix, tag): PurePosixPath(job_name).parent[.as_posix()|str] / .name,
    posixpath.dirname / basename / split, rsplit('/', 1), rpartition('/') (subscripted or unpacked, through
    temporaries).  Every value the function can return is classified; a value whose formulation is not one of
    these (a regular expression, index arithmetic, strip/replace, ...) cannot be shown to be the inverse and is a
    finding of this obligation, not an analysis error."""
    p = ctx.prog
    ps = f.params
    ctx.require(len(ps) >= 1, f"C33.R4: {f.name} lost its job-name parameter")
    rets = [n for n in f.body_nodes() if isinstance(n, ast.Return)]
    bad = []
    if not any(r.value is not None for r in rets):
        bad.append(f"{f.name} returns no value")
    falls = [a for a, _k in f.cfg.pred[f.cfg.exit] if f.cfg.nodes[a].kind != "return"]
    if falls and not bad:
        bad.append(f"a path leaves {f.name} without returning a half of the job name")
    for r in rets:
        if r.value is None:
            bad.append(f"{f.name} has a bare `return`")
            continue
        for o in origin_at(f, r.value):
            got, subject = _split_half(p, f, o, want)
            if got is None:
                bad.append(f"{f.name} returns `{unparse(o)}`: this formulation cannot be shown to be the `{want}` half of "
                           f"posixpath.join(prefix, tag) (accepted exact inverses: {_ACCEPTED})")
                continue
            so = _peel(f, subject, False)
            if not (isinstance(so, ast.Name) and so.id == ps[0] and (d := name_def(f, so)) is not None and d.kind == "param"):
                bad.append(f"{f.name} splits `{unparse(subject)}`, not its job-name parameter `{ps[0]}`")
            elif got != want:
                bad.append(f"{f.name} returns `{got}` of `{unparse(subject)}` (expected `{want}`): it is not the inverse of posixpath.join(prefix, tag)")
    ctx.ob("R4", f"{f.name} returns the `{want}` of the job name as a POSIX path", not bad, func=f, node=(rets[0] if rets else f.node),
           instance=f"{f.name}:inverse", message="; ".join(bad))


def _is_tag_like(p, f, e, nid) -> bool:
    o = single_origin(f, e, nid)
    if o is None:
        return False
    v = const_value(o)
    if isinstance(v, str):
        return bool(v) and all(c.isdigit() for c in v.split(".")) and "/" not in v
    if isinstance(o, ast.Attribute) and o.attr == "tag":
        return True
    if isinstance(o, ast.Call) and resolves_to(p, f, o, f"{UT}.get_tag", f"{UT}.get_job_tag"):
        return True
    if isinstance(o, ast.Name):
        d = name_def(f, o, nid)
        if d is not None and d.kind == "for" and d.index is None:
            # loop over the keys of the tag-grouping map
            it = d.value
            maps = {c.args[1].id for c in f.calls() if resolves_to(p, f, c, "streamflow.workflow.step._group_by_tag") and len(c.args) == 2 and isinstance(c.args[1], ast.Name)}
            if any(isinstance(x, ast.Name) and x.id in maps for x in ast.walk(it)):
                return True  # keys of the tag-grouping map
            return any(isinstance(x, ast.Attribute) and x.attr == "tag" for x in ast.walk(it))
        if o.id == "tag" and d is not None and d.kind == "param":
            return True
    return False


def r4(ctx):
    p = ctx.prog
    _path_inverse(ctx, p.func(f"{UT}.get_job_step_name"), "parent")
    _path_inverse(ctx, p.func(f"{UT}.get_job_tag"), "name")
    sites = [(f, c) for f, c in calls_named(p, "Job") if resolves_to(p, f, c, JOB)]
    ctx.require(len(sites) >= 2, f"C33.R4: only {len(sites)} Job(...) constructions found")
    built = 0
    for f, c in sites:
        nid = nid_of(f, c)
        name = kwarg(c, "name", 0)
        ctx.require(name is not None, f"C33.R4: Job(...) without name in {f.qualname}")
        os_ = origin_at(f, name, nid)
        for o in os_:
            ok, msg, what = True, "", "join"
            if isinstance(o, ast.Attribute) and o.attr == "name":
                t = p.type_of(f, o.value)
                if t == JOB or unparse(o.value).split(".")[-1] in ("job", "failed_job", "new_job"):
                    what = "copy"
                else:
                    ctx.require(False, f"C33.R4: {f.qualname}: Job name copied from `{unparse(o)}` whose type is not known to be Job")
            elif isinstance(o, ast.Call) and resolves_to(p, f, o, "posixpath.join", "os.path.join"):
                built += 1
                if len(o.args) != 2 or o.keywords or any(isinstance(a, ast.Starred) for a in o.args):
                    ok, msg = False, f"job name is joined from {len(o.args)} operands: get_job_tag/get_job_step_name no longer split it back"
                elif not _is_tag_like(p, f, o.args[1], nid):
                    ok, msg = False, f"the last operand `{unparse(o.args[1])}` of the job name is not a tag"
                elif _is_tag_like(p, f, o.args[0], nid) and not isinstance(single_origin(f, o.args[0], nid), ast.Attribute):
                    ok, msg = False, "prefix and tag are swapped in the job name"
            else:
                parts = merged_parts(o)
                if len(parts) == 3 and parts[1] == "/" and not isinstance(parts[0], str) and not isinstance(parts[2], str):
                    built += 1
                    ok = _is_tag_like(p, f, parts[2], nid)
                    msg = f"the last operand `{unparse(parts[2])}` of the job name is not a tag"
                else:
                    built += 1
                    ok, msg = False, f"job name `{unparse(o)}` is not posixpath.join(<prefix>, <tag>): get_job_tag / get_job_step_name do not invert it"
            ctx.ob("R4", f"{f.qualname.split('.')[-2]}.{f.name}: Job name is {'copied from another job' if what == 'copy' else 'posixpath.join(prefix, tag)'}",
                   ok, func=f, node=c, instance=f"jobname:{what}:{unparse(o)}", message=msg, trivial=(what == "copy"))
    ctx.require(built >= 1, "C33.R4: no Job name construction (posixpath.join) found in the program")
    # split only by get_job_step_name / get_job_tag: no other code takes a job name apart by hand
    inverse = {f"{UT}.get_job_step_name", f"{UT}.get_job_tag"}

    def is_job_name(f, e) -> bool:
        e = strip_await(e)
        if isinstance(e, ast.Name):
            return e.id in ("job_name",)
        if isinstance(e, ast.Attribute) and e.attr == "name":
            t = p.type_of(f, e.value)
            return t == JOB or (t is None and unparse(e.value).split(".")[-1] in ("job", "failed_job", "new_job"))
        return False

    others = []
    for nm in ("dirname", "basename", "split", "rsplit", "rpartition", "partition", "PurePosixPath", "PurePath", "Path"):
        for f, c in calls_named(p, nm):
            if f.qualname in inverse:
                continue
            subject = None
            if nm in ("dirname", "basename", "PurePosixPath", "PurePath", "Path") or (nm == "split" and isinstance(c.func, ast.Attribute) and dotted(c.func) in ("posixpath.split", "os.path.split")):
                subject = c.args[0] if c.args else None
            elif isinstance(c.func, ast.Attribute) and c.args and is_const(c.args[0], "/"):
                subject = c.func.value
            if subject is not None and is_job_name(f, subject):
                others.append((f, c))
    for f, c in others:
        # not armed: a by-hand split on the last '/' is still a correct inverse; reported for the who-splits table only
        ctx.observe(f"C33.R4 (not armed): {f.qualname} takes a job name apart by hand: `{unparse(c)}` (who-splits table: only get_job_step_name / get_job_tag expected)")
    ctx.ob("R4", "who-splits table of job names computed over the whole program", True, func=p.func(f"{UT}.get_job_tag"), instance="jobname:split:table", trivial=True)


RULES = [("R1", r1), ("R2", r2), ("R3", r3), ("R4", r4)]
FLOORS = {"R1": 5, "R2": 4, "R3": 5, "R4": 6}

GT = f"{UT}.get_tag"
SS = "streamflow.workflow.step.ScheduleStep.run"

VARIANTS = [
    # R1 (shared with C01)
    V("compare_tags: string three-way compare", UFILE, CT, "if (res := (int(elem1) - int(elem2))) != 0:", "if (res := ((elem1 > elem2) - (elem1 < elem2))) != 0:", "R1", control=True),
    V("compare_tags: length test removed", UFILE, CT, "    if (res := (len(list1) - len(list2))) != 0:\n        return res\n", "", "R1"),
    # R2
    V("compare_tags: component difference swapped", UFILE, CT, "int(elem1) - int(elem2)", "int(elem2) - int(elem1)", "R2", control=True),
    V("compare_tags: component difference returned unguarded", UFILE, CT,
      "        if (res := (int(elem1) - int(elem2))) != 0:\n            return res", "        return int(elem1) - int(elem2)", "R2"),
    V("compare_tags: return 0 inside the loop", UFILE, CT,
      "        if (res := (int(elem1) - int(elem2))) != 0:\n            return res\n    return 0",
      "        if (res := (int(elem1) - int(elem2))) != 0:\n            return res\n        return 0", "R2"),
    V("compare_tags: returns abs difference", UFILE, CT, "            return res\n    return 0", "            return abs(res)\n    return 0", "R2"),
    V("compare_tags: component difference tested with > 0", UFILE, CT, "(res := (int(elem1) - int(elem2))) != 0", "(res := (int(elem1) - int(elem2))) > 0", "R2"),
    V("compare_tags: final return missing", UFILE, CT, "\n    return 0", "", "R2"),
    V("compare_tags: components added instead of subtracted", UFILE, CT, "int(elem1) - int(elem2)", "int(elem1) + int(elem2)", "R2"),
    # R3
    V("get_tag: selects the shortest tag", UFILE, GT, "len(tag) > len(output_tag)", "len(tag) < len(output_tag)", "R3", control=True),
    V("get_tag: starts from the empty tag", UFILE, GT, "output_tag = '0'", "output_tag = ''", "R3"),
    V("get_tag: compares tag text instead of length", UFILE, GT, "len(tag) > len(output_tag)", "tag > output_tag", "R3"),
    V("get_tag: returns inside the loop", UFILE, GT, "            output_tag = tag\n    return output_tag", "            output_tag = tag\n        return output_tag", "R3"),
    V("get_tag: update on the wrong branch", UFILE, GT, "if len(tag) > len(output_tag):\n            output_tag = tag", "if len(tag) > len(output_tag):\n            pass\n        else:\n            output_tag = tag", "R3"),
    V("get_tag: only tokens with a value are examined", UFILE, GT, "[t.tag for t in tokens]", "[t.tag for t in tokens if t.value]", "R3"),
    # R4
    V("get_job_tag: stem instead of name", UFILE, f"{UT}.get_job_tag", ".name", ".stem", "R4", control=True),
    V("get_job_step_name: parent.name", UFILE, f"{UT}.get_job_step_name", ".parent.as_posix()", ".parent.name", "R4"),
    V("ScheduleStep: job name joined with '.'", SFILE, SS, "name=posixpath.join(self.job_prefix, tag)", "name=self.job_prefix + '.' + tag", "R4"),
    V("ScheduleStep: job name with an extra path level", SFILE, SS, "name=posixpath.join(self.job_prefix, tag)", "name=posixpath.join(self.job_prefix, 'job', tag)", "R4"),
    V("get_job_tag: first path component", UFILE, f"{UT}.get_job_tag", "PurePosixPath(job_name).name", "job_name.split('/')[0]", "R4"),
    V("ScheduleStep: job name is the tag only", SFILE, SS, "name=posixpath.join(self.job_prefix, tag)", "name=tag", "R4"),
    V("ScheduleStep: operands swapped", SFILE, SS, "name=posixpath.join(self.job_prefix, tag)", "name=posixpath.join(tag, self.job_prefix)", "R4"),
    # benign
    V("benign: get_tag renamed locals and >=", UFILE, GT,
      "    output_tag = '0'\n    for tag in [t.tag for t in tokens]:\n        if len(tag) > len(output_tag):\n            output_tag = tag\n    return output_tag",
      "    best = '0'\n    tags = [tok.tag for tok in tokens]\n    for candidate in tags:\n        if len(best) < len(candidate):\n            best = candidate\n    return best", None),
    V("benign: get_tag iterates the tokens directly", UFILE, GT,
      "    for tag in [t.tag for t in tokens]:\n        if len(tag) > len(output_tag):\n            output_tag = tag",
      "    for t in tokens:\n        if len(t.tag) > len(output_tag):\n            output_tag = t.tag", None),
    V("benign: get_job_tag via posixpath.basename and a temporary", UFILE, f"{UT}.get_job_tag", "return PurePosixPath(job_name).name", "tag = posixpath.basename(job_name)\n    return tag", None),
    V("benign: compare_tags index loop with temporaries", UFILE, CT,
      "    for elem1, elem2 in zip(list1, list2, strict=True):\n        if (res := (int(elem1) - int(elem2))) != 0:\n            return res",
      "    for i in range(len(list1)):\n        d = int(list1[i]) - int(list2[i])\n        if d == 0:\n            continue\n        return d", None),
    V("benign: get_tag compares component counts", UFILE, GT, "len(tag) > len(output_tag)", "len(tag.split('.')) > len(output_tag.split('.'))", None),
    V("benign: get_job_step_name via rsplit", UFILE, f"{UT}.get_job_step_name", "PurePosixPath(job_name).parent.as_posix()", "job_name.rsplit('/', 1)[0]", None),
    # R3: operands of the length test read through temporaries (reaching definition, still valid at the test)
    V("benign: get_tag length of the examined tag through a temporary (testtemp)", UFILE, GT,
      "        if len(tag) > len(output_tag):", "        n = len(tag)\n        if n > len(output_tag):", None),
    V("benign: get_tag both lengths through temporaries, one chained", UFILE, GT,
      "        if len(tag) > len(output_tag):", "        n = len(tag)\n        cur = len(output_tag)\n        m = cur\n        if m < n:", None),
    V("get_tag: accumulator length taken once before the loop (stale temporary)", UFILE, GT,
      "    for tag in [t.tag for t in tokens]:\n        if len(tag) > len(output_tag):",
      "    n = len(output_tag)\n    for tag in [t.tag for t in tokens]:\n        if len(tag) > n:", "R3"),
    V("get_tag: temporary holds the length of the last component only", UFILE, GT,
      "        if len(tag) > len(output_tag):", "        n = len(tag.split('.')[-1])\n        if n > len(output_tag):", "R3"),
    V("get_tag: temporaries swapped (selects the shortest tag)", UFILE, GT,
      "        if len(tag) > len(output_tag):", "        n = len(output_tag)\n        if n > len(tag):", "R3"),
    # R4: formulations of the split that cannot be proven to be the inverse of the join are findings (never exit 2)
    V("get_job_step_name: tag stripped by a precompiled regular expression (seeded 3)", UFILE, f"{UT}.get_job_step_name", "return PurePosixPath(job_name).parent.as_posix()",
      "return _JOB_TAG_SUFFIX.sub('', job_name) or posixpath.sep", "R4", control=True,
      append="import re\n_JOB_TAG_SUFFIX = re.compile('/\\\\d+(\\\\.\\\\d)*$')\n"),
    V("get_job_step_name: inline re.sub into a temporary", UFILE, f"{UT}.get_job_step_name", "return PurePosixPath(job_name).parent.as_posix()",
      "step_name = re.sub('/[0-9.]*$', '', job_name)\n    return step_name", "R4"),
    V("get_job_step_name: trailing digits stripped", UFILE, f"{UT}.get_job_step_name", "return PurePosixPath(job_name).parent.as_posix()", "return job_name.rstrip('0123456789.').rstrip('/')", "R4"),
    V("get_job_step_name: slice up to rfind", UFILE, f"{UT}.get_job_step_name", "return PurePosixPath(job_name).parent.as_posix()", "return job_name[:job_name.rfind('/')]", "R4"),
    V("get_job_step_name: wrong half of posixpath.split", UFILE, f"{UT}.get_job_step_name", "return PurePosixPath(job_name).parent.as_posix()", "return posixpath.split(job_name)[1]", "R4"),
    V("get_job_tag: partition at the first '/'", UFILE, f"{UT}.get_job_tag", "return PurePosixPath(job_name).name", "return job_name.partition('/')[2]", "R4"),
    V("get_job_tag: unpacked halves swapped", UFILE, f"{UT}.get_job_tag", "return PurePosixPath(job_name).name", "tag, _, _prefix = job_name.rpartition('/')\n    return tag", "R4"),
    V("get_job_tag: whole name returned on one path", UFILE, f"{UT}.get_job_tag", "return PurePosixPath(job_name).name",
      "if '.' not in job_name:\n        return job_name\n    return PurePosixPath(job_name).name", "R4"),
    V("get_job_tag: splits a normalised copy of the name", UFILE, f"{UT}.get_job_tag", "return PurePosixPath(job_name).name", "job_name = job_name.rstrip('.0')\n    return posixpath.basename(job_name)", "R4"),
    V("get_job_tag: rsplit on '.'", UFILE, f"{UT}.get_job_tag", "return PurePosixPath(job_name).name", "return job_name.rsplit('.', 1)[-1]", "R4"),
    V("benign: get_job_step_name via posixpath.split subscript", UFILE, f"{UT}.get_job_step_name", "return PurePosixPath(job_name).parent.as_posix()", "return posixpath.split(job_name)[0]", None),
    V("benign: get_job_step_name via unpacked posixpath.split", UFILE, f"{UT}.get_job_step_name", "return PurePosixPath(job_name).parent.as_posix()", "head, _tail = posixpath.split(job_name)\n    return head", None),
    V("benign: get_job_step_name via rsplit with maxsplit keyword and root fallback", UFILE, f"{UT}.get_job_step_name", "return PurePosixPath(job_name).parent.as_posix()",
      "return job_name.rsplit(posixpath.sep, maxsplit=1)[0] or '/'", None),
    V("benign: get_job_step_name via posixpath.dirname of a PurePosixPath-free temporary", UFILE, f"{UT}.get_job_step_name", "return PurePosixPath(job_name).parent.as_posix()",
      "parent = posixpath.dirname(job_name)\n    logger.debug(parent)\n    return str(parent)", None),
    V("benign: get_job_tag via unpacked rpartition", UFILE, f"{UT}.get_job_tag", "return PurePosixPath(job_name).name", "_prefix, _sep, tag = job_name.rpartition('/')\n    return tag", None),
    V("benign: get_job_tag via starred unpacking of split", UFILE, f"{UT}.get_job_tag", "return PurePosixPath(job_name).name", "*_, tag = job_name.split('/')\n    return tag", None),
    V("benign: get_job_tag via the last of PurePosixPath.parts", UFILE, f"{UT}.get_job_tag", "return PurePosixPath(job_name).name", "path = PurePosixPath(job_name)\n    return path.parts[-1]", None),
    V("benign: ScheduleStep job name into a local first", SFILE, SS,
      "job = Job(name=posixpath.join(self.job_prefix, tag), workflow_id",
      "job_name = posixpath.join(self.job_prefix, tag)\n                        logger.debug(job_name)\n                        job = Job(name=job_name, workflow_id", None),
]
