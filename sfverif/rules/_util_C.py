"""Helpers shared by the rule modules of group C (C07, C15, C28).

Pure AST / CFG utilities layered on the engine API (nothing here imports or runs /repo code).
"""

from __future__ import annotations

import ast

from ..dataflow import defs_of, origins
from ..model import ancestors, dotted, parent, unparse, walk_no_nested


# --------------------------------------------------------------------------- small AST predicates


def is_name(e: ast.AST | None, ident: str | None = None) -> bool:
    return isinstance(e, ast.Name) and (ident is None or e.id == ident)


def const(e: ast.AST | None):
    """Python value of a Constant node, else the sentinel `...`."""
    return e.value if isinstance(e, ast.Constant) else ...


def strip_await(e: ast.AST) -> ast.AST:
    while isinstance(e, ast.Await):
        e = e.value
    return e


def kwarg(call: ast.Call, name: str, pos: int | None = None) -> ast.AST | None:
    """Keyword argument `name` of a call, or the positional argument number `pos`."""
    for k in call.keywords:
        if k.arg == name:
            return k.value
    if pos is not None and pos < len(call.args) and not any(isinstance(a, ast.Starred) for a in call.args[: pos + 1]):
        return call.args[pos]
    return None


def resolves_to(prog, f, call: ast.AST, *names: str) -> bool:
    """`call` (possibly awaited) may invoke one of the fully qualified `names`."""
    call = strip_await(call)
    if not isinstance(call, ast.Call):
        return False
    return any(q in names for q in prog.resolve_call(f, call))


def within(node: ast.AST, container: ast.AST) -> bool:
    return node is container or any(a is container for a in ancestors(node))


def subscript_key(e: ast.AST):
    """Constant key of `x['k']`, else `...`."""
    return const(e.slice) if isinstance(e, ast.Subscript) else ...


# --------------------------------------------------------------------------- CFG helpers


def branch(g, test_id: int, kind: str) -> list[int]:
    return [b for b, k in g.succ[test_id] if k == kind]


def only_via(g, test_id: int, kind: str, node_id: int) -> bool:
    """`node_id` is reachable from the `kind` ('t'/'f') outcome of the test and not from the other outcome
    (without re-evaluating the test)."""
    other = "f" if kind == "t" else "t"
    mine = g.reach(branch(g, test_id, kind), avoid=[test_id], include_src=True)
    theirs = g.reach(branch(g, test_id, other), avoid=[test_id], include_src=True)
    return node_id in mine and node_id not in theirs


def leads_only_to_raise(g, src_ids, stop=()) -> bool:
    """No normal path from `src_ids` reaches the function exit or a node of `stop`."""
    src_ids = list(src_ids)
    if not src_ids:
        return False
    seen = g.reach(src_ids, include_src=True)
    return g.exit not in seen and not (set(stop) & seen)


def must_pass(g, src: int, dst_ids, through) -> bool:
    """Every normal path src -> one of dst_ids touches a node of `through` (src itself counts)."""
    through = set(through)
    if src in through:
        return True
    return g.path(src, dst_ids, avoid=through) is None


def cfg_ids(g, node: ast.AST) -> list[int]:
    """CFG node ids of a statement / test / For AST object, or of the statement evaluating `node`."""
    ids = g.ids_of(node)
    return ids or g.node_containing(node)


# --------------------------------------------------------------------------- binders (loops / comprehensions)


def binders(node: ast.AST, stop: ast.AST | None = None) -> list[tuple[ast.AST, ast.AST]]:
    """(target, iterable) pairs of the `for` statements and comprehension generators enclosing `node`,
    innermost first, up to the function (or `stop`)."""
    out: list[tuple[ast.AST, ast.AST]] = []
    child = node
    for a in ancestors(node):
        if a is stop or isinstance(a, (ast.FunctionDef, ast.AsyncFunctionDef, ast.Lambda)):
            break
        if isinstance(a, (ast.For, ast.AsyncFor)):
            # only when `node` sits in the body (not in the iterable expression / else branch)
            if any(child is s for s in a.body):
                out.append((a.target, a.iter))
        elif isinstance(a, (ast.ListComp, ast.SetComp, ast.GeneratorExp, ast.DictComp)):
            if not any(child is gen for gen in a.generators):
                for gen in reversed(a.generators):
                    out.append((gen.target, gen.iter))
        child = a
    return out


def collection_elts(f, expr: ast.AST) -> list[ast.AST] | None:
    """Elements of a list/tuple/set display denoted by `expr` (a local name is followed to its single
    plain assignment)."""
    for o in origins(f, expr):
        if isinstance(o, (ast.List, ast.Tuple, ast.Set)):
            return list(o.elts)
    return None


def attr_of(e: ast.AST, base: str) -> str | None:
    """`attr` when e is `<base>.attr`."""
    if isinstance(e, ast.Attribute) and is_name(e.value, base):
        return e.attr
    return None


def single_origin(f, expr: ast.AST) -> ast.AST | None:
    os_ = origins(f, expr)
    return os_[0] if len(os_) == 1 else None


__all__ = [
    "is_name", "const", "strip_await", "kwarg", "resolves_to", "within", "subscript_key", "branch", "only_via",
    "leads_only_to_raise", "must_pass", "cfg_ids", "binders", "collection_elts", "attr_of", "single_origin",
    "defs_of", "origins", "dotted", "parent", "unparse", "walk_no_nested",
]
