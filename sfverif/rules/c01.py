"""C01 Scatter then gather returns the original list in its original order.

Clauses decided (necessary conditions visible in the code's shape, not the behaviour):
R1 numeric tag comparison (`core.utils.compare_tags`): both arguments are split on "."; the length
   difference (first minus second) is tested for non-zero and returned before any component is looked
   at; every value that stems from a split component (or the string lists / tags themselves) reaches
   an ordering comparison or arithmetic only through `int()`.  Comparing components as strings puts
   `0.10` before `0.9`: lists of 11+ elements come back permuted.
R2 gather sorts by tag (every `GatherStep._gather`): the emitted ListToken's value originates in
   `sorted(self.token_map[key], key=cmp_to_key(<x, y -> compare_tags(x.tag, y.tag)>))` (lambda or named
   comparator, argument order kept, not reversed), its tag is the `key` parameter, it is put on
   `self.get_output_port()` and its provenance inputs name the size token and the elements.
R3 scatter indexing (every `ScatterStep._scatter`): element tag is `<token.tag>.<i>` with `i` the
   zero-based `enumerate` index over `token.value`; exactly one size token with value `len(token.value)`
   and tag `token.tag`, outside the loop; elements go to the output port, the size to the size port.
   Emission is unconditional (must-pass-through on the CFG): no normal completion of `_scatter` (return / fall
   off the end; the `raise` for a non-list is not one) avoids the size put, so the empty list still announces
   its length 0 -- otherwise the gather never hears of that tag and the list is lost (a nested empty list
   vanishes from the outer one); no path through the loop body ends an iteration (continue / break / return)
   before the element put; and every call site of `_scatter` (found through the call index) awaits it and lies
   on every path from the `<port>.get()` that produced the token back to that read (no token read and dropped).
R4 gather firing (`GatherStep.run`): element key = tag minus the last `self.depth` components; the
   two arrival branches (size arrives / element arrives) both record what arrived, test
   `len(token_map[key]) == size` with equality, call `_gather(key)` and mark the key completed; every
   task (initial and re-armed) pairs its name with the port it reads, each branch re-arms the port it
   consumed before the next task is examined; after the loop the non-completed keys are gathered,
   unless the status is FAILED, after the size entry was refreshed.  The arrival test, the FAILED guard and the
   completed-keys filter are read as branch facts (sfverif.facts: `==` / `!=` / `not ...` / swapped arms / a conjunct /
   a local boolean are the same atom); which arrival a definition of the re-armed local port serves is decided on the
   CFG (the arm it lies in, or the arrival edges it reaches without being overwritten), so a default assigned before
   the branch and a guard-clause shape with one re-arm per arm are accepted, a stale or wrong port in either is not.
   Registration of the announced key: every normal path from the size-arrival edges to the next task / loop iteration
   executes a construct that creates `token_map[<size token's tag>]` -- `setdefault(K, ..)` evaluated unconditionally in
   its statement / test (not behind `and` / `or` / a conditional expression), a store `token_map[K] = ..`, a read of a
   defaultdict, a resolved call handing K to a helper that registers its parameter on every normal completion (one
   level) -- or takes an edge on which `K in token_map` is known to hold (facts; K and the map may sit in locals).
   A list of length 0 has no element that would create the entry: without it the size-0 gather never fires (or reads a
   missing key) and the forced gather, which iterates token_map's keys, does not see the list either -- it is silently
   lost (round-3 seeded change: `K in token_map and len(token_map[K]) == size` for `len(token_map.setdefault(K, []))`).
R5 stable consumer identity of the port readers (every concrete `Step.run` with a `while` task loop, found through
   the class table: GatherStep, CombinatorStep, LoopCombinatorStep, ScatterStep, LoopOutputStep today).  `Port.get(consumer)`
   registers an unknown consumer as NEW and replays the port's whole token_list to it, so a reader that comes back
   under another id handles tokens twice (a replayed size token gathers a complete list a second time: duplicate
   ListToken, the outer gather of a nested scatter fires early).  (a) a reader task re-created inside the loop,
   `create_task(<port>.get(C'), name=N')`, has the same consumer id *as a function of the task name* as the tasks that
   armed the ports before the loop (`create_task(<port>.get(C), name=N)`): C with the value of N abstracted to <NAME>,
   locals replaced by their assignments, `posixpath.join` / f-string / `+` spelled alike, equals C' with N' abstracted
   (round-2 seeded change on GatherStep.run: `posixpath.join(self.name, port_name)` re-armed under `name=task_name`).  The coroutine may
   sit in a local.  (b) a read awaited in the loop itself (`token = await port.get(C)`) is its own re-arm: C does not
   depend on a local rebound inside the loop (other than the loop variable that also selects the port).

All four rules of DESIGN.md section 3 (C01) are implemented; R5 was added for a seeded change they missed.  Additions seen while reading the code:
un-awaited `_persist_token` / `_gather` / `_scatter` coroutines (R2-R4), `enumerate` start and iterable (R3),
paths that skip the size token / an element / the `_scatter` call (R3, seeded change C01-3), pairing of
task names with ports for the initial tasks (R4), polarity of the completed-keys filter and refresh of
`size_map[key]` before the forced gather (R4).  The "unless FAILED" guard of the forced gather is listed
by DESIGN under R4; it concerns failing runs, which C01's quantifier does not include, and is kept because
dropping it emits incomplete lists as if they were complete.
Shapes the rules cannot interpret (extracted helper doing the gather, in-place `.sort()`, a loop that is
not `for i, t in enumerate(...)`) are analysis errors, not findings.

Left undecided: equality of the values for every length/nesting (follows informally from R1-R4),
persistence failures, what the element-wise steps in between do.
Not decided by the registration clause of R4: that the size-0 gather fires *at once* (a registered but unfired empty list is
still emitted by the forced gather at termination), registration through `update(...)` / `|=` / a helper nested deeper
than one call, a map that is rebound or loses entries between the registration and the forced gather.
Not decided by R5: reads made through a helper (`BaseStep._get_inputs` in the ExecuteStep / transformer loops builds the
consumer id from the keys of the mapping it is given), readers that are not tasks named after their port, the
executor's own output loop (not a Step), whether two different steps share a consumer id, loop-variance that hides
behind a call (`self._next_consumer()`); for the sibling steps R5(a) compares consumer ids only -- that the re-armed
task is named after the consumed task and reads the consumed port is R4's clause, decided for GatherStep.
"""

from __future__ import annotations

import ast
import copy

from ..cfg import NORMAL
from ..facts import atoms, region
from ..model import ancestors, dotted, unparse
from ..selftest import V
from ._util_A import (
    branch_succ,
    builtin_call,
    calls_named,
    test_compares,
    const_value,
    fire_edge,
    in_subtree,
    is_const,
    kwarg,
    merged_parts,
    method_call,
    name_def,
    nid_of,
    nonzero_test,
    only_via,
    origin_at,
    rdefs,
    require_members,
    resolves_to,
    same,
    scoped_binding,
    single_origin,
    split_dot,
    strip_await,
    tag_canon,
)

CT = "streamflow.core.utils.compare_tags"
STEP = "streamflow.workflow.step"
STEP_BASE = "streamflow.core.workflow.Step"
GATHER = f"{STEP}.GatherStep"
SCATTER = f"{STEP}.ScatterStep"
SFILE = "streamflow/workflow/step.py"
UFILE = "streamflow/core/utils.py"

META = {
    "explanation": (
        "AST/CFG/def-use rules on compare_tags (kind tracking str-component -> int, length test dominance and "
        "sign), on every GatherStep._gather (origin of the ListToken value is a sort by compare_tags on the tags, "
        "argument order kept), on every ScatterStep._scatter (tag = parent tag + enumerate index, size = len of the "
        "same iterable, distinct ports) and on GatherStep.run (sibling agreement of the two arrival branches: "
        "equality test on the count, gather, completed mark, re-arm of the consumed port; forced gather of the "
        "remaining keys) and on every Step.run task loop (the consumer id of a re-armed / looping port reader, as a function "
        "of the task name, equals the one the port was first armed with). Decides necessary structural conditions for 'scatter then gather returns the original "
        "order' for every length and arrival order; it does not execute anything."
    ),
    "undecided": "equality of values for every length/nesting (follows informally from R1-R4, not proved); persistence failures",
    "assumptions": [
        "tags are dot-separated decimal components (Token default '0')",
        "functools.cmp_to_key and sorted are the stdlib ones (stable sort)",
    ],
}


# =========================================================================== compare_tags kinds

ORDERING = (ast.Lt, ast.LtE, ast.Gt, ast.GtE)


class TagKinds:
    """Kind tracking inside compare_tags: which expressions are a tag string, the list of its
    components, one component, int(component), a length, a difference."""

    def __init__(self, prog, f):
        self.prog = prog
        self.f = f
        self.g = f.cfg
        a = f.node.args
        self.params = [x.arg for x in a.posonlyargs + a.args]

    def kind(self, e, nid=None, depth: int = 10):
        e = strip_await(e)
        if e is None or depth <= 0:
            return None
        f = self.f
        if nid is None:
            nid = nid_of(f, e)
        if isinstance(e, ast.NamedExpr):
            return self.kind(e.value, nid, depth - 1)
        c = const_value(e)
        if c is not NotImplemented:
            return ("const", c)
        if isinstance(e, ast.Name):
            sb = scoped_binding(e)
            if sb is not None:
                k, node, idx = sb
                if k == "comp":
                    return self.elem_kind(node.iter, idx, nid, depth - 1)
                return None
            if nid is None:
                return None
            kinds = []
            for d in rdefs(f, e.id, nid, use=e):
                if d.kind == "param":
                    kinds.append(("tag", self.params.index(e.id)) if e.id in self.params[:2] else None)
                elif d.kind in ("assign", "walrus") and d.index is None:
                    kinds.append(self.kind(d.value, d.nid, depth - 1))
                elif d.kind == "for":
                    kinds.append(self.elem_kind(d.value, d.index, d.nid, depth - 1))
                else:
                    kinds.append(None)
            if kinds and all(k == kinds[0] for k in kinds):
                return kinds[0]
            return ("mixed",) if kinds else None
        if isinstance(e, ast.Call):
            x = split_dot(e)
            if x is not None:
                kx = self.kind(x, nid, depth - 1)
                return ("list", kx[1]) if kx and kx[0] == "tag" else None
            m = method_call(e, "split") or method_call(e, "rsplit") or method_call(e, "partition")
            if m is not None:
                kx = self.kind(m.func.value, nid, depth - 1)
                return ("badsplit", kx[1]) if kx and kx[0] == "tag" else None
            for nm in ("int", "float", "len", "list", "tuple"):
                b = builtin_call(f, e, nm)
                if b is not None and len(b.args) == 1 and not b.keywords:
                    ka = self.kind(b.args[0], nid, depth - 1)
                    if ka is None:
                        return None
                    if nm in ("int", "float"):
                        return ("int", ka[1]) if ka[0] == "comp" else None
                    if nm == "len":
                        return ("len", ka[1]) if ka[0] == "list" else (("strlen", ka[1]) if ka[0] == "tag" else None)
                    return ka if ka[0] == "list" else None
            return None
        if isinstance(e, ast.Subscript):
            kv = self.kind(e.value, nid, depth - 1)
            if kv and kv[0] == "list":
                return ("list", kv[1]) if isinstance(e.slice, ast.Slice) else ("comp", kv[1])
            return None
        if isinstance(e, ast.BinOp) and isinstance(e.op, ast.Sub):
            kl, kr = self.kind(e.left, nid, depth - 1), self.kind(e.right, nid, depth - 1)
            if kl and kr and kl[0] == kr[0] == "len":
                return ("lendiff", kl[1], kr[1])
            if kl and kr and kl[0] == kr[0] == "int":
                return ("cdiff", kl[1], kr[1])
            return None
        if isinstance(e, ast.BinOp):
            kl, kr = self.kind(e.left, nid, depth - 1), self.kind(e.right, nid, depth - 1)
            if kl and kr and kl[0] == kr[0] and kl[0] in ("int", "len"):
                return ("arith", type(e.op).__name__, kl[0])
            return None
        return None

    def elem_kind(self, it, idx, nid, depth):
        """Kind of the loop variable (position idx of the target tuple) iterating over `it`."""
        if depth <= 0:
            return None
        f = self.f
        z = builtin_call(f, it, "zip")
        if z is not None:
            if idx is None or idx >= len(z.args) or any(isinstance(a, ast.Starred) for a in z.args):
                return None
            return self.elem_kind(z.args[idx], None, nid, depth - 1)
        en = builtin_call(f, it, "enumerate")
        if en is not None and en.args:
            if idx == 1:
                return self.elem_kind(en.args[0], None, nid, depth - 1)
            return ("index",)
        if builtin_call(f, it, "range") is not None:
            return ("index",)
        k = self.kind(it, nid, depth - 1)
        if k and k[0] == "list" and idx is None:
            return ("comp", k[1])
        return None


def _use_context(e: ast.AST):
    """Parent context of a str-kind expression, looking through tuple/list displays."""
    p = getattr(e, "_parent", None)
    child = e
    while isinstance(p, (ast.Tuple, ast.List, ast.Starred)):
        child, p = p, getattr(p, "_parent", None)
    return child, p


def compare_tags_uses(ctx, tk: TagKinds):
    """(expr, kind, verdict, why) for every tag / component-list / component expression of
    compare_tags.  verdict: 'int' (passes through int()), 'ok' (harmless), 'bad'."""
    f = tk.f
    out = []
    for e in f.body_nodes():
        if not isinstance(e, (ast.Name, ast.Subscript, ast.Call)):
            continue
        if isinstance(e, ast.Name) and not isinstance(e.ctx, ast.Load):
            continue
        k = tk.kind(e)
        if not k or k[0] not in ("tag", "list", "comp"):
            continue
        child, p = _use_context(e)
        verdict, why = "ok", ""
        if isinstance(p, ast.Call) and child in p.args:
            if (builtin_call(f, p, "int") is not None or builtin_call(f, p, "float") is not None) and k[0] == "comp":
                verdict = "int"
            elif any(builtin_call(f, p, nm) is not None for nm in ("sorted", "min", "max")):
                verdict, why = "bad", f"`{unparse(p)}` orders tag text"
        elif isinstance(p, ast.Compare):
            if any(isinstance(o, ORDERING) for o in p.ops):
                verdict, why = "bad", f"`{unparse(p)}` compares tag text (string order: '10' < '9')"
        elif isinstance(p, (ast.BinOp, ast.AugAssign)) or (isinstance(p, ast.UnaryOp) and not isinstance(p.op, ast.Not)):
            verdict, why = "bad", f"`{unparse(p)}` applies arithmetic to tag text without int()"
        out.append((e, k, verdict, why))
    return out


def r1(ctx):
    """Also run as C33.R1."""
    p = ctx.prog
    f = p.func(CT)
    tk = TagKinds(p, f)
    g = f.cfg
    ctx.require(len(tk.params) >= 2, "R1: compare_tags no longer has two positional parameters")
    uses = compare_tags_uses(ctx, tk)
    # (a) both arguments are split on "."
    for i in (0, 1):
        lists = [e for e, k, _v, _w in uses if k == ("list", i) and isinstance(e, ast.Call)]
        bad = [e for e in f.body_nodes() if isinstance(e, ast.Call) and tk.kind(e) == ("badsplit", i)]
        ctx.ob(
            "R1",
            f"compare_tags: argument {tk.params[i]} is split on '.'",
            bool(lists) and not bad,
            func=f,
            node=(bad[0] if bad else f.node),
            instance=f"compare_tags:split:{i}",
            message=f"argument {tk.params[i]} is not decomposed with split('.')" + (f" (found `{unparse(bad[0])}`)" if bad else ""),
        )
    # (c) int discipline
    comp_nodes = set()
    n_int = 0
    for e, k, verdict, why in uses:
        if k[0] == "comp":
            for i_ in g.node_containing(e):
                comp_nodes.add(i_)
        if verdict == "int":
            n_int += 1
        if k[0] == "comp" or verdict == "bad":
            _c, par = _use_context(e)
            ctx.ob(
                "R1",
                f"compare_tags: {k[0]} `{unparse(e)}` reaches comparison/arithmetic only through int()",
                verdict != "bad",
                func=f,
                node=e,
                instance=f"compare_tags:use:{k[0]}{k[1]}:{type(par).__name__}",
                message=why,
                trivial=(verdict == "ok"),
            )
    ctx.ob(
        "R1",
        "compare_tags: components of both tags are converted with int()",
        n_int >= 2 and {k[1] for e, k, v, _w in uses if v == "int"} == {0, 1},
        func=f,
        node=f.node,
        instance="compare_tags:int-both",
        message="no int() conversion of the components of both tags was found",
    )
    # (d) components are combined as first - second
    for e in f.body_nodes():
        if isinstance(e, ast.BinOp):
            k = tk.kind(e)
            if k and k[0] == "cdiff":
                ctx.ob("R1", "compare_tags: component difference is int(first) - int(second)", k[1:] == (0, 1), func=f, node=e, instance="compare_tags:cdiff",
                       message=f"`{unparse(e)}` subtracts the components of tag {k[1] + 1} and tag {k[2] + 1}: descending order / not a comparison of the two tags")
            elif k and k[0] == "arith" and k[2] == "int":
                ctx.ob("R1", "compare_tags: components are combined by subtraction", False, func=f, node=e, instance="compare_tags:cdiff",
                       message=f"`{unparse(e)}` combines the components with {k[1]} instead of a difference")
    # (b) length difference tested (non-zero) and returned before the components are compared
    tests = []
    for n in g.nodes.values():
        if n.kind != "test":
            continue
        nz = nonzero_test(n.ast)
        if nz is None:
            continue
        kd = tk.kind(nz[0], n.id)
        if kd and kd[0] == "lendiff":
            tests.append((n, nz[1], kd))
    if not tests:
        ctx.ob("R1", "compare_tags: length difference is tested before the components", False, func=f, node=f.node,
               instance="compare_tags:length-test", message="no test of len(list1) - len(list2) found: tags of different depth are compared component-wise")
    for n, edge, kd in tests:
        msg = ""
        ok = True
        if kd[1:] != (0, 1):
            ok, msg = False, "length difference has the wrong sign (second minus first)"
        elif edge.startswith("bad"):
            ok, msg = False, f"length difference is compared with `{edge[4:]}` instead of != 0"
        else:
            rets = [r.id for r in g.nodes.values() if r.kind == "return" and r.ast.value is not None and tk.kind(r.ast.value, r.id) == kd]
            succ = branch_succ(g, n.id, edge)
            if not rets or not succ or not all(s in rets or g.escape(s, rets, kinds=NORMAL) is None for s in succ):
                ok, msg = False, "the non-zero length difference is not returned"
            elif not comp_nodes or not all(g.dominates(n.id, c) for c in comp_nodes):
                ok, msg = False, "components are compared on a path that has not tested the length difference first"
        ctx.ob("R1", "compare_tags: length difference (first - second) is tested for != 0 and returned before any component is compared",
               ok, func=f, node=n.ast, instance="compare_tags:length-test", message=msg)


# =========================================================================== helpers for steps


def emits(prog, f):
    """[(put call, receiver expr, token expr, persist call|None)] for every `<port>.put(...)` in f."""
    out = []
    for c in f.calls():
        m = method_call(c, "put")
        if m is None or len(m.args) != 1:
            continue
        arg = strip_await(m.args[0])
        persist = None
        tok = arg
        cands = origin_at(f, arg, nid_of(f, m))
        if len(cands) == 1 and isinstance(cands[0], ast.Call) and isinstance(cands[0].func, ast.Attribute) and cands[0].func.attr == "_persist_token":
            persist = cands[0]
            tok = kwarg(persist, "token", 0)
        out.append((m, m.func.value, tok, persist))
    return out


def awaited(call) -> bool:
    return isinstance(getattr(call, "_parent", None), ast.Await)


def persist_awaited(e) -> bool:
    """e = (put, recv, token, persist): an async `_persist_token(...)` result is awaited before it is put."""
    return e[3] is None or awaited(e[3])


def self_call(e, attr: str) -> ast.Call | None:
    e = strip_await(e)
    if isinstance(e, ast.Call) and isinstance(e.func, ast.Attribute) and e.func.attr == attr and isinstance(e.func.value, ast.Name) and e.func.value.id == "self":
        return e
    return None


def self_attr_sub(e, attr: str):
    """`self.<attr>[K]` / `self.<attr>.get(K, d)` / `self.<attr>.setdefault(K, d)` -> K."""
    e = strip_await(e)
    if isinstance(e, ast.Subscript) and dotted(e.value) == f"self.{attr}" and not isinstance(e.slice, ast.Slice):
        return e.slice
    if isinstance(e, ast.Call) and isinstance(e.func, ast.Attribute) and e.func.attr in ("get", "setdefault") and dotted(e.func.value) == f"self.{attr}" and e.args:
        return e.args[0]
    return None


def is_param(f, e, name: str) -> bool:
    o = single_origin(f, e)
    if not (isinstance(o, ast.Name) and o.id == name):
        return False
    d = name_def(f, o)
    return d is not None and d.kind == "param"


# =========================================================================== R2


def _comparator(prog, f, keyf, nid):
    """('ok'|'bad'|'unknown', message) for the `key=` argument of the gather sort."""
    if keyf is None:
        return "bad", "sorted() without key: the tokens are not ordered by tag"
    cands = origin_at(f, keyf, nid)
    if len(cands) != 1:
        return "unknown", "several candidate sort keys"
    k = cands[0]
    if isinstance(k, ast.Lambda) and len(k.args.args) == 1:
        has_int = any(builtin_call(f, x, "int") is not None for x in ast.walk(k.body))
        if has_int:
            return "unknown", f"single-argument numeric key `{unparse(k)}` (not the compare_tags idiom)"
        return "bad", f"sort key `{unparse(k)}` orders tags as text (0.10 before 0.9)"
    if not (isinstance(k, ast.Call) and resolves_to(prog, f, k, "functools.cmp_to_key") and len(k.args) == 1):
        if isinstance(k, (ast.Name, ast.Attribute)) and (prog.resolve_dotted(f.module, dotted(k) or "") or "").endswith("compare_tags"):
            return "bad", "compare_tags used as a key function (it is a two-argument comparator of tag strings)"
        return "unknown", f"sort key `{unparse(k)}` is not cmp_to_key(...)"
    cmp_ = k.args[0]
    cc = origin_at(f, cmp_, nid)
    if len(cc) != 1:
        return "unknown", "several candidate comparators"
    cmp_ = cc[0]
    body = None
    params = None
    owner = f
    if isinstance(cmp_, ast.Lambda):
        params = [a.arg for a in cmp_.args.posonlyargs + cmp_.args.args]
        body = cmp_.body
    elif isinstance(cmp_, (ast.Name, ast.Attribute)):
        d = dotted(cmp_) or ""
        q = None
        if isinstance(cmp_, ast.Name):
            gq: object = f
            while gq is not None and q is None:
                cand = f"{gq.qualname}.<locals>.{cmp_.id}"
                if cand in prog.functions:
                    q = cand
                gq = gq.outer
        if q is None and d.startswith("self.") and f.cls is not None:
            m = prog.resolve_method(f.cls.qualname, d[5:])
            q = m.qualname if m else None
        if q is None:
            q = prog.resolve_dotted(f.module, d)
        if q and q.endswith("compare_tags"):
            return "bad", "compare_tags applied to the tokens themselves (they have no split): the comparator must compare `.tag`"
        fn = prog.functions.get(q or "")
        if fn is None:
            return "unknown", f"comparator `{d}` cannot be resolved"
        owner = fn
        params = [a for a in fn.params if a not in ("self", "cls")]
        rets = [n for n in fn.body_nodes() if isinstance(n, ast.Return)]
        if len(rets) != 1 or rets[0].value is None:
            return "unknown", f"comparator `{d}` has {len(rets)} return statements"
        o = single_origin(fn, rets[0].value)
        body = o if o is not None else rets[0].value
    else:
        return "unknown", f"comparator `{unparse(cmp_)}` has an unsupported shape"
    if params is None or len(params) != 2:
        return "bad", "comparator does not take two arguments"
    body = strip_await(body)
    if isinstance(body, ast.UnaryOp) and isinstance(body.op, ast.USub):
        return "bad", "comparator negates compare_tags: descending order"
    if not (isinstance(body, ast.Call) and resolves_to(prog, owner, body, CT) and len(body.args) == 2 and not body.keywords):
        txt = unparse(body)
        if ".tag" in txt and "compare_tags" not in txt:
            return "bad", f"comparator `{txt}` does not use compare_tags (text order of tags)"
        return "unknown", f"comparator body `{txt}` is not a compare_tags call"
    got = []
    for a in body.args:
        if isinstance(a, ast.Attribute) and a.attr == "tag" and isinstance(a.value, ast.Name) and a.value.id in params:
            got.append(params.index(a.value.id))
        else:
            got.append(None)
    if got == [0, 1]:
        return "ok", ""
    if got == [1, 0]:
        return "bad", "comparator passes its arguments to compare_tags in swapped order: descending order"
    if None in got:
        txt = unparse(body)
        return ("bad", f"`{txt}` does not compare the `.tag` of both arguments") if got[0] == got[1] or all(
            isinstance(a, ast.Name) for a in body.args
        ) else ("unknown", f"`{txt}`: unsupported arguments")
    return "bad", f"`{unparse(body)}` compares an element with itself"


def r2(ctx):
    p = ctx.prog
    require_members(ctx, GATHER, ["_gather", "get_output_port", "_persist_token"], ["token_map", "size_map"])
    impls = p.concrete_impls(GATHER, "_gather")
    ctx.require(bool(impls), "C01.R2: no GatherStep._gather implementation found")
    for f in impls:
        who = f.qualname.rsplit(".", 2)[-2]
        ps = [a for a in f.params if a != "self"]
        ctx.require(len(ps) >= 1, f"C01.R2: {f.qualname} has no key parameter")
        keyp = ps[0]
        ctors = [c for c in f.calls() if resolves_to(p, f, c, "streamflow.workflow.token.ListToken")]
        ctx.require(bool(ctors), f"C01.R2: {f.qualname} builds no ListToken")
        ems = emits(p, f)
        for c in ctors:
            nid = nid_of(f, c)
            val = kwarg(c, "value", 0)
            tag = kwarg(c, "tag", 1)
            ctx.require(val is not None, f"C01.R2: ListToken without value in {f.qualname}")
            # --- value = sorted(token_map[key], key=cmp_to_key(compare_tags on .tag))
            vo = origin_at(f, val, nid)
            ok, msg = True, ""
            if len(vo) != 1:
                ctx.require(False, f"C01.R2: value of the ListToken in {f.qualname} has {len(vo)} candidate origins")
            srt = builtin_call(f, vo[0], "sorted")
            if srt is None:
                inplace = [x for x in f.calls() if method_call(x, "sort") is not None]
                ctx.require(not inplace, f"C01.R2: {f.qualname} sorts in place (`{unparse(inplace[0]) if inplace else ''}`): shape not supported")
                ok, msg = False, f"the gathered list `{unparse(vo[0])}` is emitted in arrival order (no sorted())"
            else:
                ctx.require(len(srt.args) == 1, f"C01.R2: sorted() call shape in {f.qualname}")
                seqs = origin_at(f, srt.args[0], nid)
                seq_ok = all(
                    (k := self_attr_sub(s, "token_map")) is not None and is_param(f, k, keyp) for s in seqs
                ) and bool(seqs)
                rev = kwarg(srt, "reverse")
                status, cmsg = _comparator(p, f, kwarg(srt, "key"), nid)
                if not seq_ok:
                    ok, msg = False, f"sorted() is applied to `{unparse(srt.args[0])}`, not to self.token_map[{keyp}]"
                elif rev is not None and not is_const(rev, False):
                    ok, msg = False, "sorted(..., reverse=...) emits the list in descending order"
                elif status == "bad":
                    ok, msg = False, cmsg
                elif status == "unknown":
                    ctx.require(False, f"C01.R2: {f.qualname}: {cmsg}")
            ctx.ob("R2", f"{who}._gather: ListToken value = sorted(token_map[{keyp}]) by compare_tags on the tags", ok,
                   func=f, node=c, instance=f"{who}._gather:sorted", message=msg)
            # --- tag = key parameter
            tag_ok = tag is not None and is_param(f, tag, keyp)
            if tag is not None and not tag_ok:
                to = single_origin(f, tag, nid)
                # size_map[key] is stored under its own tag, so its .tag is the key
                tag_ok = isinstance(to, ast.Attribute) and to.attr == "tag" and (k := self_attr_sub(to.value, "size_map")) is not None and is_param(f, k, keyp)
            ctx.ob("R2", f"{who}._gather: the ListToken is tagged with the `{keyp}` parameter",
                   tag_ok, func=f, node=c, instance=f"{who}._gather:tag",
                   message=f"gathered list is tagged `{unparse(tag) if tag is not None else '<default 0>'}` instead of the gather key")
            # --- emitted on the output port, provenance names the size token and the elements
            mine = [e for e in ems if e[2] is not None and any(same(o, c) for o in origin_at(f, e[2], nid_of(f, e[0])))]
            port_ok = bool(mine) and all(
                (o := single_origin(f, e[1], nid_of(f, e[0]))) is not None
                and (sc := self_call(o, "get_output_port")) is not None
                and not sc.args
                and not sc.keywords
                and persist_awaited(e)
                for e in mine
            )
            ctx.ob("R2", f"{who}._gather: the (awaited, persisted) ListToken is put on self.get_output_port()", port_ok, func=f, node=c,
                   instance=f"{who}._gather:port", message="the gathered list is not put on the step's output port (or the _persist_token coroutine is put un-awaited)")
            for e in mine:
                if e[3] is None:
                    continue
                ids = kwarg(e[3], "input_token_ids", 2)
                found = set()
                for o in origin_at(f, ids, nid_of(f, e[0])) if ids is not None else []:
                    for x in ast.walk(o):
                        for attr in ("size_map", "token_map"):
                            k = self_attr_sub(x, attr)
                            if k is not None and is_param(f, k, keyp):
                                found.add(attr)
                ctx.ob("R2", f"{who}._gather: provenance inputs include the size token and all elements",
                       found == {"size_map", "token_map"}, func=f, node=e[3], instance=f"{who}._gather:provenance",
                       message=f"input_token_ids does not mention {sorted({'size_map', 'token_map'} - found)}[{keyp}]")


# =========================================================================== R3


def _skip_node(g, w):
    """The construct that decides a witness path `w` which avoids an emission: the last jump
    (return / continue / break) on it, else the last two-way branch (test / loop head), else None."""
    for kinds in (("return", "continue", "break"), ("test", "iter")):
        for i in reversed(w or []):
            n = g.nodes[i]
            if n.kind in kinds and n.ast is not None and (n.kind not in ("test", "iter") or len([b for b, k in g.succ[i] if k in NORMAL]) > 1):
                return n
    return None


def _skip_site(g, w, default):
    n = _skip_node(g, w)
    return n.ast if n is not None and hasattr(n.ast, "lineno") else default


def _skip_text(g, w) -> str:
    n = _skip_node(g, w)
    return n.text(80) if n is not None else "fall-through"


def _awaited_on_every_path(cf, call) -> bool:
    """`await f(...)`, or `c = f(...)` followed on every normal path by `await c` (c not rebound)."""
    if awaited(call):
        return True
    st = getattr(call, "_parent", None)
    if not (isinstance(st, ast.Assign) and st.value is call and len(st.targets) == 1 and isinstance(st.targets[0], ast.Name)):
        return False
    g = cf.cfg
    name = st.targets[0].id
    src = g.ids_of(st)
    waits = set()
    for n in g.nodes.values():
        for x in n.walk():
            if isinstance(x, ast.Await) and isinstance(x.value, ast.Name) and x.value.id == name:
                ds = rdefs(cf, name, n.id, use=x.value)
                if ds and all(d.stmt is st for d in ds):
                    waits.add(n.id)
    return bool(src) and bool(waits) and all(g.escape(s, waits, kinds=NORMAL) is None for s in src)


def _scatter_callers(ctx, impls):
    """Every token taken from the input port reaches `_scatter`: at each call site of a `_scatter`
    implementation the coroutine is awaited and, when the token comes from a `<port>.get(...)` inside a
    loop, no path leads from that read back to the same read without passing the call (a token that is
    read and dropped, e.g. `if token.value: await self._scatter(token)`, never gets its size token)."""
    p = ctx.prog
    sites = []
    quals = {f.qualname for f in impls}
    for cf, call in calls_named(p, "_scatter"):  # per-module cached index (cheap for the variant programs)
        if quals & set(p.resolve_call(cf, call)):
            sites.append((cf, call))
    ctx.require(bool(sites), "C01.R3: no call of ScatterStep._scatter found (renamed / inlined?): shape not supported")
    for cf, call in sites:
        who = ".".join(cf.qualname.rsplit(".", 2)[-2:])
        g = cf.cfg
        ctx.ob("R3", f"{who}: `_scatter(...)` is awaited", _awaited_on_every_path(cf, call), func=cf, node=call, instance=f"{who}:scatter-awaited",
               message="`self._scatter(...)` is not awaited: the coroutine is created and dropped, neither elements nor size token are emitted")
        arg = kwarg(call, "token", 0)
        cn = g.node_containing(call)
        ctx.require(arg is not None and bool(cn), f"C01.R3: {cf.qualname}: `_scatter` call shape")
        reads = []
        if isinstance(arg, ast.Name):
            for d in rdefs(cf, arg.id, cn[0], use=arg):
                if d.kind in ("assign", "walrus") and d.index is None and d.nid is not None and method_call(strip_await(d.value), "get") is not None:
                    reads.append(d.nid)
        if not reads:
            ctx.observe(f"C01.R3: {cf.qualname}: the argument of _scatter is not a local read with `<port>.get(...)`; drop paths not checked")
            continue
        for rid in sorted(set(reads)):
            w = g.path(rid, [rid], avoid=cn, kinds=NORMAL)
            ctx.ob("R3", f"{who}: every token read from the port is scattered before the next one is read", w is None, func=cf,
                   node=_skip_site(g, w, call), instance=f"{who}:scatter-every-token", witness=g.describe(w) if w else [],
                   message=f"`{_skip_text(g, w)}` lets a token be read and dropped without `_scatter`: no size token is emitted for it (its list is lost)")


def r3(ctx):
    p = ctx.prog
    require_members(ctx, SCATTER, ["_scatter", "get_output_port", "get_size_port", "_persist_token"])
    impls = p.concrete_impls(SCATTER, "_scatter")
    ctx.require(bool(impls), "C01.R3: no ScatterStep._scatter implementation found")
    for f in impls:
        who = f.qualname.rsplit(".", 2)[-2]
        ps = [a for a in f.params if a != "self"]
        ctx.require(len(ps) >= 1, f"C01.R3: {f.qualname} has no token parameter")
        tokp = ps[0]

        def is_tok_attr(e, attr, nid=None):
            o = single_origin(f, e, nid)
            return isinstance(o, ast.Attribute) and o.attr == attr and isinstance(o.value, ast.Name) and o.value.id == tokp and is_param(f, o.value, tokp)

        loops = []
        for n in f.body_nodes():
            if isinstance(n, (ast.For, ast.AsyncFor)):
                en = builtin_call(f, n.iter, "enumerate")
                if en is not None and en.args:
                    loops.append((n, en))
        ctx.require(len(loops) == 1, f"C01.R3: {f.qualname}: expected one `for i, t in enumerate({tokp}.value)` loop, found {len(loops)}")
        loop, en = loops[0]
        ctx.ob("R3", f"{who}._scatter: the loop enumerates {tokp}.value in order", is_tok_attr(en.args[0], "value"), func=f, node=loop, instance=f"{who}._scatter:iterable",
               message=f"the loop enumerates `{unparse(en.args[0])}`, not {tokp}.value: indices no longer are the positions in the original list")
        ctx.require(isinstance(loop.target, ast.Tuple) and len(loop.target.elts) == 2 and all(isinstance(x, ast.Name) for x in loop.target.elts),
                    f"C01.R3: {f.qualname}: enumerate loop target is not `i, t`")
        ivar, evar = loop.target.elts[0].id, loop.target.elts[1].id
        start = kwarg(en, "start", 1)
        ctx.ob("R3", f"{who}._scatter: enumerate starts at 0", start is None or is_const(start, 0), func=f, node=loop,
               instance=f"{who}._scatter:start", message=f"enumerate start is `{unparse(start) if start is not None else ''}`: element tags are shifted")
        ems = emits(p, f)
        elem, size, other = [], [], []
        for e in ems:
            put, recv, tok, persist = e
            nid = nid_of(f, put)
            os_ = origin_at(f, tok, nid) if tok is not None else []
            kind = None
            for o in os_:
                rt = method_call(o, "retag")
                if rt is not None and isinstance(rt.func.value, ast.Name) and rt.func.value.id == evar:
                    kind = ("elem", rt)
                elif isinstance(o, ast.Call) and resolves_to(p, f, o, "streamflow.core.workflow.Token"):
                    kind = ("size", o)
                elif isinstance(o, ast.Name) and o.id == evar:
                    kind = ("raw", o)
            if kind is None:
                other.append(e)
            elif kind[0] == "size":
                size.append((e, kind[1]))
            else:
                elem.append((e, kind))
        ctx.require(bool(elem), f"C01.R3: {f.qualname}: no element emission found in the enumerate loop")
        want = f"<{tokp}.tag>.<{ivar}>"
        for (put, recv, tok, persist), (k, node) in elem:
            nid = nid_of(f, put)
            if k == "raw":
                ok, msg = False, "the element is emitted without retag: it keeps its own tag"
            else:
                targ = kwarg(node, "tag", 0)
                canon = tag_canon(f, targ, nid) if targ is not None else "<missing>"
                ok = canon == want
                msg = f"element tag is `{canon}`, expected `{want}` (parent tag + '.' + enumerate index)"
            ctx.ob("R3", f"{who}._scatter: element i is retagged {tokp}.tag + '.' + str(i)", ok, func=f, node=put,
                   instance=f"{who}._scatter:elem-tag", message=msg)
            ro = single_origin(f, recv, nid)
            sc = self_call(ro, "get_output_port") if ro is not None else None
            ctx.ob("R3", f"{who}._scatter: elements are put on the output port inside the loop",
                   sc is not None and not sc.args and not sc.keywords and in_subtree(put, loop) and persist_awaited((put, recv, tok, persist)), func=f, node=put,
                   instance=f"{who}._scatter:elem-port", message=f"elements are put on `{unparse(ro) if ro is not None else unparse(recv)}`" + ("" if in_subtree(put, loop) else " outside the loop"))
        # every element of the loop is emitted: no path through the loop body reaches the next iteration (continue)
        # or leaves the loop (break / return) without passing an element put
        g = f.cfg
        elem_nodes = {i for (e, _k) in elem for i in g.node_containing(e[0]) if in_subtree(e[0], loop)}
        for hid in g.ids_of(loop):
            for s in (branch_succ(g, hid, "t") if elem_nodes else []):
                w = None if s in elem_nodes else g.escape(s, elem_nodes, targets=[hid, g.exit], kinds=NORMAL)
                ctx.ob("R3", f"{who}._scatter: every iteration of the loop emits its element", w is None, func=f, node=_skip_site(g, w, loop),
                       instance=f"{who}._scatter:elem-path", witness=g.describe(w) if w else [],
                       message=f"`{_skip_text(g, w)}` lets an iteration end without emitting its element: the gathered list is shorter than the original")
        ctx.ob("R3", f"{who}._scatter: exactly one size token is emitted", len(size) == 1, func=f, node=f.node,
               instance=f"{who}._scatter:size-count", message=f"{len(size)} size-token emissions found (gather never learns the list length)" if not size else f"{len(size)} size-token emissions found")
        # the size token is emitted for EVERY list, the empty one included: no normal completion of _scatter
        # (fall off the end / return; the `raise` for non-list input is not a normal completion) avoids the size put
        size_nodes = {i for (e, _c) in size for i in g.node_containing(e[0])}
        if size_nodes:
            w = g.escape(g.entry, size_nodes, kinds=NORMAL)
            ctx.ob("R3", f"{who}._scatter: every normal completion has emitted the size token (whatever the list length)", w is None, func=f,
                   node=_skip_site(g, w, f.node), instance=f"{who}._scatter:size-path", witness=g.describe(w) if w else [],
                   message=f"`{_skip_text(g, w)}` lets _scatter complete without emitting the size token: the gather step never learns about "
                           f"that list (an empty list is lost; in a nested scatter it disappears from the outer list)")
        for (put, recv, tok, persist), ctor in size:
            nid = nid_of(f, put)
            val = kwarg(ctor, "value", 0)
            tag = kwarg(ctor, "tag", 1)
            vo = single_origin(f, val, nid) if val is not None else None
            ln = builtin_call(f, vo, "len")
            ok_val = ln is not None and len(ln.args) == 1 and is_tok_attr(ln.args[0], "value", nid)
            ctx.ob("R3", f"{who}._scatter: size token value = len({tokp}.value)", ok_val, func=f, node=ctor,
                   instance=f"{who}._scatter:size-value", message=f"size token value is `{unparse(vo) if vo is not None else '?'}`, not len({tokp}.value)")
            ctx.ob("R3", f"{who}._scatter: size token tag = {tokp}.tag", tag is not None and is_tok_attr(tag, "tag", nid), func=f, node=ctor,
                   instance=f"{who}._scatter:size-tag", message=f"size token is tagged `{unparse(tag) if tag is not None else '<default 0>'}` instead of {tokp}.tag")
            ro = single_origin(f, recv, nid)
            sc = self_call(ro, "get_size_port") if ro is not None else None
            sc2 = self_call(ro, "get_output_port") if ro is not None else None
            port_ok = (sc is not None and not sc.args) or (sc2 is not None and len(sc2.args) == 1 and is_const(sc2.args[0], "__size__"))
            ctx.ob("R3", f"{who}._scatter: the size token is put once on the size port (outside the loop)",
                   port_ok and not in_subtree(put, loop) and persist_awaited((put, recv, tok, persist)), func=f, node=put, instance=f"{who}._scatter:size-port",
                   message=("size token is emitted inside the element loop" if in_subtree(put, loop) else f"size token is put on `{unparse(ro) if ro is not None else unparse(recv)}`"))
    _scatter_callers(ctx, impls)


# =========================================================================== R4


def _task_creations(p, f):
    """[(create_task call, port expr, name expr)] for `asyncio.create_task(<port>.get(...), name=N)`."""
    out = []
    for c in f.calls():
        if not resolves_to(p, f, c, "asyncio.create_task", "asyncio.ensure_future") or not c.args:
            continue
        inner = strip_await(c.args[0])
        if isinstance(inner, ast.Name):  # the coroutine kept in a local: `reader = port.get(...)`
            inner = single_origin(f, inner, nid_of(f, c))
        g_ = method_call(inner, "get")
        if g_ is None:
            continue
        out.append((c, g_.func.value, kwarg(c, "name")))
    return out


def _expand_test(f, t):
    """The condition of CFG test node `t` with local booleans (`is_size = name == '__size__'` ... `if is_size:`)
    replaced by what they were assigned (new BoolOp / Not shells only; the leaves are the analysed nodes)."""

    def expand(x, depth=3):
        if depth > 0 and isinstance(x, ast.Name):
            o = single_origin(f, x, t.id)
            if o is not None and not isinstance(o, ast.Name):
                return expand(o, depth - 1)
            return x
        if isinstance(x, ast.BoolOp):
            return ast.BoolOp(op=x.op, values=[expand(v, depth) for v in x.values])
        if isinstance(x, ast.UnaryOp) and isinstance(x.op, ast.Not):
            return ast.UnaryOp(op=x.op, operand=expand(x.operand, depth))
        return x

    return expand(t.ast)


def _fact_edges(f, g, is_atom):
    """[(test id, edge kind, truth)]: the edges of CFG tests on which an atom recognised by `is_atom(atom, test id)` is
    implied to hold (truth True) / not to hold (False), whatever the spelling of the test (sfverif.facts.atoms)."""
    out = []
    for t in g.nodes.values():
        if t.kind != "test" or t.ast is None:
            continue
        e = _expand_test(f, t)
        for kind, val in (("t", True), ("f", False)):
            for a, v in atoms(e, val):
                if is_atom(a, t.id):
                    out.append((t.id, kind, v))
    return out


def _edge_region(g, edges, truth) -> set:
    """Nodes that are only reached (from their test) through an edge on which the atom has value `truth`."""
    out = set()
    for tid, kind, v in edges:
        if v == truth:
            out |= region(g, tid, kind)
    return out


def _serves(g, src, dst, edges, truth, reg, others, other_reg) -> bool:
    """The value defined at node `src` can arrive at (one of) `dst` for an arrival on which the atom has value `truth`:
    `src` lies in that arrival's region, or a test reachable from `src` (no other definition in between) has an edge
    implying it; and `dst` is reached from there without touching another definition or the other arrival's region."""
    avoid = set(others) | (set(other_reg) - set(reg))
    if src is not None and src in reg and (src in dst or dst & g.reach([src], avoid=avoid)):
        return True
    fwd = g.reach([src], avoid=others, include_src=True) if src is not None else None  # None: whatever was defined before
    for tid, kind, v in edges:
        if v != truth or (fwd is not None and tid not in fwd):
            continue
        for s_ in branch_succ(g, tid, kind):
            if s_ not in avoid and (s_ in dst or dst & g.reach([s_], avoid=avoid)):
                return True
    return False


def _dispatch_lookup(e):
    """`T[K]` / `T.get(K)` on a local name T -> (T as ast.Name, K); else None."""
    e = strip_await(e)
    if isinstance(e, ast.Subscript) and isinstance(e.value, ast.Name) and not isinstance(e.slice, (ast.Slice, ast.Tuple)):
        return e.value, e.slice
    m = method_call(e, "get")
    if m is not None and isinstance(m.func.value, ast.Name) and len(m.args) == 1 and not m.keywords and not isinstance(m.args[0], ast.Starred):
        return m.func.value, m.args[0]
    return None


_TABLE_READS = ("get", "keys", "values", "items", "copy")


def _table_only_read(f, name: str):
    """None when every occurrence of local `name` in f (nested functions included) is a binding of the whole name or a
    read that cannot change the mapping (`T[k]` loaded, `T.get/keys/values/items()`, `k in T`, `len(T)`, iteration);
    else the first other use (a store `T[k] = ..`, `del T[k]`, `T.update(..)`, an alias, an argument of a call: the table
    analysed at its definition would not be the table the lookup sees)."""
    for x in ast.walk(f.node):
        if not (isinstance(x, ast.Name) and x.id == name):
            continue
        par = getattr(x, "_parent", None)
        if not isinstance(x.ctx, ast.Load):
            if isinstance(x.ctx, ast.Store) and isinstance(par, (ast.Assign, ast.AnnAssign)):
                continue
            return par if par is not None else x
        if isinstance(par, ast.Subscript) and par.value is x and isinstance(par.ctx, ast.Load):
            continue
        if isinstance(par, ast.Attribute) and par.attr in _TABLE_READS and isinstance(getattr(par, "_parent", None), ast.Call) and par._parent.func is par:
            continue
        if isinstance(par, ast.Compare) and x in par.comparators and all(isinstance(o, (ast.In, ast.NotIn)) for o in par.ops):
            continue
        if isinstance(par, ast.Call) and builtin_call(f, par, "len") is not None:
            continue
        if isinstance(par, (ast.For, ast.AsyncFor, ast.comprehension)) and par.iter is x:
            continue
        return par if par is not None else x
    return None


def _table_rearm(ctx, f, tname, tkey, nid, port_kind, name_kind, is_task_name):
    """(ok, message) for a re-arm whose receiver is looked up in a local table `T[K]`: K is the consumed task's name, every
    definition of T that reaches the re-arm is a dict display whose entries pair the size task's name with the size port
    and the element task's name with the element port (evaluated where the table is built), and both ports have an entry."""
    T = tname.id
    ds = rdefs(f, T, nid, use=tname)
    ctx.require(bool(ds) and all(d.kind == "assign" and d.index is None and d.nid is not None and isinstance(strip_await(d.value), ast.Dict) for d in ds),
                f"C01.R4: GatherStep.run: re-arm receiver `{T}[{unparse(tkey)}]`: `{T}` is not a dict display on every path to the re-arm (shape not supported)")
    esc = _table_only_read(f, T)
    ctx.require(esc is None, f"C01.R4: GatherStep.run: the port table `{T}` is also used in `{unparse(esc) if esc is not None else ''}`"
                             f" (it may change between its definition and the lookup): shape not supported")
    if not is_task_name(tkey, nid):
        return False, f"re-arm reads the port the table `{T}` holds for `{unparse(tkey)}`, not for the consumed task's name"
    for d in ds:
        tbl = strip_await(d.value)
        ctx.require(all(k is not None for k in tbl.keys), f"C01.R4: GatherStep.run: the port table `{T}` unpacks another mapping (`**`): shape not supported")
        entries = {}
        for k, v in zip(tbl.keys, tbl.values):
            nk = name_kind(k, d.nid)
            ctx.require(nk in ("size", "input"), f"C01.R4: GatherStep.run: key `{unparse(k)}` of the port table `{T}` not understood")
            entries[nk] = (k, v)  # a repeated key: the last entry wins, as in Python
        for br, (k, v) in sorted(entries.items()):
            vk = port_kind(v, d.nid)
            if vk != br:
                return False, (f"after a token from the {br} port the step re-arms `{unparse(v)}` ({vk} port; entry `{unparse(k)}` of the table `{T}`): "
                               f"the {br} port is never read again and the other one is read twice")
        missing = sorted({"size", "input"} - set(entries))
        if missing:
            return False, f"the port table `{T}` has no entry for the {' / '.join(missing)} port: that port cannot be re-armed (KeyError)"
    return True, ""


def _evaluated_unconditionally(e: ast.AST) -> bool:
    """`e` is evaluated whenever its statement / test is: it does not sit behind a short-circuit operator, in an arm of
    a conditional expression, in a chained comparison's tail, in a lambda or in a comprehension."""
    child, par = e, getattr(e, "_parent", None)
    while par is not None and not isinstance(par, ast.stmt):
        if isinstance(par, ast.BoolOp) and par.values[0] is not child:
            return False
        if isinstance(par, ast.IfExp) and par.test is not child:
            return False
        if isinstance(par, ast.Compare) and len(par.ops) > 1 and child in par.comparators[1:]:
            return False
        if isinstance(par, (ast.Lambda, ast.ListComp, ast.SetComp, ast.DictComp, ast.GeneratorExp)):
            return False
        child, par = par, getattr(par, "_parent", None)
    return True


def _self_map(f, e, attr: str, nid=None, recv: str = "self") -> bool:
    """`self.<attr>` or a local alias of it (`recv`: the name the step object has in f)."""
    if dotted(e) == f"{recv}.{attr}":
        return True
    if isinstance(e, ast.Name):
        o = single_origin(f, e, nid)
        return o is not None and dotted(o) == f"{recv}.{attr}"
    return False


def _map_is_defaultdict(prog, cq: str, attr: str) -> bool:
    """Every assignment `self.<attr> = ...` in the class (MRO) builds a `collections.defaultdict`: a plain read
    `self.<attr>[k]` then creates the entry."""
    vals = []
    for c in prog.mro(cq):
        cls = prog.classes.get(c)
        for m in (cls.methods.values() if cls is not None else []):
            for n in m.body_nodes():
                if isinstance(n, (ast.Assign, ast.AnnAssign)) and n.value is not None:
                    tgts = n.targets if isinstance(n, ast.Assign) else [n.target]
                    if any(dotted(t) == f"self.{attr}" for t in tgts):
                        vals.append((m, n.value))
    return bool(vals) and all(isinstance(v, ast.Call) and resolves_to(prog, m, v, "collections.defaultdict") for m, v in vals)


def _key_registrations(prog, f, attr: str, is_key, depth: int = 1, autoviv: bool = False, recv: str = "self"):
    """Where function `f` makes sure that the key recognised by `is_key(expr, cfg node id)` is present in the mapping
    `self.<attr>`: (CFG nodes that register it whenever they are executed, test edges {(test id, edge kind)} on which it
    is known to be present).  Registering constructs: `M.setdefault(K, ..)` evaluated unconditionally in its node, a
    store `M[K] = ..`, a read `M[K]` of a defaultdict, a resolved call that passes K to a function which registers the
    bound parameter on every normal completion (one level of helper extraction); known present: an edge that implies
    `K in M` / `K in M.keys()` however the test is spelled."""
    g = f.cfg
    nodes, edges = set(), set()
    for n in g.nodes.values():
        if n.ast is None:
            continue
        if n.kind == "stmt" and isinstance(n.ast, (ast.Assign, ast.AnnAssign)) and getattr(n.ast, "value", None) is not None:
            tgts = n.ast.targets if isinstance(n.ast, ast.Assign) else [n.ast.target]
            for tg in tgts:
                if isinstance(tg, ast.Subscript) and _self_map(f, tg.value, attr, n.id, recv) and is_key(tg.slice, n.id):
                    nodes.add(n.id)
        for x in n.walk():
            if autoviv and isinstance(x, ast.Subscript) and isinstance(x.ctx, ast.Load) and _self_map(f, x.value, attr, n.id, recv) \
                    and is_key(x.slice, n.id) and _evaluated_unconditionally(x):
                nodes.add(n.id)
            if not isinstance(x, ast.Call) or not _evaluated_unconditionally(x):
                continue
            sd = method_call(x, "setdefault")
            if sd is not None and sd.args and _self_map(f, sd.func.value, attr, n.id, recv) and is_key(sd.args[0], n.id):
                nodes.add(n.id)
                continue
            if depth <= 0 or any(isinstance(a, ast.Starred) for a in x.args) or any(k.arg is None for k in x.keywords):
                continue
            passed = [(i, None) for i, a in enumerate(x.args) if is_key(a, n.id)] + [(None, k.arg) for k in x.keywords if is_key(k.value, n.id)]
            if not passed:
                continue
            for q in prog.resolve_call(f, x, fanout=False):
                h = prog.functions.get(q)
                if h is None or h is f:
                    continue
                hp = list(h.params)
                hrecv = None  # the name of the step object inside the helper
                if hp and hp[0] in ("self", "cls") and h.cls is not None and isinstance(x.func, ast.Attribute):
                    if isinstance(x.func.value, ast.Name) and x.func.value.id == recv:
                        hrecv = hp[0]
                    hp = hp[1:]
                else:
                    for i, a in enumerate(x.args):
                        if isinstance(a, ast.Name) and a.id == recv and i < len(hp):
                            hrecv = hp[i]
                    for k in x.keywords:
                        if isinstance(k.value, ast.Name) and k.value.id == recv and k.arg in hp:
                            hrecv = k.arg
                if hrecv is None:
                    continue
                for i, kw in passed:
                    pname = kw if kw is not None else (hp[i] if i < len(hp) else None)
                    if pname is None or pname not in h.params:
                        continue
                    hn, he = _key_registrations(prog, h, attr, lambda e, _nid, _h=h, _p=pname: is_param(_h, e, _p), depth - 1, autoviv, hrecv)
                    if (hn or he) and _unregistered_path(h.cfg, [h.cfg.entry], hn, he, [h.cfg.exit]) is None:
                        nodes.add(n.id)
        if n.kind == "test":
            te = _expand_test(f, n)
            for kind, val in (("t", True), ("f", False)):
                for a, v in atoms(te, val):
                    if v and isinstance(a, ast.Compare) and len(a.ops) == 1 and isinstance(a.ops[0], ast.In) and is_key(a.left, n.id):
                        m = a.comparators[0]
                        if (mk := method_call(m, "keys")) is not None and not mk.args:
                            m = mk.func.value
                        if _self_map(f, m, attr, n.id, recv):
                            edges.add((n.id, kind))
    return nodes, edges


def _unregistered_path(g, srcs, reg_nodes, reg_edges, targets):
    """Shortest normal path from one of `srcs` to one of `targets` that neither executes a registering node nor takes
    an edge on which the key is known to be present; None when there is none."""
    targets = set(targets)
    prev = {}
    queue = []
    for s in srcs:
        if s not in reg_nodes and s not in prev:
            prev[s] = None
            queue.append(s)
    while queue:
        n = queue.pop(0)
        if n in targets:
            w = []
            while n is not None:
                w.append(n)
                n = prev[n]
            return w[::-1]
        for b, k in g.succ[n]:
            if k not in NORMAL or (n, k) in reg_edges or b in reg_nodes or b in prev:
                continue
            prev[b] = n
            queue.append(b)
    return None


def _measured_operand(f, e, nid, depth: int = 3):
    """(expression, CFG node where it is evaluated) for an operand of a test at node `nid`: a local with exactly one
    reaching definition that is a plain assignment / walrus (`count = len(..)` ... `if count == n:`) stands for the
    assigned expression, evaluated at the definition's node (the measuring point); anything else is itself, at `nid`."""
    while depth > 0 and isinstance(e, ast.Name) and scoped_binding(e) is None:
        d = name_def(f, e, nid)
        if d is None or d.kind not in ("assign", "walrus") or d.index is not None or d.value is None or d.nid is None:
            break
        e, nid, depth = d.value, d.nid, depth - 1
    return e, nid


_LIST_MUTATORS = {"append", "extend", "insert", "pop", "remove", "clear", "update", "popitem"}


def _mutation_between(f, g, a: int, b: int, attr: str):
    """A CFG node on a path from `a` to `b` (both excluded) that may change `self.<attr>` or one of its values: a store /
    delete / augmented assignment through it, or a mutator method called on it (directly or through a local)."""
    if a == b:
        return None
    fwd = g.reach([a], avoid=[b])
    for n in fwd:
        if n in (a, b) or b not in g.reach([n], avoid=[a]):
            continue
        node = g.nodes[n]

        def touches(x):
            for y in ast.walk(x):
                if isinstance(y, ast.Attribute) and y.attr == attr:
                    return True
                if isinstance(y, ast.Name) and isinstance(y.ctx, ast.Load) and scoped_binding(y) is None:
                    o = single_origin(f, y, n)
                    if o is not None and o is not y and any(isinstance(z, ast.Attribute) and z.attr == attr for z in ast.walk(o)):
                        return True
            return False

        for x in node.walk():
            if isinstance(x, ast.Call) and isinstance(x.func, ast.Attribute) and x.func.attr in _LIST_MUTATORS and touches(x.func.value):
                return node
            if isinstance(x, (ast.Subscript, ast.Attribute)) and isinstance(x.ctx, (ast.Store, ast.Del)) and touches(x):
                return node
    return None


def r4(ctx):
    p = ctx.prog
    require_members(ctx, GATHER, ["run", "_gather", "get_size_port", "get_input_port", "_get_input_port_name"], ["token_map", "size_map", "depth"])
    f = p.func(f"{GATHER}.run")
    g = f.cfg
    whiles = [n for n in f.body_nodes() if isinstance(n, ast.While)]
    ctx.require(len(whiles) == 1, f"C01.R4: GatherStep.run: expected one while loop, found {len(whiles)}")
    wl = whiles[0]
    sites = [c for c in f.calls() if resolves_to(p, f, c, f"{GATHER}._gather")]
    firing = [c for c in sites if in_subtree(c, wl)]
    forced = [c for c in sites if not in_subtree(c, wl)]
    ctx.require(all(len(c.args) == 1 for c in sites), "C01.R4: _gather call shape")
    ctx.require(bool(sites), "C01.R4: GatherStep.run contains no direct call of self._gather (extracted helper?): shape not supported")

    # the arrived token and its task name
    def is_arrived_token(e, nid):
        o = single_origin(f, e, nid)
        return method_call(o, "result") is not None

    def is_task_name(e, nid):
        o = single_origin(f, e, nid)
        return method_call(o, "get_name") is not None

    branches = {}
    tests_all = []
    for c in firing:
        cn = nid_of(f, c)
        A = c.args[0]
        cands = []
        for t in g.nodes.values():
            if t.kind != "test":
                continue
            for cmp_, edge in test_compares(f, t):
                sides = [cmp_.left, cmp_.comparators[0]]
                # an operand kept in a temporary (`count = len(..)` ... `if count == n:`) is read through its definition
                meas = [_measured_operand(f, s, t.id) for s in sides]
                lens = [i for i in (0, 1) if builtin_call(f, meas[i][0], "len") is not None]
                if len(lens) != 1:
                    continue
                if g.dominates(t.id, cn) and only_via(g, t.id, fire_edge(edge), cn):
                    cands.append((t, meas[lens[0]][0], sides[1 - lens[0]], cmp_, edge, meas[lens[0]][1]))
        label = tag_canon(f, A, cn)
        if not cands:
            ctx.ob("R4", f"run: _gather({unparse(A)}) is guarded by a count test", False, func=f, node=c,
                   instance=f"run:fire:{label}", message="_gather is called in the loop without testing len(token_map[key]) against the size")
            continue
        # innermost: the candidate dominated by all the others
        t, ln, S, cmp_, edge, mn = max(cands, key=lambda x: sum(1 for y in cands if g.dominates(y[0].id, x[0].id)))
        tests_all.append(t)
        larg = ln.args[0] if ln.args else None
        if isinstance(larg, ast.Name):  # the measured list held in a temporary (`elements = self.token_map.setdefault(..)`)
            larg = single_origin(f, larg, mn) or larg
        K = self_attr_sub(larg, "token_map") if larg is not None else None
        ok, msg = True, ""
        kind = None
        stale = _mutation_between(f, g, mn, t.id, "token_map") if mn != t.id else None
        if K is None or not same(K, A):
            ok, msg = False, f"the count test reads `{unparse(ln)}` but the branch gathers `{unparse(A)}`"
        elif stale is not None:
            ok, msg = False, f"the count `{unparse(ln)}` is taken before `{stale.text(60)}` changes token_map: the test compares a stale count"
        elif edge.startswith("op:"):
            ok, msg = False, f"the count is compared with `{edge[3:]}` instead of ==: the list is gathered more than once / before it is complete"
        else:
            so = origin_at(f, S, t.id)
            real = [o for o in so if const_value(o) is NotImplemented]
            dflt = [const_value(o) for o in so if const_value(o) is not NotImplemented]
            stored = any(isinstance(o, ast.Attribute) and self_attr_sub(o.value, "size_map") is not None for o in real)
            if any(d is not None and not (isinstance(d, (int, float)) and not isinstance(d, bool) and (d < 0 or (d == 0 and stored))) for d in dflt):
                ok, msg = False, f"missing size defaults to `{dflt}` which a count can equal"
            elif len(real) != 1 or not (isinstance(real[0], ast.Attribute) and real[0].attr == "value"):
                if len(real) == 1 and any(isinstance(x, ast.Attribute) and x.attr == "value" for x in ast.walk(real[0])):
                    ok, msg = False, f"the count is compared with `{unparse(real[0])}`, not with the size token's value"
                else:
                    ctx.require(False, f"C01.R4: GatherStep.run: size operand `{unparse(S)}` of the count test has an unsupported shape")
            else:
                base = real[0].value
                k2 = self_attr_sub(single_origin(f, base, t.id) or base, "size_map")
                if k2 is not None:
                    kind = "stored-size"
                    if not same(k2, K):
                        ok, msg = False, f"size is read for `{unparse(k2)}` but the count for `{unparse(K)}`"
                elif is_arrived_token(base, t.id):
                    kind = "arrived-size"
                    ko = single_origin(f, K, t.id)
                    if not (isinstance(ko, ast.Attribute) and ko.attr == "tag" and same(ko.value, base)):
                        ok, msg = False, f"the size token's own tag is not the key (`{unparse(K)}`)"
                else:
                    ctx.require(False, f"C01.R4: GatherStep.run: size operand `{unparse(S)}` not understood")
        if ok and not awaited(c):
            ok, msg = False, "`self._gather(...)` is not awaited: the coroutine is created and dropped, nothing is emitted"
        ctx.ob("R4", f"run: firing test for `{unparse(A)}` is len(token_map[key]) == size", ok, func=f, node=cmp_,
               instance=f"run:fire:{label}", message=msg)
        if kind:
            branches.setdefault(kind, []).append((c, t, K))
        # completed mark on every path after the gather
        adds = [n.id for n in g.nodes.values() for x in n.calls() if method_call(x, "add") is not None and len(x.args) == 1 and same(x.args[0], A)
                and isinstance(x.func.value, ast.Name)]
        w = g.escape(cn, adds, kinds=NORMAL) if adds else [cn]
        ctx.ob("R4", f"run: `{unparse(A)}` is recorded as completed after the gather", bool(adds) and w is None, func=f, node=c,
               instance=f"run:completed:{label}", message="a gathered key is not marked completed: it is gathered again after the loop (duplicate list)",
               witness=g.describe(w) if w else [])
        # what arrived is recorded before the test
        if kind == "arrived-size":
            stores = [n.id for n in g.nodes.values() if n.kind == "stmt" and isinstance(n.ast, ast.Assign)
                      and any((k := self_attr_sub(tg, "size_map")) is not None and same(k, K) for tg in n.ast.targets)
                      and is_arrived_token(n.ast.value, n.id)]
            ctx.ob("R4", "run: the size token is stored in size_map before the count test", bool(stores) and g.dominates(stores, t.id),
                   func=f, node=t.ast, instance="run:store-size", message="size token is not recorded: elements arriving later never complete the list")
        elif kind == "stored-size":
            apps = [n.id for n in g.nodes.values() for x in n.calls() if method_call(x, "append") is not None and len(x.args) == 1
                    and is_arrived_token(x.args[0], n.id) and (k := self_attr_sub(x.func.value, "token_map")) is not None and same(k, K)]
            ctx.ob("R4", "run: the element is appended to token_map[key] before the count test", bool(apps) and g.dominates(apps, mn),
                   func=f, node=t.ast, instance="run:store-elem", message="the arriving element is not appended to token_map[key]: it is lost")
            canon = tag_canon(f, K, t.id)
            ko = single_origin(f, K, t.id)
            tokname = None
            for x in ast.walk(ko) if ko is not None else []:
                if isinstance(x, ast.Attribute) and x.attr == "tag" and isinstance(x.value, ast.Name) and is_arrived_token(x.value, t.id):
                    tokname = x.value.id
            want = f"init[-self.depth](<{tokname}.tag>)"
            ctx.ob("R4", "run: element key = tag minus the last self.depth components", canon == want, func=f, node=t.ast,
                   instance="run:key", message=f"element key is `{canon}`, expected `{want}`")
    got = sorted(branches)
    ctx.ob("R4", "run: both arrival orders fire (size arrives last / element arrives last)", got == ["arrived-size", "stored-size"],
           func=f, node=wl, instance="run:siblings", message=f"firing branches found: {got or 'none'}; one arrival order never completes the list inside the loop")

    # --- tasks: name <-> port pairing, re-arm of the consumed port
    tcs = _task_creations(p, f)
    initial = [x for x in tcs if not in_subtree(x[0], wl)]
    rearm = [x for x in tcs if in_subtree(x[0], wl)]
    ctx.require(len(initial) >= 2, f"C01.R4: GatherStep.run: expected two initial port tasks, found {len(initial)}")

    def port_kind(e, nid):
        o = single_origin(f, e, nid)
        if o is None:
            return None
        if (sc := self_call(o, "get_size_port")) is not None and not sc.args:
            return "size"
        if (sc := self_call(o, "get_input_port")) is not None:
            if not sc.args and not sc.keywords:
                return "input"
            if len(sc.args) == 1 and is_const(sc.args[0], "__size__"):
                return "size"
            if len(sc.args) == 1:
                return ("keyed", sc.args[0])
        if isinstance(o, ast.Subscript) and (self_call(o.value, "get_input_ports") is not None or dotted(o.value) == "self.input_ports"):
            return "size" if is_const(o.slice, "__size__") else ("keyed", o.slice)
        return None

    def name_kind(e, nid):
        if e is None:
            return None
        o = single_origin(f, e, nid)
        if o is None:
            return None
        if is_const(o, "__size__"):
            return "size"
        if self_call(o, "_get_input_port_name") is not None:
            return "input"
        if method_call(o, "get_name") is not None:
            return "consumed"
        return None

    seen_init = set()
    for c, port, name in initial:
        nid = nid_of(f, c)
        pk, nk = port_kind(port, nid), name_kind(name, nid)
        ctx.require(nk in ("size", "input"), f"C01.R4: GatherStep.run: task name `{unparse(name) if name is not None else None}` not understood")
        seen_init.add(nk)
        ctx.ob("R4", f"run: the task named for the {nk} port reads the {nk} port", pk == nk, func=f, node=c, instance=f"run:task:{nk}",
               message=f"task named `{unparse(name)}` reads `{unparse(port)}`: size and element tokens are confused")
    ctx.ob("R4", "run: one initial task per port", seen_init == {"size", "input"}, func=f, node=wl, instance="run:task:both",
           message=f"initial tasks cover only {sorted(seen_init)}")

    def is_size_atom(a, tid):
        """canonical atom `<consumed task's name> == '__size__'` (either operand order)"""
        if not (isinstance(a, ast.Compare) and len(a.ops) == 1 and isinstance(a.ops[0], ast.Eq)):
            return False
        l, r = a.left, a.comparators[0]
        return (is_const(r, "__size__") and is_task_name(l, tid)) or (is_const(l, "__size__") and is_task_name(r, tid))

    # the edges on which the consumed task is known (not) to be the size reader, however the test is spelled
    # (`==` / `!=` / `not ... ==` / swapped arms / a conjunct of a larger guard / a local boolean)
    arrival = _fact_edges(f, g, is_size_atom)
    size_reg = _edge_region(g, arrival, True)
    input_reg = _edge_region(g, arrival, False)
    ctx.ob("R4", "run: tokens are re-armed after processing", bool(rearm), func=f, node=wl, instance="run:rearm:exists",
           message="no port is re-armed inside the loop: only the first token of each port is read")
    need_all, by_local = set(), False
    for c, port, name in rearm:
        nid = nid_of(f, c)
        nk = name_kind(name, nid)
        ctx.require(nk is not None, f"C01.R4: GatherStep.run: re-arm task name `{unparse(name) if name is not None else None}` not understood")
        ok, msg = True, ""
        pk = port_kind(port, nid)
        if nk != "consumed":
            ok, msg = False, f"the re-armed task is always named for the {nk} port, whichever port was consumed: tokens are misclassified"
        elif isinstance(pk, tuple):
            ok = is_task_name(pk[1], nid)
            msg = f"re-arm reads the port keyed by `{unparse(pk[1])}`, not by the consumed task's name"
        elif isinstance(port, ast.Name):
            by_local = True
            ds = rdefs(f, port.id, nid, use=port)
            ctx.require(any(v for _t, _k, v in arrival) and any(not v for _t, _k, v in arrival),
                        "C01.R4: GatherStep.run: branch test `task_name == '__size__'` not found")
            regs = {"size": size_reg, "input": input_reg}
            rn_ = set(g.node_containing(c))
            # tests that classify the arrival on both edges: a definition that reaches the re-arm around all of them
            # re-arms a port for an arrival that was never told apart
            both = {t for t, _k, v in arrival if v} & {t for t, _k, v in arrival if not v}
            cover = set()
            for d in ds:
                if d.kind not in ("assign", "walrus") or d.index is not None or d.nid is None:
                    ok, msg = False, f"`{port.id}` may be unbound or is not a plain assignment on some path to the re-arm"
                    break
                vk = port_kind(d.value, d.nid)
                others = {x.nid for x in ds if x is not d and x.nid is not None and x.nid != d.nid}
                served = {br for br in ("size", "input")
                          if _serves(g, d.nid, rn_, arrival, br == "size", regs[br], others, regs["input" if br == "size" else "size"])}
                if d.nid in size_reg and d.nid in input_reg:
                    ctx.require(False, f"C01.R4: GatherStep.run: `{unparse(g.nodes[d.nid].ast)}` lies in both arrival branches (contradictory tests): shape not supported")
                if d.nid not in size_reg and d.nid not in input_reg and (
                        not served or g.path(d.nid, rn_, avoid=others | both, kinds=NORMAL) is not None):
                    ok, msg = False, f"`{port.id}` is assigned outside the two arrival branches"
                    break
                cover |= served
                wrong_br = sorted(br for br in served if vk != br)
                if wrong_br:
                    br = wrong_br[0]
                    ok, msg = False, f"after a token from the {br} port the step re-arms `{unparse(d.value)}` ({vk} port): the {br} port is never read again and the other one is read twice"
                    break
            # the arrivals that can get to this re-arm at all (a guard-clause shape may re-arm in each arm separately)
            need = {br for br in ("size", "input")
                    if _serves(g, None, rn_, arrival, br == "size", regs[br], (), regs["input" if br == "size" else "size"])}
            need_all |= need
            if ok and not (need and cover >= need):
                ok, msg = False, f"re-armed port is only assigned in the {sorted(cover)} branch"
        elif (tbl := _dispatch_lookup(port)) is not None:
            # a lookup table (dispatch dict) keyed by the task name: `ports_by_task[task_name].get(...)` with
            # `ports_by_task = {'__size__': size_port, port_name: input_port}`; every entry pairs a task name with the
            # port that task reads (the same pairing the initial tasks are held to), the table is indexed by the consumed
            # task's name, it has an entry for both ports and nothing but lookups is ever done with it
            tname, tkey = tbl
            ok, msg = _table_rearm(ctx, f, tname, tkey, nid, port_kind, name_kind, is_task_name)
            if any(v for _t, _k, v in arrival) and any(not v for _t, _k, v in arrival):
                by_local = True
                rn_ = set(g.node_containing(c))
                need_all |= {br for br in ("size", "input")
                             if _serves(g, None, rn_, arrival, br == "size", {"size": size_reg, "input": input_reg}[br], (),
                                        input_reg if br == "size" else size_reg)}
        else:
            ctx.require(False, f"C01.R4: GatherStep.run: re-arm receiver `{unparse(port)}` not understood")
        ctx.ob("R4", "run: each arrival branch re-arms the port it consumed", ok, func=f, node=c, instance="run:rearm:port", message=msg)
    if by_local:
        ctx.ob("R4", "run: both arrivals reach a re-arm of the local port", need_all == {"size", "input"}, func=f, node=wl, instance="run:rearm:both",
               message=f"only the {sorted(need_all)} arrival reaches a re-arm")
    # must-pass-through: from every firing test to the next task / loop iteration (some re-arm: a guard-clause shape has one per arm)
    rn = [i for c, _p, _n in rearm for i in g.node_containing(c)]
    heads = [n.id for n in g.nodes.values() if n.kind == "test" and n.ast is wl.test]
    for c, _p, _n in rearm:
        inner_for = None
        for a in [x for x in ast.walk(wl) if isinstance(x, (ast.For, ast.AsyncFor))]:
            if in_subtree(c, a):
                inner_for = a
        heads = heads + [i for i in (g.ids_of(inner_for) if inner_for is not None else []) if i not in heads]
    for t in (tests_all if rearm else []):
        w = g.escape(t.id, rn, targets=heads + [g.exit], kinds=NORMAL)
        ctx.ob("R4", f"run: after `{t.text(50)}` the consumed port is re-armed before the next task is examined", w is None,
               func=f, node=t.ast, instance=f"run:rearm:path:{t.text(80)}", message="a path from the firing test reaches the next task without re-arming the port",
               witness=g.describe(w) if w else [])

    # --- the announced key is registered in token_map on every path through the size arrival
    # (an empty list has no element that would create the entry: without it the size-0 gather reads a missing key or
    # never fires, and the forced gather below -- it iterates the keys of token_map -- does not see the list either)
    def is_size_key(e, nid):
        o = single_origin(f, e, nid)
        return isinstance(o, ast.Attribute) and o.attr == "tag" and is_arrived_token(o.value, nid)

    size_edges = [(tid, kind) for tid, kind, v in arrival if v]
    ctx.require(bool(size_edges), "C01.R4: GatherStep.run: branch test `task_name == '__size__'` not found")
    reg_nodes, reg_edges = _key_registrations(p, f, "token_map", is_size_key, depth=1, autoviv=_map_is_defaultdict(p, GATHER, "token_map"))
    ends = set(heads) | {g.exit}
    for a in ancestors(g.nodes[size_edges[0][0]].ast):
        if isinstance(a, (ast.For, ast.AsyncFor)):
            ends |= set(g.ids_of(a))
    srcs = [s for tid, kind in size_edges for s in branch_succ(g, tid, kind)]
    w = _unregistered_path(g, srcs, reg_nodes, reg_edges, ends)
    ctx.ob("R4", "run: the size token's key is registered in token_map on every path through the size arrival", w is None, func=f,
           node=_skip_site(g, (w or [])[:-1], g.nodes[size_edges[0][0]].ast), instance="run:register-size-key", witness=g.describe(w) if w else [],
           message=f"`{_skip_text(g, (w or [])[:-1])}` lets a size token be handled without creating token_map[<its tag>] (setdefault / explicit insertion): for an empty list "
                   f"no element ever creates the entry, so the size-0 gather does not fire and the forced gather over token_map's keys never sees the list (it is silently lost)")

    # --- forced gather after the loop
    ctx.ob("R4", "run: non-completed keys are gathered (awaited) after the loop", bool(forced) and all(awaited(c) for c in forced), func=f, node=wl, instance="run:forced:exists",
           message="the forced gather after the loop is gone (or not awaited): lists whose size token never arrives (or arrives on a closed port) are never emitted")
    completed_sets = set()
    for c in firing:
        cn = nid_of(f, c)
        for n in g.nodes.values():
            for x in n.calls():
                if method_call(x, "add") is not None and len(x.args) == 1 and same(x.args[0], c.args[0]) and isinstance(x.func.value, ast.Name):
                    completed_sets.add(x.func.value.id)
    for c in forced:
        cn = nid_of(f, c)
        A = c.args[0]
        loop = None
        for a in [x for x in f.body_nodes() if isinstance(x, (ast.For, ast.AsyncFor))]:
            if in_subtree(c, a):
                loop = a
        ctx.require(loop is not None, "C01.R4: forced gather is not inside a loop over the keys")
        # filter on the completed set: comprehension `if k not in <completed>` / `- <completed>` in the iterable,
        # or a test in the loop body whose matching branch leads to the gather
        filt, wrong = False, ""
        scope = [loop.iter]
        for o in origin_at(f, loop.iter, (g.ids_of(loop) or [None])[0]):
            scope.append(o)
        for s_ in scope:
            for x in ast.walk(s_):
                if isinstance(x, ast.Compare) and len(x.ops) == 1 and isinstance(x.ops[0], (ast.NotIn, ast.In)) and isinstance(x.comparators[0], ast.Name) \
                        and x.comparators[0].id in completed_sets:
                    neg = isinstance(getattr(x, "_parent", None), ast.UnaryOp) and isinstance(x._parent.op, ast.Not)
                    if isinstance(x.ops[0], ast.NotIn) != neg:
                        filt = True
                    else:
                        wrong = f"`{unparse(x)}` keeps exactly the keys that were already gathered"
                if isinstance(x, ast.BinOp) and isinstance(x.op, ast.Sub) and isinstance(x.right, ast.Name) and x.right.id in completed_sets:
                    filt = True
        for t in g.nodes.values():
            if t.kind != "test" or not in_subtree(t.ast, loop) or not g.dominates(t.id, cn):
                continue
            # the edge on which `<key> in <completed>` is known to be false must be the one that leads to the gather
            # (facts: `not in` / `not (... in ...)` / a conjunct of a larger guard are the same atom)
            for edge, val in (("t", True), ("f", False)):
                for x, v in atoms(t.ast, val):
                    if isinstance(x, ast.Compare) and len(x.ops) == 1 and isinstance(x.ops[0], ast.In) and isinstance(x.comparators[0], ast.Name) \
                            and x.comparators[0].id in completed_sets and only_via(g, t.id, edge, cn):
                        if not v:
                            filt = True
                        else:
                            wrong = f"`{unparse(t.ast)}` lets only the already gathered keys through"
        ctx.ob("R4", "run: the forced gather skips the keys completed inside the loop", filt and not wrong, func=f, node=loop, instance="run:forced:filter",
               message=wrong or "completed keys are gathered a second time after the loop (duplicate output list)")
        over_map = any(dotted(x) == "self.token_map" for s in [loop.iter] for x in ast.walk(s))
        ctx.ob("R4", "run: the forced gather iterates the keys of token_map", over_map, func=f, node=loop, instance="run:forced:keys",
               message=f"forced gather iterates `{unparse(loop.iter)}`")
        guards = []
        for t in g.nodes.values():
            if t.kind != "test" or t.ast is None:
                continue
            te = _expand_test(f, t)
            if not any(isinstance(x, ast.Attribute) and x.attr == "FAILED" for x in ast.walk(te)):
                continue
            # the edge on which `<status> == FAILED` is known to be false (`!=`, `is not`, `not ... ==`, swapped arms,
            # a conjunct of a larger guard) is the only one that leads to the gather
            for edge, val in (("t", True), ("f", False)):
                if any(not v and isinstance(x, ast.Compare) and len(x.ops) == 1 and isinstance(x.ops[0], (ast.Eq, ast.Is))
                       and any(isinstance(y, ast.Attribute) and y.attr == "FAILED" for y in ast.walk(x)) for x, v in atoms(te, val)):
                    if g.dominates(t.id, cn) and only_via(g, t.id, edge, cn):
                        guards.append(t)
        ctx.ob("R4", "run: no forced gather when the status is FAILED", bool(guards), func=f, node=c, instance="run:forced:failed-guard",
               message="partial lists are emitted as if complete when an input port failed")
        stores = [n.id for n in g.nodes.values() if n.kind == "stmt" and isinstance(n.ast, ast.Assign)
                  and any((k := self_attr_sub(tg, "size_map")) is not None and same(k, A) for tg in n.ast.targets)]
        ok, msg = bool(stores) and g.dominates(stores, cn), "size_map[key] is not refreshed before the forced gather (_gather reads it for the provenance)"
        if ok:
            for sid in stores:
                v = g.nodes[sid].ast.value
                if isinstance(v, ast.Call) and resolves_to(p, f, v, "streamflow.core.workflow.Token"):
                    val = kwarg(v, "value", 0)
                    tag = kwarg(v, "tag", 1)
                    ln = builtin_call(f, val, "len")
                    if not (ln is not None and ln.args and (k := self_attr_sub(ln.args[0], "token_map")) is not None and same(k, A)):
                        ok, msg = False, f"forced size token has value `{unparse(val) if val is not None else None}`, not len(token_map[key])"
                    elif not (tag is not None and same(tag, A)):
                        ok, msg = False, f"forced size token is tagged `{unparse(tag) if tag is not None else '<default>'}`"
        ctx.ob("R4", "run: size_map[key] is set to the actual count before the forced gather", ok, func=f, node=c, instance="run:forced:size", message=msg)


# =========================================================================== R5


def _path_join(prog, f, e) -> ast.Call | None:
    """`posixpath.join(a, b, ...)` / `os.path.join(...)` with plain positional arguments."""
    if isinstance(e, ast.Call) and e.args and not e.keywords and not any(isinstance(a, ast.Starred) for a in e.args):
        if (dotted(e.func) or "") in ("posixpath.join", "os.path.join", "path.join") or resolves_to(prog, f, e, "posixpath.join", "os.path.join"):
            return e
    return None


def _okeys(f, e, nid) -> frozenset:
    """What `e` may denote at CFG node `nid`, as a comparable set: literal values, leaf names (parameters,
    loop / comprehension variables) and the text of any other origin (`task.get_name()`)."""
    keys = set()
    for o in origin_at(f, e, nid):
        c = const_value(o)
        if c is not NotImplemented:
            keys.add(("const", repr(c)))
        elif isinstance(o, ast.Name):
            sb = scoped_binding(o)
            keys.add(("scoped", o.id, id(sb[1])) if sb is not None else ("name", o.id))
        else:
            keys.add(("expr", unparse(o)))
    return frozenset(keys)


class ConsumerCanon:
    """Canonical text of a consumer-id expression (the argument of `<port>.get(...)`) as a function of the
    name of the task that reads the port: every sub-expression that denotes the same value as the task's
    `name=` argument becomes `<NAME>`, locals are replaced by what they were assigned (at the assignment's
    own program point), `posixpath.join(a, b)`, `f'{a}/{b}'` and `a + '/' + b` all become `a/b`.
    `leaves` collects the local names that could not be looked through: (Name, [reaching definitions]);
    `alts` the locals with several different reaching values: (Name, [definitions])."""

    def __init__(self, prog, f, name, nid):
        self.prog = prog
        self.f = f
        self.nkeys = _okeys(f, name, nid) if name is not None else None
        self.leaves: list = []
        self.alts: list = []

    def _special(self, e, nid, depth):
        f = self.f
        if isinstance(e, ast.Await):
            return self.text(e.value, nid, depth)
        if isinstance(e, ast.NamedExpr):
            return self.text(e.value, nid, depth)
        if not isinstance(e, ast.expr) or isinstance(e, (ast.Starred, ast.Slice)):
            return None
        if isinstance(e, ast.Name) and not isinstance(e.ctx, ast.Load):
            return None
        if self.nkeys is not None and not isinstance(e, (ast.Lambda,)) and _okeys(f, e, nid) == self.nkeys:
            return "<NAME>"
        if isinstance(e, ast.Name):
            if scoped_binding(e) is not None or nid is None:
                return None
            ds = rdefs(f, e.id, nid, use=e)
            if not ds or all(d.kind in ("unbound", "import", "def") for d in ds):
                return None  # a global / builtin / imported name
            if depth > 0 and all(d.kind in ("assign", "walrus") and d.index is None for d in ds):
                alts = sorted({self.text(d.value, d.nid, depth - 1) for d in ds})
                if len(alts) == 1:
                    return alts[0]
                self.alts.append((e, ds))
                return "{" + " | ".join(alts) + "}"
            if any(d.kind not in ("param",) for d in ds):
                self.leaves.append((e, ds))
            return None
        pj = _path_join(self.prog, f, e)
        if pj is not None:
            return "/".join(self.text(a, nid, depth) for a in pj.args)
        if isinstance(e, ast.Constant):
            return e.value if isinstance(e.value, str) else None
        parts = merged_parts(e)
        if not (len(parts) == 1 and parts[0] is e):
            out = ""
            for p_ in parts:
                if isinstance(p_, str):
                    out += p_
                elif isinstance(p_, ast.FormattedValue):
                    out += f"?({unparse(p_)})"
                else:
                    out += self.text(p_, nid, depth)
            return out
        return None

    def _rebuild(self, e, nid, depth):
        s = self._special(e, nid, depth)
        if s is not None:
            return ast.Name(id=s, ctx=ast.Load())
        new = copy.copy(e)
        for field, val in ast.iter_fields(e):
            if isinstance(val, ast.AST):
                setattr(new, field, self._rebuild(val, nid, depth))
            elif isinstance(val, list):
                setattr(new, field, [self._rebuild(x, nid, depth) if isinstance(x, ast.AST) else x for x in val])
        return new

    def text(self, e, nid, depth: int = 6) -> str:
        s = self._special(e, nid, depth)
        if s is not None:
            return s
        return f"<{unparse(self._rebuild(e, nid, depth))}>"


def _is_task_ctor(prog, f, c) -> bool:
    if not isinstance(c, ast.Call) or not c.args:
        return False
    fn = c.func
    nm = fn.attr if isinstance(fn, ast.Attribute) else (fn.id if isinstance(fn, ast.Name) else None)
    return nm in ("create_task", "ensure_future")


def _port_get(prog, f, e) -> ast.Call | None:
    """`<port>.get(C)` with exactly one argument whose receiver is not known to be something else than a Port."""
    m = method_call(e, "get")
    if m is None or len(m.args) != 1 or m.keywords or isinstance(m.args[0], ast.Starred) or isinstance(m.func.value, ast.Constant):
        return None
    rs = prog.resolve_call(f, m)
    if rs and not any(q.startswith("?") or q.endswith("Port.get") for q in rs):
        return None
    return m


def _port_reads(prog, f):
    """[(get call, 'task'|'await', site)] for every one-argument `<port>.get(C)` of f that is wrapped in a task
    (`site` = the create_task call) or awaited (`site` = the Await), directly or through a local that holds the
    coroutine (a read of a port; `dict.get(k)` is neither wrapped nor awaited)."""
    out = []
    seen = set()
    for c in f.calls():
        if not _is_task_ctor(prog, f, c):
            continue
        a0 = strip_await(c.args[0])
        o = a0 if isinstance(a0, ast.Call) else single_origin(f, a0, nid_of(f, c))
        m = _port_get(prog, f, o)
        if m is not None:
            out.append((m, "task", c))
            seen.add(id(m))
    for a in f.body_nodes():
        if not isinstance(a, ast.Await):
            continue
        v = a.value
        o = v if isinstance(v, ast.Call) else (single_origin(f, v, nid_of(f, a)) if isinstance(v, ast.Name) else None)
        m = _port_get(prog, f, o)
        if m is not None and id(m) not in seen:
            out.append((m, "await", a))
    return out


def _defs_inside(f, ds, loop):
    """The statements of the definitions `ds` that lie inside `loop`."""
    out = []
    for d in ds:
        if d.nid is None:
            continue
        a = d.stmt if d.stmt is not None else f.cfg.nodes[d.nid].ast
        if a is not None and in_subtree(a, loop):
            out.append(a)
    return out


def r5(ctx):
    p = ctx.prog
    p.cls(STEP_BASE)
    runs = [f for f in p.concrete_impls(STEP_BASE, "run")]
    ctx.require(bool(runs), "C01.R5: no Step.run implementation found")
    checked = set()
    for f in sorted(runs, key=lambda x: x.qualname):
        who = ".".join(f.qualname.rsplit(".", 2)[-2:])
        whiles = [n for n in f.body_nodes() if isinstance(n, ast.While)]
        if not whiles:
            continue
        reads = _port_reads(p, f)
        if not reads:
            continue
        initial = [r for r in reads if r[1] == "task" and not any(in_subtree(r[2], w) for w in whiles)]
        seen_inst: dict = {}

        def inst(base):
            seen_inst[base] = seen_inst.get(base, 0) + 1
            return base if seen_inst[base] == 1 else f"{base}#{seen_inst[base]}"

        # (a) a reader task re-created inside the task loop uses the consumer id the port was first armed with
        arm = []
        for m, _k, tc in initial:
            nm = kwarg(tc, "name")
            if nm is None:
                continue  # an unnamed reader task cannot be told apart by a loop over `task.get_name()`; not a reference
            nid = nid_of(f, m)
            arm.append((ConsumerCanon(p, f, nm, nid).text(m.args[0], nid), m))
        for m, k, tc in reads:
            loops = [w for w in whiles if in_subtree(tc, w)]
            if not loops:
                continue
            wl = loops[0]
            nid = nid_of(f, m)
            if k == "task":
                if not arm:
                    ctx.observe(f"C01.R5: {f.qualname}: re-armed reader `{unparse(m)}` has no named initial reader task to compare with")
                    continue
                nm = kwarg(tc, "name")
                if nm is None:
                    ctx.observe(f"C01.R5: {f.qualname}: re-armed reader task `{unparse(m)}` has no name=; consumer id not compared")
                    continue
                got = ConsumerCanon(p, f, nm, nid).text(m.args[0], nid)
                want = sorted({t for t, _m in arm})
                checked.add(f.qualname)
                ctx.ob("R5", f"{who}: the re-armed reader of a port uses the consumer id the port was first armed with", got in want, func=f, node=m,
                       instance=inst(f"{who}:rearm-consumer"),
                       message=f"re-arm `{unparse(m)}` (task name `{unparse(nm)}`) reads as consumer `{got}`, but the port was armed as consumer "
                               f"`{' / '.join(want)}` (<NAME> = the task's name): a port whose name differs gets a NEW consumer and Port replays its "
                               f"whole token_list to it (tokens handled twice: duplicate / early gathered lists)")
            else:
                # (b) a read awaited in the loop itself is its own re-arm: the consumer id does not change between iterations
                cc = ConsumerCanon(p, f, None, nid)
                got = cc.text(m.args[0], nid)
                rc = ConsumerCanon(p, f, None, nid)
                rc.text(m.func.value, nid)
                recv_stmts = {id(a) for _e, ds in rc.leaves + rc.alts for a in _defs_inside(f, ds, wl)}
                varying = []
                for e, ds in cc.leaves + cc.alts:
                    ins = _defs_inside(f, ds, wl)
                    if ins and not all(id(a) in recv_stmts for a in ins):
                        varying.append(e.id)
                checked.add(f.qualname)
                ctx.ob("R5", f"{who}: the port read in the loop keeps one consumer id for all iterations", not varying, func=f, node=m,
                       instance=inst(f"{who}:loop-consumer"),
                       message=f"consumer id `{unparse(m.args[0])}` of `{unparse(m)}` depends on {sorted(set(varying))}, rebound inside the loop: every "
                               f"iteration registers a new consumer and Port replays the tokens already handled")
    for q in (f"{GATHER}.run", f"{SCATTER}.run"):
        ctx.require(q in checked, f"C01.R5: {q} has no port read inside a task loop that the rule understands (shape not supported)")


RULES = [("R1", r1), ("R2", r2), ("R3", r3), ("R4", r4), ("R5", r5)]
FLOORS = {"R1": 5, "R2": 4, "R3": 7, "R4": 14, "R5": 4}

_G = f"{GATHER}._gather"
_S = f"{SCATTER}._scatter"
_R = f"{GATHER}.run"
_SR = f"{SCATTER}.run"
_CR = f"{STEP}.CombinatorStep.run"
_LCR = f"{STEP}.LoopCombinatorStep.run"
_ELEM_PUT = "await self._persist_token(token=t.retag(token.tag + '.' + str(i)), port=output_port, input_token_ids=get_entity_ids([token]))"
_SIZE_PUT = "await self._persist_token(token=Token(len(token.value), tag=token.tag, recoverable=True), port=size_port, input_token_ids=get_entity_ids([token]))"

_SZ_ARM = ("                    self.size_map[token.tag] = token\n                    port = size_port\n"
           "                    if len(self.token_map.setdefault(token.tag, [])) == token.value:\n"
           "                        await self._gather(token.tag)\n                        keys_completed.add(token.tag)\n")
_IN_ARM = ("                    if logger.isEnabledFor(logging.DEBUG):\n                        logger.debug(f'Step {self.name} received input {token.tag}')\n"
           "                    key = '.'.join(token.tag.split('.')[:-self.depth])\n                    self.token_map.setdefault(key, []).append(token)\n"
           "                    port = input_port\n                    size_value = self.size_map[key].value if key in self.size_map else None\n"
           "                    if len(self.token_map.setdefault(key, [])) == size_value:\n"
           "                        await self._gather(key)\n                        keys_completed.add(key)\n")
_ARMS = "                if task_name == '__size__':\n" + _SZ_ARM + "                else:\n" + _IN_ARM
_REARM = "                unfinished.add(asyncio.create_task(port.get(posixpath.join(self.name, task_name)), name=task_name))"

# the text between the initial tasks and the arrival arms, and the arms without their per-branch `port = ...`
_HEAD = ("    keys_completed = set()\n    status = Status.SKIPPED\n    while tasks:\n"
         "        finished, unfinished = await asyncio.wait(tasks, return_when=asyncio.FIRST_COMPLETED)\n        for task in finished:\n"
         "            if task.cancelled():\n                continue\n            task_name = task.get_name()\n            token = task.result()\n"
         "            if check_termination(token):\n                status = _reduce_statuses([status, token.value])\n"
         "                if logger.isEnabledFor(logging.DEBUG):\n"
         "                    logger.debug(f'Step {self.name} received termination token on port {task_name}')\n            else:\n")
_ARMS_NOPORT = _ARMS.replace("                    port = size_port\n", "").replace("                    port = input_port\n", "")
_REARM_TABLE = _REARM.replace("port.get(", "ports_by_task[task_name].get(")


def _table_variant(table: str, rearm: str = _REARM_TABLE) -> str:
    """GatherStep.run with the per-branch `port = ...` replaced by a lookup table built before the loop (benign B12-3)."""
    return "    ports_by_task = " + table + "\n" + _HEAD + _ARMS_NOPORT + rearm


def _dedent4(t: str) -> str:
    return "".join(line[4:] + "\n" for line in t.splitlines())


VARIANTS = [
    V("count test on a temporary holding the registered list (benign)", "streamflow/workflow/step.py", "streamflow.workflow.step.GatherStep.run",
      "if len(self.token_map.setdefault(token.tag, [])) == token.value:", "elements = self.token_map.setdefault(token.tag, [])\n                    if len(elements) == token.value:", None),
    V("run: count of the size branch taken into a temporary before the test (benign)", SFILE, _R,
      "if len(self.token_map.setdefault(token.tag, [])) == token.value:", "count = len(self.token_map.setdefault(token.tag, []))\n                    if count == token.value:", None),
    V("run: count of the element branch taken into a temporary before the test (benign)", SFILE, _R,
      "if len(self.token_map.setdefault(key, [])) == size_value:", "count = len(self.token_map.setdefault(key, []))\n                    if count == size_value:", None),
    V("run: both operands of the size-branch test in temporaries, flipped (benign)", SFILE, _R,
      "if len(self.token_map.setdefault(token.tag, [])) == token.value:",
      "expected = token.value\n                    count = len(self.token_map.setdefault(token.tag, []))\n                    if not expected != count:", None),
    V("run: element count taken into a temporary BEFORE the element is appended (stale count)", SFILE, _R,
      "                    self.token_map.setdefault(key, []).append(token)\n                    port = input_port\n                    size_value = self.size_map[key].value if key in self.size_map else None\n                    if len(self.token_map.setdefault(key, [])) == size_value:",
      "                    count = len(self.token_map.setdefault(key, []))\n                    self.token_map.setdefault(key, []).append(token)\n                    port = input_port\n                    size_value = self.size_map[key].value if key in self.size_map else None\n                    if count == size_value:", "R4"),
    V("run: temporary count compared with >= in the size branch", SFILE, _R,
      "if len(self.token_map.setdefault(token.tag, [])) == token.value:", "count = len(self.token_map.setdefault(token.tag, []))\n                    if count >= token.value:", "R4"),
    V("run: temporary count measures another key's list", SFILE, _R,
      "if len(self.token_map.setdefault(key, [])) == size_value:", "count = len(self.token_map.setdefault(token.tag, []))\n                    if count == size_value:", "R4"),

    # ---- R1
    V("compare_tags: int() dropped on both components (three-way string compare)", UFILE, CT,
      "if (res := (int(elem1) - int(elem2))) != 0:", "if (res := ((elem1 > elem2) - (elem1 < elem2))) != 0:", "R1", control=True),
    V("compare_tags: length test moved after the loop", UFILE, CT,
      "    if (res := (len(list1) - len(list2))) != 0:\n        return res\n    for elem1, elem2 in zip(list1, list2, strict=True):\n        if (res := (int(elem1) - int(elem2))) != 0:\n            return res\n",
      "    for elem1, elem2 in zip(list1, list2):\n        if (res := (int(elem1) - int(elem2))) != 0:\n            return res\n    if (res := (len(list1) - len(list2))) != 0:\n        return res\n", "R1"),
    V("compare_tags: wrong variable (first tag compared with itself)", UFILE, CT, "zip(list1, list2, strict=True)", "zip(list1, list1, strict=True)", "R1"),
    V("compare_tags: components added instead of subtracted", UFILE, CT, "int(elem1) - int(elem2)", "int(elem1) + int(elem2)", "R1"),
    V("compare_tags: length difference sign swapped", UFILE, CT, "len(list1) - len(list2)", "len(list2) - len(list1)", "R1"),
    V("compare_tags: length difference tested with > 0", UFILE, CT, "(res := (len(list1) - len(list2))) != 0", "(res := (len(list1) - len(list2))) > 0", "R1"),
    V("compare_tags: lists compared directly", UFILE, CT,
      "    for elem1, elem2 in zip(list1, list2, strict=True):\n        if (res := (int(elem1) - int(elem2))) != 0:\n            return res\n    return 0",
      "    return (list1 > list2) - (list1 < list2)", "R1"),
    # ---- R2
    V("_gather without sorted", SFILE, _G, "value=sorted(self.token_map[key], key=cmp_to_key(lambda x, y: compare_tags(x.tag, y.tag)))", "value=self.token_map[key]", "R2", control=True),
    V("_gather sort key t.tag", SFILE, _G, "key=cmp_to_key(lambda x, y: compare_tags(x.tag, y.tag))", "key=lambda t: t.tag", "R2"),
    V("_gather lambda args swapped", SFILE, _G, "compare_tags(x.tag, y.tag)", "compare_tags(y.tag, x.tag)", "R2"),
    V("_gather reverse=True", SFILE, _G, "key=cmp_to_key(lambda x, y: compare_tags(x.tag, y.tag)))", "key=cmp_to_key(lambda x, y: compare_tags(x.tag, y.tag)), reverse=True)", "R2"),
    V("_gather tags the list with the default tag", SFILE, _G, "ListToken(tag=key, value=", "ListToken(value=", "R2"),
    V("_gather puts the un-awaited _persist_token coroutine", SFILE, _G, "output_port.put(await self._persist_token(", "output_port.put(self._persist_token(", "R2"),
    V("_gather: compare_tags itself as comparator of tokens", SFILE, _G, "cmp_to_key(lambda x, y: compare_tags(x.tag, y.tag))", "cmp_to_key(compare_tags)", "R2"),
    # ---- R3
    V("_scatter str(i + 1)", SFILE, _S, "str(i)", "str(i + 1)", "R3", control=True),
    V("_scatter size len - 1", SFILE, _S, "Token(len(token.value), tag=token.tag", "Token(len(token.value) - 1, tag=token.tag", "R3"),
    V("_scatter size tagged with the last element tag", SFILE, _S, "Token(len(token.value), tag=token.tag,", "Token(len(token.value), tag=token.tag + '.' + str(i),", "R3"),
    V("_scatter size put on the output port", SFILE, _S, "size_port = self.get_size_port()", "size_port = self.get_output_port()", "R3"),
    V("_scatter element tag built from the element's own tag", SFILE, _S, "t.retag(token.tag + '.' + str(i))", "t.retag(t.tag + '.' + str(i))", "R3"),
    V("_scatter enumerates the reversed list", SFILE, _S, "enumerate(token.value)", "enumerate(reversed(token.value))", "R3"),
    V("_scatter size emitted inside the loop", SFILE, _S,
      "\n        size_port = self.get_size_port()\n        size_port.put(await self._persist_token(token=Token(len(token.value), tag=token.tag, recoverable=True), port=size_port, input_token_ids=get_entity_ids([token])))",
      "\n            size_port = self.get_size_port()\n            size_port.put(await self._persist_token(token=Token(len(token.value), tag=token.tag, recoverable=True), port=size_port, input_token_ids=get_entity_ids([token])))", "R3"),
    V("_scatter returns early on an empty list, before the size token (seeded C01-3)", SFILE, _S,
      "        output_port = self.get_output_port()\n        for i, t in enumerate(token.value):",
      "        if len(token.value) == 0:\n            return\n        output_port = self.get_output_port()\n        for i, t in enumerate(token.value):", "R3"),
    V("_scatter emits the size token only for non-empty lists", SFILE, _S,
      "        size_port = self.get_size_port()\n        size_port.put(" + _SIZE_PUT + ")",
      "        if token.value:\n            size_port = self.get_size_port()\n            size_port.put(" + _SIZE_PUT + ")", "R3"),
    V("_scatter: guard clause returns silently for empty input before anything is emitted", SFILE, _S,
      "    if isinstance(token, ListToken):\n        output_port",
      "    if not token.value:\n        logger.debug('nothing to scatter')\n        return None\n    if isinstance(token, ListToken):\n        output_port", "R3"),
    V("_scatter skips some elements (continue before the put)", SFILE, _S,
      "        for i, t in enumerate(token.value):\n            output_port.put(",
      "        for i, t in enumerate(token.value):\n            if t.value is None:\n                continue\n            output_port.put(", "R3"),
    V("_scatter stops at the first empty element (break before the put)", SFILE, _S,
      "        for i, t in enumerate(token.value):\n            output_port.put(",
      "        for i, t in enumerate(token.value):\n            if not t.value:\n                break\n            output_port.put(", "R3"),
    V("ScatterStep.run drops empty lists instead of scattering them", SFILE, _SR,
      "            await self._scatter(token)", "            if token.value:\n                await self._scatter(token)", "R3"),
    V("ScatterStep.run does not await _scatter", SFILE, _SR, "            await self._scatter(token)", "            self._scatter(token)", "R3"),
    # ---- R4
    V("run: == -> >= in the size branch", SFILE, _R, "len(self.token_map.setdefault(token.tag, [])) == token.value", "len(self.token_map.setdefault(token.tag, [])) >= token.value", "R4", control=True),
    V("run: forced gather deleted", SFILE, _R,
      "            await self.size_map[key].save(self.workflow.context.database, size_port.persistent_id)\n            await self._gather(key)",
      "            await self.size_map[key].save(self.workflow.context.database, size_port.persistent_id)", "R4"),
    V("run: re-arm the other port", SFILE, _R, "port = input_port", "port = size_port", "R4"),
    V("run: element branch forgets to fire", SFILE, _R,
      "                    if len(self.token_map.setdefault(key, [])) == size_value:\n                        await self._gather(key)\n                        keys_completed.add(key)\n", "", "R4"),
    V("run: completed mark dropped in the size branch", SFILE, _R, "                        keys_completed.add(token.tag)\n", "", "R4"),
    V("run: key ignores self.depth", SFILE, _R, "token.tag.split('.')[:-self.depth]", "token.tag.split('.')[:-1]", "R4"),
    V("run: initial task names swapped", SFILE, _R, "size_port.get(posixpath.join(self.name, '__size__')), name='__size__'", "size_port.get(posixpath.join(self.name, '__size__')), name=port_name", "R4"),
    V("run: forced gather ignores keys_completed", SFILE, _R, "for key in (k for k in self.token_map.keys() if k not in keys_completed):", "for key in list(self.token_map.keys()):", "R4"),
    V("run: forced gather also on FAILED", SFILE, _R, "if status != Status.FAILED:", "if True:", "R4"),
    V("run: element not appended", SFILE, _R, "                    self.token_map.setdefault(key, []).append(token)\n", "", "R4"),
    V("run: _gather not awaited in the element branch", SFILE, _R, "                        await self._gather(key)\n                        keys_completed.add(key)", "                        self._gather(key)\n                        keys_completed.add(key)", "R4"),
    V("run: forced gather keeps only the completed keys", SFILE, _R, "if k not in keys_completed", "if k in keys_completed", "R4"),
    V("run: arrival branches swapped (task_name != '__size__')", SFILE, _R, "if task_name == '__size__':", "if task_name != '__size__':", "R4"),
    V("run: re-arm only when the list fired", SFILE, _R,
      "                unfinished.add(asyncio.create_task(port.get(posixpath.join(self.name, task_name)), name=task_name))",
      "                if token.tag in keys_completed:\n                    unfinished.add(asyncio.create_task(port.get(posixpath.join(self.name, task_name)), name=task_name))", "R4"),
    V("run: arms swapped under a negated test, but the element arm re-arms the size port", SFILE, _R, _ARMS,
      "                if not task_name == '__size__':\n" + _IN_ARM.replace("port = input_port", "port = size_port") + "                else:\n" + _SZ_ARM, "R4"),
    V("run: port defaulted to the size port before the branch, the element arm no longer assigns it", SFILE, _R, _ARMS,
      "                port = size_port\n                if task_name == '__size__':\n" + _SZ_ARM.replace("                    port = size_port\n", "")
      + "                else:\n" + _IN_ARM.replace("                    port = input_port\n", ""), "R4"),
    V("run: guard-clause shape whose size arm re-arms the element port", SFILE, _R, _ARMS + _REARM,
      "                if task_name == '__size__':\n" + _SZ_ARM.replace("port = size_port", "port = input_port") + "    " + _REARM + "\n                    continue\n"
      + _dedent4(_IN_ARM) + _REARM, "R4"),
    V("run: forced gather only when the status IS failed (double negation)", SFILE, _R, "if status != Status.FAILED:", "if not status != Status.FAILED:", "R4"),
    V("run: in-loop completed filter lets only the gathered keys through (negated spelling)", SFILE, _R,
      "        for key in (k for k in self.token_map.keys() if k not in keys_completed):\n",
      "        for key in list(self.token_map):\n            if not key in keys_completed:\n                continue\n", "R4"),
    V("run: port lookup table pairs each task name with the other port", SFILE, _R, _HEAD + _ARMS + _REARM,
      _table_variant("{'__size__': input_port, port_name: size_port}"), "R4"),
    V("run: port lookup table maps both task names to the element port", SFILE, _R, _HEAD + _ARMS + _REARM,
      _table_variant("{'__size__': input_port, port_name: input_port}"), "R4"),
    V("run: port lookup table has no entry for the size task", SFILE, _R, _HEAD + _ARMS + _REARM,
      _table_variant("{port_name: input_port}"), "R4"),
    V("run: port lookup table indexed by the element port's name instead of the consumed task's", SFILE, _R, _HEAD + _ARMS + _REARM,
      _table_variant("{'__size__': size_port, port_name: input_port}", _REARM.replace("port.get(", "ports_by_task[port_name].get(")), "R4"),
    V("run: port lookup table built in the loop, its size entry holds the element port", SFILE, _R, _REARM,
      "                ports_by_task = {'__size__': self.get_input_port(), port_name: input_port}\n" + _REARM_TABLE, "R4"),
    V("run: table-driven re-arm only in the size arm (the element port is read once)", SFILE, _R, _HEAD + _ARMS + _REARM,
      "    ports_by_task = {'__size__': size_port, port_name: input_port}\n" + _HEAD
      + _ARMS_NOPORT.replace("                else:\n", "    " + _REARM_TABLE + "\n                else:\n", 1), "R4"),
    V("run: size arrival tests the count only when the key is already in token_map (seeded: empty list never registered)", SFILE, _R,
      "if len(self.token_map.setdefault(token.tag, [])) == token.value:",
      "if token.tag in self.token_map and len(self.token_map[token.tag]) == token.value:", "R4"),
    V("run: size arrival looks the key up under a membership guard (nested ifs), nothing registers it", SFILE, _R,
      "                    if len(self.token_map.setdefault(token.tag, [])) == token.value:\n                        await self._gather(token.tag)\n                        keys_completed.add(token.tag)\n",
      "                    if token.tag in self.token_map:\n                        if len(self.token_map[token.tag]) == token.value:\n"
      "                            await self._gather(token.tag)\n                            keys_completed.add(token.tag)\n", "R4"),
    V("run: size arrival counts with .get(key, []) (no entry is created for an empty list)", SFILE, _R,
      "len(self.token_map.setdefault(token.tag, [])) == token.value", "len(self.token_map.get(token.tag, [])) == token.value", "R4"),
    V("run: size arrival registers the key only behind a short-circuit", SFILE, _R,
      "if len(self.token_map.setdefault(token.tag, [])) == token.value:",
      "if token.value > 0 and len(self.token_map.setdefault(token.tag, [])) == token.value:", "R4"),
    V("run: size arrival registers another key (the task name) before the guarded count test", SFILE, _R,
      "if len(self.token_map.setdefault(token.tag, [])) == token.value:",
      "self.token_map.setdefault(task_name, [])\n                    if token.tag in self.token_map and len(self.token_map[token.tag]) == token.value:", "R4"),
    # ---- R5
    V("run: size/element reader re-armed under the element port's consumer id (round-2 seeded change)", SFILE, _R,
      "port.get(posixpath.join(self.name, task_name)), name=task_name", "port.get(posixpath.join(self.name, port_name)), name=task_name", "R5", control=True),
    V("run: re-armed reader uses the bare task name as consumer id", SFILE, _R,
      "port.get(posixpath.join(self.name, task_name)), name=task_name", "port.get(task_name), name=task_name", "R5"),
    V("run: re-armed reader's consumer id hidden behind a local built from the wrong name", SFILE, _R,
      "                unfinished.add(asyncio.create_task(port.get(posixpath.join(self.name, task_name)), name=task_name))",
      "                consumer = f'{self.name}/{port_name}'\n                unfinished.add(asyncio.create_task(port.get(consumer), name=task_name))", "R5"),
    V("CombinatorStep.run: re-armed reader uses a per-token consumer id", SFILE, _CR,
      "self.get_input_ports()[task_name].get(posixpath.join(self.name, task_name)), name=task_name",
      "self.get_input_ports()[task_name].get(posixpath.join(self.name, task_name, token.tag)), name=task_name", "R5"),
    V("LoopCombinatorStep.run: re-armed reader uses the last output port's name as consumer id", SFILE, _LCR,
      "self.get_input_ports()[task_name].get(posixpath.join(self.name, task_name)), name=task_name",
      "self.get_input_ports()[task_name].get(posixpath.join(self.name, port_name)), name=task_name", "R5"),
    V("ScatterStep.run: a new consumer id at every iteration", SFILE, _SR,
      "    while True:\n        token = await input_port.get(posixpath.join(self.name, next(iter(self.input_ports))))",
      "    n_read = 0\n    while True:\n        n_read += 1\n        token = await input_port.get(posixpath.join(self.name, str(n_read)))", "R5"),
    # ---- benign
    V("benign: run builds the re-arm consumer id in a local with an f-string, names the task from the task itself", SFILE, _R,
      "                unfinished.add(asyncio.create_task(port.get(posixpath.join(self.name, task_name)), name=task_name))",
      "                consumer = f'{self.name}/{task_name}'\n                reader = port.get(consumer)\n                unfinished.add(asyncio.create_task(reader, name=task.get_name()))", None),
    V("benign: run arms the ports through a shared consumer prefix", SFILE, _R,
      "    tasks = {asyncio.create_task(size_port.get(posixpath.join(self.name, '__size__')), name='__size__'), asyncio.create_task(input_port.get(posixpath.join(self.name, port_name)), name=port_name)}",
      "    size_name = '__size__'\n    size_task = asyncio.create_task(size_port.get(posixpath.join(self.name, size_name)), name=size_name)\n    input_consumer = posixpath.join(self.name, port_name)\n    tasks = {size_task, asyncio.create_task(input_port.get(input_consumer), name=port_name)}", None),
    V("benign: CombinatorStep.run arms the ports in a comprehension, re-arms through a local port", SFILE, _CR,
      "                    input_tasks.append(asyncio.create_task(self.get_input_ports()[task_name].get(posixpath.join(self.name, task_name)), name=task_name))",
      "                    consumed = self.get_input_ports()[task_name]\n                    input_tasks.append(asyncio.create_task(consumed.get(posixpath.join(self.name, task_name)), name=task_name))", None),
    V("benign: ScatterStep.run computes the consumer id in a local inside the loop", SFILE, _SR,
      "        token = await input_port.get(posixpath.join(self.name, next(iter(self.input_ports))))",
      "        port_name = next(iter(self.input_ports))\n        consumer = posixpath.join(self.name, port_name)\n        token = await input_port.get(consumer)", None),
    V("benign: _scatter emits the size token first, then returns early on an empty list", SFILE, _S,
      "        output_port = self.get_output_port()\n        for i, t in enumerate(token.value):\n            output_port.put(" + _ELEM_PUT + ")\n        size_port = self.get_size_port()\n        size_port.put(" + _SIZE_PUT + ")",
      "        size_port = self.get_size_port()\n        size_port.put(" + _SIZE_PUT + ")\n        if len(token.value) == 0:\n            return\n        output_port = self.get_output_port()\n        for i, t in enumerate(token.value):\n            output_port.put(" + _ELEM_PUT + ")", None),
    V("benign: _scatter with an inverted guard clause (raise first, body unindented)", SFILE, _S,
      "    if isinstance(token, ListToken):\n        output_port = self.get_output_port()\n        for i, t in enumerate(token.value):\n            output_port.put(" + _ELEM_PUT + ")\n        size_port = self.get_size_port()\n        size_port.put(" + _SIZE_PUT + ")\n    else:\n        raise WorkflowDefinitionException('Scatter ports require iterable inputs')",
      "    if not isinstance(token, ListToken):\n        raise WorkflowDefinitionException('Scatter ports require iterable inputs')\n    output_port = self.get_output_port()\n    n_items = len(token.value)\n    if n_items == 0:\n        logger.debug('empty list')\n    for i, t in enumerate(token.value):\n        output_port.put(" + _ELEM_PUT + ")\n    size_port = self.get_size_port()\n    size_port.put(" + _SIZE_PUT.replace("Token(len(token.value),", "Token(n_items,") + ")\n    return None", None),
    V("benign: ScatterStep.run without else, logging, walrus-free temporaries", SFILE, _SR,
      "        if isinstance(token, TerminationToken):\n            status = token.value\n            break\n        else:\n            await self._scatter(token)",
      "        if isinstance(token, TerminationToken):\n            status = token.value\n            break\n        if isinstance(token, ListToken) and (not token.value):\n            logger.debug('empty list')\n        pending = self._scatter(token)\n        await pending", None),
    V("benign: rename lambda params", SFILE, _G, "lambda x, y: compare_tags(x.tag, y.tag)", "lambda a, b: compare_tags(a.tag, b.tag)", None),
    V("benign: hoist sorted(...) into a local", SFILE, _G,
      "    output_port = self.get_output_port()\n    output_port.put(await self._persist_token(token=ListToken(tag=key, value=sorted(self.token_map[key], key=cmp_to_key(lambda x, y: compare_tags(x.tag, y.tag)))),",
      "    output_port = self.get_output_port()\n    elements = self.token_map[key]\n    ordered = sorted(elements, key=cmp_to_key(lambda x, y: compare_tags(x.tag, y.tag)))\n    output_port.put(await self._persist_token(token=ListToken(tag=key, value=ordered),", None),
    V("benign: module-level comparator calling compare_tags", SFILE, _G, "key=cmp_to_key(lambda x, y: compare_tags(x.tag, y.tag))", "key=cmp_to_key(_cmp_tokens_by_tag)", None,
      append="def _cmp_tokens_by_tag(a, b):\n    return compare_tags(a.tag, b.tag)\n"),
    V("benign: compare_tags without walrus, renamed locals, temporaries", UFILE, CT,
      "    list1 = tag1.split('.')\n    list2 = tag2.split('.')\n    if (res := (len(list1) - len(list2))) != 0:\n        return res\n    for elem1, elem2 in zip(list1, list2, strict=True):\n        if (res := (int(elem1) - int(elem2))) != 0:\n            return res\n    return 0",
      "    parts_a = tag1.split('.')\n    parts_b = tag2.split('.')\n    n_a = len(parts_a)\n    n_b = len(parts_b)\n    delta = n_a - n_b\n    if delta:\n        return delta\n    for i in range(n_a):\n        a = int(parts_a[i])\n        b = int(parts_b[i])\n        d = a - b\n        if d != 0:\n            return d\n    return 0", None),
    V("benign: compare_tags logs and short-cuts equal tags", UFILE, CT, "    list1 = tag1.split('.')",
      "    if tag1 == tag2:\n        return 0\n    list1 = tag1.split('.')", None),
    V("benign: _scatter f-string tag and temporaries", SFILE, _S,
      "output_port.put(await self._persist_token(token=t.retag(token.tag + '.' + str(i)), port=output_port, input_token_ids=get_entity_ids([token])))",
      "new_tag = f'{token.tag}.{i}'\n            element = t.retag(new_tag)\n            logger.debug(new_tag)\n            persisted = await self._persist_token(token=element, port=output_port, input_token_ids=get_entity_ids([token]))\n            output_port.put(persisted)", None),
    V("benign: run renames locals", SFILE, _R, "keys_completed", "done", None, count=4),
    V("benign: run reads the stored size with .get and an and-guard", SFILE, _R,
      "                    size_value = self.size_map[key].value if key in self.size_map else None\n                    if len(self.token_map.setdefault(key, [])) == size_value:",
      "                    size_token = self.size_map.get(key)\n                    if size_token is not None and len(self.token_map[key]) == size_token.value:", None),
    V("benign: forced gather filters in the loop body", SFILE, _R,
      "        for key in (k for k in self.token_map.keys() if k not in keys_completed):\n",
      "        for key in list(self.token_map):\n            if key in keys_completed:\n                continue\n", None),
    V("benign: run with the arrival arms swapped under `if not task_name == '__size__'` (ifswap)", SFILE, _R, _ARMS,
      "                if not task_name == '__size__':\n" + _IN_ARM + "                else:\n" + _SZ_ARM, None),
    V("benign: run with the arrival arms swapped under `!=`, constant on the left", SFILE, _R, _ARMS,
      "                if '__size__' != task_name:\n" + _IN_ARM + "                else:\n" + _SZ_ARM, None),
    V("benign: run decides the arrival through a local boolean", SFILE, _R, "                if task_name == '__size__':",
      "                from_size = '__size__' == task_name\n                if from_size:", None),
    V("benign: run defaults the port to the element port before the branch", SFILE, _R, _ARMS,
      "                port = input_port\n                if task_name == '__size__':\n" + _SZ_ARM + "                else:\n" + _IN_ARM.replace("                    port = input_port\n", ""), None),
    V("benign: run as a guard clause, each arm re-arms its own port and the size arm continues", SFILE, _R, _ARMS + _REARM,
      "                if task_name == '__size__':\n" + _SZ_ARM + "    " + _REARM + "\n                    continue\n" + _dedent4(_IN_ARM) + _REARM, None),
    V("benign: run guards the forced gather with `not status == FAILED`", SFILE, _R, "if status != Status.FAILED:", "if not status == Status.FAILED:", None),
    V("benign: run returns early on FAILED before the forced gather", SFILE, _R,
      "    if status != Status.FAILED:\n        for key in (k for k in self.token_map.keys() if k not in keys_completed):",
      "    if status == Status.FAILED:\n        await self.terminate(self._get_status(status))\n        return\n    if True:\n        for key in (k for k in self.token_map.keys() if k not in keys_completed):", None),
    V("benign: forced gather filters in the loop body with a double negation", SFILE, _R,
      "        for key in (k for k in self.token_map.keys() if k not in keys_completed):\n",
      "        for key in list(self.token_map):\n            if not key not in keys_completed:\n                continue\n", None),
    V("benign: run re-arms through the name-keyed accessor", SFILE, _R, "port.get(posixpath.join(self.name, task_name))", "self.get_input_port(task_name).get(posixpath.join(self.name, task_name))", None),
    V("benign: run looks the re-armed port up in a table keyed by the task name (B12-3)", SFILE, _R, _HEAD + _ARMS + _REARM,
      _table_variant("{'__size__': size_port, port_name: input_port}"), None),
    V("benign: run builds the port table in the loop from the accessors, entries in the other order, .get lookup", SFILE, _R, _REARM,
      "                ports_by_task = {self._get_input_port_name(): self.get_input_port(), '__size__': self.get_size_port()}\n"
      + _REARM.replace("port.get(", "ports_by_task.get(task.get_name()).get("), None),
    V("benign: size arrival inserts the key explicitly when it is missing, then reads it", SFILE, _R,
      "                    if len(self.token_map.setdefault(token.tag, [])) == token.value:",
      "                    if token.tag not in self.token_map:\n                        self.token_map[token.tag] = []\n"
      "                    if len(self.token_map[token.tag]) == token.value:", None),
    V("benign: size arrival registers the key in a statement of its own (alias of the map), membership spelled with .keys()", SFILE, _R,
      "                    if len(self.token_map.setdefault(token.tag, [])) == token.value:",
      "                    gathered = self.token_map\n                    size_tag = token.tag\n                    if not size_tag in gathered.keys():\n"
      "                        gathered.setdefault(size_tag, [])\n                    else:\n                        logger.debug('elements first')\n"
      "                    if len(self.token_map[token.tag]) == token.value:", None),
    V("benign: size arrival registers the key through an extracted helper", SFILE, _R,
      "                    if len(self.token_map.setdefault(token.tag, [])) == token.value:",
      "                    _c01_register(self, token.tag)\n                    if len(self.token_map[token.tag]) == token.value:", None,
      append="def _c01_register(step, tag):\n    if tag in step.token_map:\n        return\n    step.token_map[tag] = []\n"),
    V("benign: run logging and reordered independent statements", SFILE, _R,
      "                    self.size_map[token.tag] = token\n                    port = size_port",
      "                    port = size_port\n                    logger.debug('size')\n                    self.size_map[token.tag] = token", None),
]
