"""C04 Every well-formed workflow terminates, and failures terminate every step.

Clauses decided (necessary conditions visible in the code's shape):
R1 `BaseStep.terminate` is idempotent (all effects on the `not self.terminated` branch, the flag is set
   before the first suspension point), puts `TerminationToken(status)` on *every* output port
   (unconditional loop over the whole `get_output_ports()` map) and records the status
   (`await self._set_status(status)`) on every path.  The in-memory status is never stale while the termination tokens
   are visible: from a TerminationToken put reached before `self.status` was written no suspension point is reachable
   before that write (a plain `self.status = status`, or an awaited self/super call -- followed through the resolved
   call, bound 2 -- to methods that write first), and every `_set_status` of the Step class table assigns
   `self.status = <its parameter>` on every path before its first suspension point (otherwise executor.run's final
   FAILED/CANCELLED check, which runs as soon as the output ports delivered their tokens, misses a failed step).
R2 every concrete `run()` of the Step class table: every path that reaches the normal exit -- also through
   an exception handler -- passes `await self.terminate(...)` (directly, through `super().run()` or a
   helper method, inlining bound 3); the terminate call is reachable at all; handlers for
   `CancelledError` / `Exception` in `run()` reach terminate(CANCELLED) / terminate(FAILED) and cannot
   finish without it.
R3 loop exits in `run()` (and in the methods run() awaits through `self.m(...)`, resolved call, bound 2: a loop moved
   wholesale into a cooperating method is still a loop of run(); the finding names the method): every `while True` has an exit (`break`/`return`) that is reached from the
   termination branch of a termination-token test in the same iteration; every task-set loop
   (`while <tasks>` around `asyncio.wait`) has a termination-token test, re-arms the consumed port, and a
   re-arm (new `port.get`/`_get_inputs` task, also one level inside a helper) reachable from the termination
   branch is guarded by a test on a name written in that branch; a flag loop (`while not done`) must leave or
   write what its test reads on the termination branch; a helper awaited in a task loop that both observes the
   end of a stream (termination-token test, or `is None` on the result of a read written like `JobPort.get_job`,
   i.e. one that returns `None` on its termination branch -- found through the class table, not by name) and
   re-arms a port read must not reach the re-arm from the end-of-stream branch without a guard written there.
R4 executor: every step runs as a task wrapped by `_handle_exception`; its generic handler awaits
   `close()`; `close()` (when still open, P10 over `_closed`/`_closing`) terminates every step that is
   `not step.terminated` (whole `workflow.steps`), awaits the terminations and then sets `_closed`;
   `closed()` reports that flag; `run()` waits for the step tasks (gather) or for the closed state, then
   checks *every* step for FAILED/CANCELLED (P10) and raises on every path of that edge before any normal return (a loop
   over the whole step map with a test, or the same decision as `any(<test> for step in <all steps>)` / `not all(...)` /
   a non-empty `[step ... if <test>]`, also held in a local as long as no suspension point separates the evaluation from
   the test; or either form in a method run() calls -- resolved `self.m()`, bound 1 -- that cannot finish normally
   without passing it), its catch-all handler
   closes and re-raises; `_wait_outputs` cancels the pending output tasks (the `asyncio.wait` remainder) on a
   FAILED/CANCELLED termination token and closes when the last output port terminated; `_cancel` cancels
   every given task and marks the executor closed.  Spelling-agnostic: the Status tests (here and in R5) are decomposed into
   branch atoms (sfverif.facts) and the edge taken *exactly* for FAILED/CANCELLED is looked up on either side (swapped
   branches under `not` / `not in`, guard clauses, `and`-joined with the termination test); any further conjunct on that
   edge, or no such edge, is a violation.  `closed()` may return the flag through temporaries (reaching definitions, bound
   3) as long as no suspension point lies between the copy and the return and every path returns.  An operand of a Status
   test or of the `len(self.received) == len(self.workflow.output_ports)` test (here and in R5) may be held in a plain
   temporary (`_n = len(self.received)` / `if _n == ...`): the test is read through the local's single reaching definition
   (a plain assignment evaluated on every path to the test, bound 3) provided nothing between the assignment and the test
   can change what the expression reads (only `pass` / logging / await-free statements calling pure builtins and storing
   into nothing it mentions); a temporary taken before `self.received.append` / `statuses.append` is a different test.
R5 `ExecuteStep.run` (its task loop, in run() itself or moved wholesale into a method run() awaits -- followed through
   the resolved `self.m(...)` call, bound 2; the recorded list is then the one the method returns into the list run()
   hands to `_reduce_statuses`): both places that record a status (termination branch, job-result branch) cancel
   *all* unfinished tasks when that status is FAILED or CANCELLED (P10 + P11); `ExecuteStep._run_job`
   returns its status variable and every exception handler leaves FAILED/CANCELLED in it (reaching
   definitions over the CFG), so a failed job is never reported as a success.
R6 status algebra: `_reduce_statuses` interpreted over all status lists up to length 3 (bounded abstract
   interpretation of its AST over the members it names plus one representative of the others; nothing is
   executed): FAILED/CANCELLED dominate, all-SKIPPED => SKIPPED, otherwise RECOVERED wins over COMPLETED;
   a FAILED that precedes every CANCELLED of the list is the result (the cancellations `ExecuteStep.run` records
   after a job failed for good are *consequences* of that failure: if they hid it, `_get_status` would turn the
   CANCELLED into SKIPPED on an empty output port and no step would end FAILED); `BaseStep._get_status` preserves
   FAILED.  Not decided: the stronger "any list containing FAILED reduces to FAILED" -- today's scan returns the
   *first* failing member, so [CANCELLED, FAILED] reduces to CANCELLED on the unchanged tree (recorded as an
   observation, not armed).

All rules of DESIGN section 3 (C04.R1-R6) are implemented.  Limits, on purpose: R3 demands *one*
termination-controlled exit per `while True` (LoopOutputStep has two cooperating exits whose second guard,
`all(self.termination_map)`, is the reviewed dead decision of DESIGN section 7 -- which of the two is taken
cannot be decided structurally); the executor's catch-all handler may be `except Exception` or
`except BaseException` (cancellation of the executor itself is not a step failure).

Not decided: `all(self.termination_map)` -> `all(self.termination_map.values())` in LoopOutputStep.run (seeded change
C04/1).  Both forms keep the same CFG: a `break` guarded by a data-dependent test below the termination branch.  That
the original test is always true after a termination token follows from the *values* involved (non-empty string keys
of a non-empty dict), not from the shape of the code; a rule "no path from the termination branch back to the port
read" fires on the unchanged tree as well (the reviewed non-finding of DESIGN section 7), and telling `all(m)` from
`all(m.values())` apart would be a frozen-text match.
Re-examined (round 2) with the candidate "on the FAILED/CANCELLED termination branch no path returns to the port read":
on the unchanged tree the termination branch's `else:` arm (token_map not empty) falls through to
`if self.termination_map and all(self.termination_map): break`, whose false edge leads back to `input_port.get` -- the
clause does not hold structurally today.  Folding the test needs (1) path-sensitivity (`token_map` non-empty on that arm,
so the comprehension over it is non-empty) and (2) the truthiness of the keys, i.e. of the tag prefixes: `''` (the prefix
of a top-level tag such as the termination token's own `'0'`) is falsy, so "keys are truthy" is a fact about the tags the
translator generates, not about this function.  A three-valued evaluation gives *unknown* for both `all(m)` and
`all(m.values())`; no sound structural rule separates them.  Kept undecided.
"""

from __future__ import annotations

import ast
import itertools

from ..cfg import ALL, NORMAL
from ..dataflow import _def_node_ids, defs_of, origins, reaching_defs
from ..facts import atoms, facts_at
from ..model import contains_await, dotted, parent, ancestors, unparse, walk_no_nested
from ..selftest import V
from ._util_B import (
    CHECK_TERMINATION,
    TERMINATION_TOKEN,
    any_origin,
    arg_of,
    branch_succ,
    calls_in,
    exclusive_region,
    fold_status_guard,
    has_termination_test,
    is_len_of,
    is_name,
    is_param,
    is_self_attr,
    iter_base,
    loop_body_nodes,
    loop_unconditional,
    loop_value_names,
    map_view,
    method_call,
    node_calls,
    orig,
    self_call,
    status_const,
    status_members,
    strip_cast,
    super_call,
    termination_subject,
    truth_if,
    whole,
)

STEP = "streamflow.core.workflow.Step"
BASE = "streamflow.workflow.step.BaseStep"
EXEC = "streamflow.workflow.executor.StreamFlowExecutor"
XSTEP = "streamflow.workflow.step.ExecuteStep"
REDUCE = "streamflow.workflow.step._reduce_statuses"
SFILE = "streamflow/workflow/step.py"
EFILE = "streamflow/workflow/executor.py"
CFILE = "streamflow/core/workflow.py"
TFILE = "streamflow/workflow/transformer.py"
FAILING = {"FAILED", "CANCELLED"}

META = {
    "explanation": (
        "CFG must-pass-through of `await self.terminate(...)` on every normally-exiting path of every concrete "
        "Step.run (exception edges into handlers included; helpers and super().run() followed to depth 3), handler "
        "status agreement, loop-exit control by termination tests, idempotence/coverage of BaseStep.terminate, executor "
        "wrapping/close/raise rules with P10 folding of Status guards, sibling agreement of the two cancel sites of "
        "ExecuteStep.run, and a bounded abstract interpretation of _reduce_statuses over all status lists of length <= 3."
    ),
    "undecided": (
        "absence of deadlock for arbitrary dataflow graphs (a run-time object), liveness of user commands, "
        "termination of helper coroutines awaited inside the loops"
    ),
    "assumptions": [
        "a step's run() that raises is handled by StreamFlowExecutor._handle_exception (checked by R4)",
        "Status is the IntEnum read from streamflow.core.workflow",
    ],
}


# --------------------------------------------------------------------------- shared


def _awaited(call: ast.AST) -> bool:
    return isinstance(parent(call), ast.Await)


def _step_runs(ctx):
    fs = [f for f in ctx.prog.overrides(STEP, "run") if not f.is_abstract]
    ctx.require(len(fs) >= 12, f"C04: only {len(fs)} concrete run() methods found in the Step class table")
    return fs


def _terminate_calls(f):
    """(call, cfg node id) of every `await self.terminate(<status>)` (memoised on the Func)"""
    cached = f.__dict__.get("_c04_terminate_calls")
    if cached is not None:
        return cached
    g = f.cfg
    out = []
    for n in g.nodes.values():
        for c in node_calls(g, n):
            if self_call(c, "terminate") and _awaited(c):
                out.append((c, n.id))
    f.__dict__["_c04_terminate_calls"] = out
    return out


def _term_nodes(p, f, depth: int = 3, stack: tuple = ()) -> set[int]:
    """CFG nodes of f after which the step certainly went through terminate()."""
    g = f.cfg
    out = {nid for _, nid in _terminate_calls(f)}
    if depth <= 0:
        return out
    for n in g.nodes.values():
        if n.id in out:
            continue
        for c in node_calls(g, n):
            if not _awaited(c) or not (self_call(c) or super_call(c)):
                continue
            if self_call(c, "terminate"):
                continue
            qs = p.resolve_call(f, c, fanout=True)
            callees = [p.functions[q] for q in qs if q in p.functions]
            if not callees or len(callees) != len(qs):
                continue
            if all(
                (not cal.is_abstract) and cal.qualname not in stack and _always_terminates(p, cal, depth - 1, stack + (f.qualname,))[0]
                for cal in callees
            ):
                out.add(n.id)
    return out


def _always_terminates(p, f, depth: int = 3, stack: tuple = ()):
    cache = p.__dict__.setdefault("_c04_always_terminates", {})  # per Program object (variants get their own)
    key = (f.qualname, depth)
    if key in cache and not stack:
        return cache[key]
    g = f.cfg
    T = _term_nodes(p, f, depth, stack)
    w = g.escape(g.entry, T, targets=[g.exit], kinds=ALL)
    reachable = bool(T & g.reach([g.entry], kinds=ALL))
    res = (w is None and reachable, w, T)
    if not stack:
        cache[key] = res
    return res


def _handler_kinds(h: ast.ExceptHandler) -> set[str]:
    if h.type is None:
        return {"BaseException"}
    ts = h.type.elts if isinstance(h.type, ast.Tuple) else [h.type]
    return {(dotted(t) or unparse(t)).split(".")[-1] for t in ts}


# --------------------------------------------------------------------------- R1


def r1(ctx):
    p = ctx.prog
    f = p.func(f"{BASE}.terminate")
    ctx.require(f.cls is not None and f.cls.qualname == BASE, "C04.R1: BaseStep.terminate vanished")
    impls = [x for x in p.overrides(STEP, "terminate") if not x.is_abstract]
    for o in impls:
        if o.qualname != f.qualname:
            sup = [n.id for n in o.cfg.nodes.values() if any(super_call(c, "terminate") and _awaited(c) for c in n.calls())]
            ctx.ob("R1", f"{o.cls.name}.terminate goes through BaseStep.terminate on every path", bool(sup) and o.cfg.escape(o.cfg.entry, sup) is None,
                   func=o, node=o.node, instance=f"{o.cls.name}.terminate:override",
                   message=f"{o.qualname} overrides terminate without always delegating to BaseStep.terminate")
    ps = [x for x in f.params if x != "self"]
    ctx.require(len(ps) == 1 and is_param(f, ast.Name(id=ps[0], ctx=ast.Load())), "C04.R1: terminate(status) signature changed / status rebound")
    st = ps[0]
    g = f.cfg

    def is_flag(e):
        return is_self_attr(e, "terminated")

    sets = [n.id for n in g.nodes.values() if n.kind == "stmt" and isinstance(n.ast, ast.Assign) and any(is_flag(t) for t in n.ast.targets)
            and isinstance(n.ast.value, ast.Constant) and n.ast.value.value is True]
    tests = [n for n in g.nodes.values() if n.kind == "test" and any(is_flag(x) for x in ast.walk(n.ast))
             and truth_if(n.ast, is_flag, True) is not None]

    def is_term_token(e):
        return any_origin(f, e, lambda o: isinstance(o, ast.Call) and p.resolve_call(f, o, fanout=False) == [TERMINATION_TOKEN]
                          and len(o.args) == 1 and is_param(f, o.args[0], st))

    loops = [n for n in f.body_nodes() if isinstance(n, ast.For)]
    out_loop, puts = None, []
    for lp in loops:
        names = loop_value_names(f, lp.target, lp.iter, lambda e: self_call(e, "get_output_ports") and not e.args and not e.keywords)
        if names is None or not names[0]:
            continue
        vals = names[0]
        out_loop = lp
        puts = [n.id for n in g.nodes.values() if any(
            method_call(c, "put") and isinstance(c.func.value, ast.Name) and c.func.value.id in vals and len(c.args) == 1 and is_term_token(c.args[0])
            for c in n.calls())]
    status_nodes = [n.id for n in g.nodes.values() if any(
        self_call(c, "_set_status") and _awaited(c) and len(c.args) == 1 and _is_status_value(f, c.args[0], st) for c in n.calls())]
    effects = list(sets) + puts + status_nodes + [n.id for n in g.nodes.values() if any(method_call(c, "put") for c in n.calls())]
    # (a) idempotence: every effect lies on the branch where the flag was False
    ok, why = bool(tests) and bool(sets), "no test of self.terminated / flag never set"
    if ok:
        why = ""
        for t in tests:
            done_kind = "t" if truth_if(t.ast, is_flag, True) else "f"
            region = g.reach(branch_succ(g, t.id, done_kind), avoid=[t.id], include_src=True)
            hit = [e for e in effects if e in region]
            if hit:
                ok, why = False, f"`{g.nodes[hit[0]].text(60)}` also runs when the step is already terminated"
        if ok and not all(g.dominates([t.id for t in tests], e) for e in effects):
            ok, why = False, "an effect is reachable without testing self.terminated"
    ctx.ob("R1", "terminate is idempotent: effects only on the not-yet-terminated branch", ok, func=f, node=f.node, instance="terminate:guard",
           message=f"BaseStep.terminate is not idempotent: {why}")
    # (b) flag set before the first suspension point
    susp = g.suspension_nodes()
    late = [s for s in susp if not g.dominates(sets, s)] if sets else list(susp)
    ctx.ob("R1", "self.terminated is set before the first suspension point", bool(sets) and not late, func=f, node=f.node,
           instance="terminate:flag-before-await",
           message="terminate can suspend before `self.terminated = True`: a concurrent close()/terminate() runs the body twice"
           + (f" (`{g.nodes[late[0]].text(60)}`)" if late else ""))
    # (c) every output port
    if out_loop is None:
        ctx.ob("R1", "terminate puts a TerminationToken(status) on every output port", False, func=f, node=f.node, instance="terminate:all-ports",
               message="terminate has no loop over the whole get_output_ports() map")
    else:
        heads = g.ids_of(out_loop)
        w = None
        for s in sets:
            w = w or g.escape(s, heads)
        ok = bool(heads) and bool(sets) and w is None and bool(puts)
        why = "a path from the flag assignment to the exit skips the loop" if w else ("no `port.put(TerminationToken(status))` in the loop" if not puts else "")
        if ok:
            head = heads[0]
            for s in branch_succ(g, head, "t"):
                if s not in puts and g.path(s, [head], avoid=puts) is not None:
                    ok, why = False, "an output port can be skipped"
                if g.path(s, [g.exit], avoid=[head]) is not None:
                    ok, why = False, "the loop can be left before all ports are served"
        ctx.ob("R1", "terminate puts a TerminationToken(status) on every output port", ok, func=f, node=out_loop, instance="terminate:all-ports",
               message=f"terminate does not put TerminationToken(status) on every output port: {why}")
    # (d) status recorded
    w = None
    for s in sets:
        w = w or g.escape(s, status_nodes)
    ctx.ob("R1", "terminate records the status (`await self._set_status(status)`) on every path", bool(status_nodes) and bool(sets) and w is None,
           func=f, node=f.node, instance="terminate:set-status",
           message="terminate does not always record the termination status: the executor's FAILED/CANCELLED check cannot see it")
    # (e) the in-memory status is not stale while the termination tokens are already visible: from a TerminationToken put that
    # is reached before `self.status` was written, no suspension point may be reached before the write (a call that writes
    # first -- `_set_status`, followed through the resolved call -- counts as the write)
    term_puts = [n.id for n in g.nodes.values() if any(
        method_call(c, "put") and len(c.args) == 1 and is_term_token(c.args[0]) for c in node_calls(g, n))]
    W = _status_write_nodes(p, f, st)
    before_write = g.reach([g.entry], avoid=W, include_src=True)
    ok, why, wit = True, "", []
    for x in sorted(term_puts):
        if x not in before_write or not ok:
            continue
        for s in sorted(g.reach([x], avoid=W) & susp):
            path = g.path(x, [s], avoid=W)
            ok = False
            why = f"`{g.nodes[s].text(70)}` can suspend after `{g.nodes[x].text(50)}` while self.status still holds the old value"
            for h, hp in _status_callees(p, f, g.nodes[s], st):
                hw = _writes_status_first(p, h, hp)
                if not hw[0]:
                    why += f" ({h.qualname}: {hw[1]})"
            wit = g.describe(path) if path else []
            break
    ctx.ob("R1", "terminate: no suspension point between the TerminationToken puts and the write of self.status", ok, func=f, node=f.node,
           instance="terminate:status-before-suspension",
           message=f"BaseStep.terminate: {why}: the executor's final FAILED/CANCELLED check (run after the output ports delivered their "
                   "termination tokens) can miss a failed step", witness=wit)
    # (f) every `_set_status` of the Step class table assigns `self.status` before it can suspend
    setters = [x for x in p.overrides(STEP, "_set_status") if not x.is_abstract]
    ctx.require(bool(setters), "C04.R1: Step._set_status vanished")
    for h in setters:
        hps = [x for x in h.params if x != "self"]
        ctx.require(len(hps) >= 1, f"C04.R1: {h.qualname} takes no status")
        hok, hwhy, hwit = _writes_status_first(p, h, hps[0])
        ctx.ob("R1", f"{h.cls.name}._set_status assigns self.status on every path before its first suspension point", hok, func=h, node=h.node,
               instance=f"{h.cls.name}._set_status:write-first",
               message=f"{h.qualname}: {hwhy}: after terminate() put the termination tokens the in-memory status is stale for a database "
                       "round trip, and StreamFlowExecutor.run's FAILED/CANCELLED check can pass although the step failed", witness=hwit)


def _status_callees(p, f, node, st):
    """(callee, callee parameter) for every awaited `self.m(..)` / `super().m(..)` of the CFG node that passes the
    never-rebound parameter `st` of `f` (also through a local alias) to a resolved, concrete method."""
    out = []
    for c in node_calls(f.cfg, node):
        if not _awaited(c) or not (self_call(c) or super_call(c)):
            continue
        qs = p.resolve_call(f, c, fanout=True)
        callees = [p.functions[q] for q in qs if q in p.functions]
        if not callees or len(callees) != len(qs) or any(h.is_abstract for h in callees):
            continue
        for h in callees:
            hps = [x for x in h.params if x != "self"]
            for i, a in enumerate(c.args):
                if i < len(hps) and not isinstance(a, ast.Starred) and _is_status_value(f, a, st):
                    out.append((h, hps[i]))
            for k in c.keywords:
                if k.arg in hps and _is_status_value(f, k.value, st):
                    out.append((h, k.arg))
    return out


def _is_status_value(f, e, st) -> bool:
    if is_param(f, e, st):
        return True
    os_ = orig(f, e) if isinstance(e, ast.Name) else []
    return bool(os_) and all(is_param(f, o, st) for o in os_)


def _status_write_nodes(p, f, st, depth: int = 2, stack: tuple = ()) -> set[int]:
    """CFG nodes of `f` that make `self.status` the value of parameter `st` before they can suspend: a plain
    `self.status = st` and an awaited self/super call handing `st` to methods that all write first themselves."""
    g = f.cfg
    out = set()
    for n in g.nodes.values():
        a = n.ast
        if n.kind == "stmt" and isinstance(a, (ast.Assign, ast.AnnAssign)) and a.value is not None and not n.has_await():
            tgts = a.targets if isinstance(a, ast.Assign) else [a.target]
            if any(is_self_attr(t, "status") for t in tgts) and _is_status_value(f, a.value, st):
                out.add(n.id)
                continue
        if depth <= 0 or n.kind not in ("stmt", "return") or sum(isinstance(x, ast.Await) for x in n.walk()) != 1:
            continue
        cs = _status_callees(p, f, n, st)
        if cs and all(h.qualname not in stack and _writes_status_first(p, h, hp, depth - 1, stack + (f.qualname,))[0] for h, hp in cs):
            out.add(n.id)
    return out


def _writes_status_first(p, h, param, depth: int = 1, stack: tuple = ()):
    """(ok, why, witness): `h` assigns `self.status = <param>` on every normally finishing path and cannot suspend before it."""
    cache = p.__dict__.setdefault("_c04_status_first", {})
    key = (h.qualname, param, depth)
    if key in cache and not stack:
        return cache[key]
    g = h.cfg
    W = _status_write_nodes(p, h, param, depth, stack)
    res = (True, "", [])
    if not W:
        res = (False, f"never assigns `self.status = {param}`", [])
    else:
        live = g.reach([g.entry], include_src=True)
        early = sorted(s for s in g.suspension_nodes() if s in live and s not in W and not g.dominates(W, s))
        if early:
            path = g.path(g.entry, [early[0]], avoid=W)
            wn = g.nodes[min(W)]
            res = (False, f"`{g.nodes[early[0]].text(70)}` can suspend before `{wn.text(50)}`", g.describe(path) if path else [])
        else:
            esc = g.escape(g.entry, W, targets=[g.exit])
            if esc is not None:
                res = (False, "a path finishes without assigning self.status", g.describe(esc))
    if not stack:
        cache[key] = res
    return res


# --------------------------------------------------------------------------- R2


def r2(ctx):
    p = ctx.prog
    members = set(status_members(p))
    for f in _step_runs(ctx):
        g = f.cfg
        ok, w, T = _always_terminates(p, f)
        reachable = bool(T & g.reach([g.entry], kinds=ALL))
        msg = ""
        if not T:
            msg = "run() never awaits self.terminate(...)"
        elif not reachable:
            msg = "the terminate call is unreachable (a loop before it has no exit)"
        elif w is not None:
            msg = "a path reaches the normal exit of run() without terminate()"
        ctx.ob("R2", f"{f.cls.name}.run: every normally-exiting path awaits terminate()", ok, func=f, node=f.node,
               instance=f"{f.cls.name}.run:terminate", message=f"{f.qualname}: {msg}: downstream steps wait forever for a termination token",
               witness=g.describe(w) if w else [])
        # handlers
        for tr in [n for n in f.body_nodes() if isinstance(n, ast.Try)]:
            for h in tr.handlers:
                kinds = _handler_kinds(h)
                want = None
                if "CancelledError" in kinds:
                    want = "CANCELLED"
                elif kinds & {"Exception", "BaseException"}:
                    want = "FAILED"
                if want is None:
                    continue
                hn = g.ids_of(h)
                ctx.require(bool(hn), f"C04.R2: handler of {f.qualname} has no CFG node")
                good = {nid for c, nid in _terminate_calls(f) if c.args and status_const(p, f, c.args[0]) == want}
                bad = None
                for x in hn:
                    bad = bad or g.escape(x, good, targets=[g.exit], kinds=ALL)
                    if bad is None and not (good & g.reach([x], kinds=ALL)):
                        bad = [x]  # the handler leaves by raising: nothing terminates the step on this route
                ctx.ob("R2", f"{f.cls.name}.run: `except {', '.join(sorted(kinds))}` terminates the step as {want}", bad is None, func=f, node=h,
                       instance=f"{f.cls.name}.run:handler:{want}",
                       message=f"{f.qualname}: the handler for {', '.join(sorted(kinds))} can finish without terminate(Status.{want})",
                       witness=g.describe(bad) if bad else [])


# --------------------------------------------------------------------------- R3


def _rearm_calls(p, f, node) -> bool:
    """The CFG node creates a task that reads a port again."""
    for c in node_calls(f.cfg, node):
        d = dotted(c.func) or ""
        if d.split(".")[-1] in ("create_task", "ensure_future") and c.args:
            for x in calls_in(c.args[0]):
                if method_call(x, "get") or self_call(x, "_get_inputs"):
                    return True
    return False


def _callee_funcs(p, f, node):
    out = []
    for c in node_calls(f.cfg, node):
        if self_call(c) and _awaited(c):
            for q in p.resolve_call(f, c, fanout=False):
                if q in p.functions:
                    out.append(p.functions[q])
    return out


def _is_rearm(p, f, node) -> bool:
    """The node re-arms a port read itself or through a helper method (depth 1); memoised on the CFG."""
    # keyed per Program: the answer depends on callees that may live in another (overridden) module
    cache = p.__dict__.setdefault("_c04_rearm", {}).setdefault(f.qualname, {})
    if node.id not in cache:
        r = _rearm_calls(p, f, node)
        if not r:
            for h in _callee_funcs(p, f, node):
                hc = p.__dict__.setdefault("_c04_has_rearm", {})
                hr = hc.get(h.qualname)
                if hr is None:
                    hr = hc[h.qualname] = any(_rearm_calls(p, h, hn) for hn in h.cfg.nodes.values())
                r = r or hr
        cache[node.id] = r
    return cache[node.id]


def _written_names(g, region) -> set[str]:
    out = set()
    for i in region:
        n = g.nodes[i]
        a = n.ast
        if n.kind == "stmt" and isinstance(a, (ast.Assign, ast.AugAssign, ast.AnnAssign)):
            tgts = a.targets if isinstance(a, ast.Assign) else [a.target]
            for t in tgts:
                for x in ast.walk(t):
                    if isinstance(x, ast.Name):
                        out.add(x.id)
        for c in node_calls(g, n):
            if method_call(c) and c.func.attr in ("append", "add", "extend", "update", "insert") and isinstance(c.func.value, ast.Name):
                out.add(c.func.value.id)
    return out


def _term_tests(p, f, g, nodes):
    """test nodes among `nodes` that decide on a termination token, with the edge kind taken on termination"""
    out = []
    for i in nodes:
        n = g.nodes[i]
        if n.kind != "test":
            continue
        if not has_termination_test(p, f, n.ast):
            continue
        exprs = orig(f, n.ast) if isinstance(n.ast, ast.Name) else [n.ast]
        pol = None
        for e in exprs:
            v = truth_if(e, lambda x: termination_subject(p, f, x) is not None, True)
            pol = v if pol is None else (pol if v == pol else None)
        out.append((n, pol))
    return out


# ---- reads that report a termination token as `None` (JobPort.get_job and whatever sibling is written like it)


def _is_none(e) -> bool:
    return e is None or (isinstance(e, ast.Constant) and e.value is None)


def _none_on_termination(p, h) -> bool:
    """`h` tests a token for termination, every return reachable from the termination branch gives `None`
    and some other return gives a value: its caller sees the end of the stream as a `None` result."""
    cache = p.__dict__.setdefault("_c04_none_getter", {})
    if h.qualname not in cache:
        g = h.cfg
        rets = [n for n in g.nodes.values() if n.kind == "return"]
        res = False
        if any(not _is_none(n.ast.value) for n in rets):
            for t, pol in _term_tests(p, h, g, list(g.nodes)):
                if pol is None:
                    continue
                reach = g.reach(branch_succ(g, t.id, "t" if pol else "f"), avoid=[t.id], include_src=True)
                hit = [n for n in rets if n.id in reach]
                if (hit or g.exit in reach) and all(_is_none(n.ast.value) for n in hit):
                    res = True
        cache[h.qualname] = res
    return cache[h.qualname]


def _call_targets(p, f, c):
    """Functions a call may invoke; a `cast(T, x).m(...)` receiver is resolved through T, an unresolved
    `<expr>.m(...)` through every method called `m` in the class table."""
    qs = p.resolve_call(f, c, fanout=True)
    fs = [p.functions[q] for q in qs if q in p.functions]
    if fs and len(fs) == len(qs):
        return fs
    if not method_call(c):
        return []
    name, recv = c.func.attr, c.func.value
    while isinstance(recv, ast.Await):
        recv = recv.value
    if isinstance(recv, ast.Call) and (dotted(recv.func) or "").split(".")[-1] == "cast" and len(recv.args) == 2:
        d = dotted(recv.args[0])
        cq = p.resolve_dotted(f.module, d) if d else None
        if cq in p.classes:
            return [x for x in p.overrides(cq, name) if not x.is_abstract] or [x for x in [p.resolve_method(cq, name)] if x is not None]
    index = p.__dict__.get("_c04_methods_by_name")
    if index is None:
        index = p.__dict__["_c04_methods_by_name"] = {}
        for x in p.all_funcs():
            if x.cls is not None:
                index.setdefault(x.name, []).append(x)
    return [x for x in index.get(name, []) if not x.is_abstract]


def _none_read(p, f, e, depth: int = 3) -> bool:
    """`e` is the result of an awaited read that is `None` exactly when the port delivered its termination token."""
    while isinstance(e, (ast.Await, ast.NamedExpr)):
        e = e.value
    if isinstance(e, ast.Call):
        fs = _call_targets(p, f, e)
        return bool(fs) and all(_none_on_termination(p, x) for x in fs)
    if isinstance(e, ast.Name) and depth > 0:
        ds = [d for d in orig(f, e) if not (isinstance(d, ast.Name) and d.id == e.id)]
        return bool(ds) and all(_none_read(p, f, d, depth - 1) for d in ds)
    return False


def _terminated_truth(p, f, e, depth: int = 3):
    """Three-valued truth of `e` once the stream ended: termination-token tests are true, the result of a
    none-on-termination read is `None`; everything else is unknown."""
    if isinstance(e, ast.Constant):
        return bool(e.value)
    if isinstance(e, ast.UnaryOp) and isinstance(e.op, ast.Not):
        v = _terminated_truth(p, f, e.operand, depth)
        return None if v is None else not v
    if isinstance(e, ast.BoolOp):
        vs = [_terminated_truth(p, f, v, depth) for v in e.values]
        if isinstance(e.op, ast.Or):
            return True if any(v is True for v in vs) else (False if all(v is False for v in vs) else None)
        return False if any(v is False for v in vs) else (True if all(v is True for v in vs) else None)
    if isinstance(e, ast.Compare) and len(e.ops) == 1:
        a, b = e.left, e.comparators[0]
        subj = b if _is_none(a) else (a if _is_none(b) else None)
        if subj is not None and _none_read(p, f, subj):
            if isinstance(e.ops[0], (ast.Is, ast.Eq)):
                return True
            if isinstance(e.ops[0], (ast.IsNot, ast.NotEq)):
                return False
        return None
    if termination_subject(p, f, e) is not None:
        return True
    if _none_read(p, f, e):
        return False  # truth value of None
    if isinstance(e, ast.Name) and depth > 0:
        vs = {_terminated_truth(p, f, o, depth - 1) for o in orig(f, e) if not (isinstance(o, ast.Name) and o.id == e.id)}
        return vs.pop() if len(vs) == 1 else None
    return None


def _mentions_termination(p, f, e) -> bool:
    """The test reads a termination-token test or the result of a none-on-termination read (directly or through a local)."""
    for x in [e] + (orig(f, e) if isinstance(e, ast.Name) else []):
        for y in ast.walk(x):
            if isinstance(y, ast.Call) and termination_subject(p, f, y) is not None:
                return True
            if isinstance(y, (ast.Name, ast.NamedExpr, ast.Await)) and _none_read(p, f, y):
                return True
    return False


def _end_of_stream_tests(p, f):
    """(test node, edge kinds taken once the stream ended) for every test of `f` that decides on a termination token
    or on the `None` of a none-on-termination read.  An undecidable polarity keeps both branches."""
    g = f.cfg
    out = []
    for n in g.nodes.values():
        if n.kind != "test" or not _mentions_termination(p, f, n.ast):
            continue
        v = _terminated_truth(p, f, n.ast)
        out.append((n, ["t"] if v is True else ["f"] if v is False else ["t", "f"]))
    return out


def _helper_rearms(ctx, f, helpers):
    """A helper awaited in the task loop that reads the end of a stream and re-arms a port read must not re-arm on
    the branch where the stream ended (unless a test on something written in that branch guards it): the re-armed
    read -- or the next read of the exhausted port -- never completes and run() never reaches terminate()."""
    p = ctx.prog
    done = set()
    for h in helpers:
        if h.qualname in done:
            continue
        done.add(h.qualname)
        g = h.cfg
        rearms = [n.id for n in g.nodes.values() if _rearm_calls(p, h, n)]
        tests = _end_of_stream_tests(p, h)
        reads = [n.id for n in g.nodes.values() if any(
            _awaited(c) and method_call(c) and _none_read(p, h, c) for c in node_calls(g, n))]
        if not (rearms and tests) and not reads:
            continue
        ok, why, wit = True, "", []
        # the `None` of an end-of-stream read must be looked at before anything is re-armed
        tids = [t.id for t, _ in tests]
        for c in reads:
            for r in rearms:
                path = None if c in tids else g.path(c, [r], avoid=tids)
                if path is not None and ok:
                    ok = False
                    why = f"`{g.nodes[r].text(70)}` is reached from `{g.nodes[c].text(60)}` without a test of its result for None"
                    wit = g.describe(path)
        for t, kinds in tests:
            for kind in kinds:
                succ = branch_succ(g, t.id, kind)
                region = g.reach(succ, avoid=[t.id], include_src=True)
                names = _written_names(g, exclusive_region(g, t.id, kind)) if len(kinds) == 1 else set()
                guards = [i for i in region if g.nodes[i].kind == "test" and names & {x.id for x in ast.walk(g.nodes[i].ast) if isinstance(x, ast.Name)}]
                for r in rearms:
                    if r not in region or not ok:
                        continue
                    for s in succ:
                        if s in guards:
                            continue
                        path = [s] if s == r else g.path(s, [r], avoid=guards + [t.id])
                        if path is not None:
                            ok = False
                            why = f"`{g.nodes[r].text(70)}` runs also when `{unparse(t.ast)[:70]}` saw the end of the stream"
                            wit = g.describe([t.id] + list(path))
                            break
        ctx.ob("R3", f"{f.cls.name}.run: helper {h.name} does not re-arm a port read after the end of the stream", ok, func=h, node=h.node,
               instance=f"{f.cls.name}.run:helper:{h.name}:rearm",
               message=f"{h.qualname} (awaited in the task loop of {f.qualname}): {why}: the loop waits forever on a port that already terminated",
               witness=wit)


def _loop_sites(p, f, depth: int = 2):
    """[(owner, While, via)]: every `while` of run() `f` and of the helper methods it awaits through `self.m(...)`
    (resolved call, inlining bound `depth`; `terminate` and the run() overrides of the Step table -- checked on their
    own -- are not entered).  `via` is the chain [(caller, call)] from `f` to the owner ([] for `f` itself): a loop that
    was moved wholesale into a cooperating method is still a loop of run()."""
    cache = p.__dict__.setdefault("_c04_loop_sites", {})
    if f.qualname in cache:
        return cache[f.qualname]
    out, seen = [], {f.qualname}

    def visit(h, via, d):
        for n in h.body_nodes():
            if isinstance(n, ast.While):
                out.append((h, n, via))
        if d <= 0:
            return
        for c in h.calls():
            if not (self_call(c) and _awaited(c)) or c.func.attr in ("terminate", "run"):
                continue
            qs = p.resolve_call(h, c, fanout=True)
            callees = [p.functions[q] for q in qs if q in p.functions]
            if not callees or len(callees) != len(qs):
                continue
            for cal in callees:
                if cal.is_abstract or cal.qualname in seen:
                    continue
                seen.add(cal.qualname)
                visit(cal, via + [(h, c)], d - 1)

    visit(f, [], depth)
    cache[f.qualname] = out
    return out


def _via_text(f, h, via) -> str:
    """Finding text: where the construct was found when it is not in the anchored method itself."""
    if h.qualname == f.qualname:
        return f.qualname
    return f"{h.qualname} (awaited from {f.qualname} through {' -> '.join('self.' + c.func.attr + '()' for _, c in via)})"


def r3(ctx):
    p = ctx.prog
    for f in _step_runs(ctx):
        for h, w, via in _loop_sites(p, f):
            g = h.cfg
            where = _via_text(f, h, via)
            heads = g.ids_of(w.test)
            ctx.require(bool(heads), f"C04.R3: loop of {where} has no CFG node")
            head = heads[0]
            body = loop_body_nodes(g, head) | {b for b in g.reach(branch_succ(g, head, "t"), avoid=[head], include_src=True)}
            body.discard(head)
            inst = f"{f.cls.name}.run:while {unparse(w.test)[:40]}"
            tts = _term_tests(p, h, g, body)
            const_true = isinstance(w.test, ast.Constant) and bool(w.test.value)
            if const_true:
                exits = [i for i in body if g.nodes[i].kind in ("break", "return") and _owner_loop(g.nodes[i].ast) in (w, None)]
                ok, why = False, "no break/return inside the loop" if not exits else "no exit is controlled by a termination-token test"
                for t, pol in tts:
                    ctx.require(pol is not None, f"C04.R3: cannot tell which branch of `{t.text(80)}` in {where} is the termination branch")
                    succ = branch_succ(g, t.id, "t" if pol else "f")
                    reach = g.reach(succ, avoid=[head], include_src=True)
                    if any(x in reach for x in exits):
                        ok, why = True, ""
                ctx.ob("R3", f"{f.cls.name}.run: `while True` is left on a termination token", ok, func=h, node=w, instance=inst,
                       message=f"{where}: {why}: the step never terminates")
                continue
            # task-set loop
            helpers = []
            for i in body:
                helpers += _callee_funcs(p, h, g.nodes[i])
            helper_tests = any(_term_tests(p, h, h.cfg, h.cfg.nodes.keys()) for h in helpers)
            _helper_rearms(ctx, f, helpers)
            if not tts:
                ctx.ob("R3", f"{f.cls.name}.run: task loop `while {unparse(w.test)}` tests for termination tokens", False, func=h, node=w,
                       instance=inst, message=f"{where}: the task loop never tests for a termination token"
                       + (" (only inside a helper: the rule cannot relate it to the re-arm)" if helper_tests else "")
                       + ": ports are re-armed forever and the loop never drains")
                continue
            ok, why = True, ""
            rearm_somewhere = any(_is_rearm(p, h, g.nodes[i]) for i in body)
            if not rearm_somewhere and not _reads_task_set(h, w):
                # flag-controlled loop (`while not done:`): the termination branch must leave the loop or write a name the loop test reads
                test_names = {x.id for x in ast.walk(w.test) if isinstance(x, ast.Name)} | {
                    x.attr for x in ast.walk(w.test) if isinstance(x, ast.Attribute) and is_name(x.value, "self")}
                exits = [i for i in body if g.nodes[i].kind in ("break", "return") and _owner_loop(g.nodes[i].ast) in (w, None)]
                ok, why = False, "the termination branch neither leaves the loop nor changes what the loop test reads"
                for t, pol in tts:
                    ctx.require(pol is not None, f"C04.R3: cannot tell which branch of `{t.text(80)}` in {where} is the termination branch")
                    kind = "t" if pol else "f"
                    reach = g.reach(branch_succ(g, t.id, kind), avoid=[head], include_src=True)
                    excl = exclusive_region(g, t.id, kind, stop=[head])
                    written = _written_names(g, excl)
                    for i in excl:
                        a = g.nodes[i].ast
                        if g.nodes[i].kind == "stmt" and isinstance(a, ast.Assign):
                            written |= {x.attr for tg in a.targets for x in ast.walk(tg) if isinstance(x, ast.Attribute) and is_name(x.value, "self")}
                    if any(x in reach for x in exits) or (written & test_names):
                        ok, why = True, ""
                ctx.ob("R3", f"{f.cls.name}.run: `while {unparse(w.test)}` ends on a termination token", ok, func=h, node=w, instance=inst,
                       message=f"{where}: {why}: the step never terminates")
                continue
            for t, pol in tts:
                ctx.require(pol is not None, f"C04.R3: cannot tell which branch of `{t.text(80)}` in {where} is the termination branch")
                kind = "t" if pol else "f"
                succ = branch_succ(g, t.id, kind)
                region = g.reach(succ, avoid=[head, t.id], include_src=True) & (body | set(succ))
                excl = exclusive_region(g, t.id, kind, stop=[head])
                names = _written_names(g, excl)
                guards = [i for i in region if g.nodes[i].kind == "test" and names & {x.id for x in ast.walk(g.nodes[i].ast) if isinstance(x, ast.Name)}]
                for i in region:
                    n = g.nodes[i]
                    if not _is_rearm(p, h, n):
                        continue
                    if any(s == i or g.path(s, [i], avoid=guards + [head, t.id]) is not None for s in succ if s not in guards):
                        ok, why = False, f"`{n.text(70)}` re-arms the port after its termination token without a guard"
            ctx.ob("R3", f"{f.cls.name}.run: task loop `while {unparse(w.test)}` stops re-arming terminated ports", ok and rearm_somewhere,
                   func=h, node=w, instance=inst,
                   message=f"{where}: {why or 'no re-arm of the consumed port found in the loop'}: the loop waits forever on a port that already terminated")


def _reads_task_set(f, w) -> bool:
    """The loop test is the truth value of a collection that `asyncio.wait` is applied to inside the loop (a task-set loop)."""
    names = {x.id for x in ast.walk(w.test) if isinstance(x, ast.Name)}
    for c in [x for x in ast.walk(w) if isinstance(x, ast.Call) and (dotted(x.func) or "").split(".")[-1] in ("wait", "as_completed")]:
        if c.args and {x.id for x in ast.walk(c.args[0]) if isinstance(x, ast.Name)} & names:
            return True
    return False


def _owner_loop(node):
    for a in ancestors(node):
        if isinstance(a, (ast.While, ast.For, ast.AsyncFor)):
            return a
        if isinstance(a, (ast.FunctionDef, ast.AsyncFunctionDef)):
            return None
    return None


# --------------------------------------------------------------------------- R4


def _steps_values(e):
    return map_view(e, "values", lambda x: isinstance(x, ast.Attribute) and x.attr == "steps" and is_self_attr(x.value, "workflow"))


def r4(ctx):
    p = ctx.prog
    run = p.func(f"{EXEC}.run")
    g = run.cfg
    # (a) every step started under _handle_exception
    loops = [n for n in run.body_nodes() if isinstance(n, ast.For) and isinstance(n.target, ast.Name)
             and whole(run, n.iter, _steps_values, ordered=False)]
    started = []
    for lp in loops:
        for c in [x for x in ast.walk(lp) if method_call(x, "run") and is_name(x.func.value, lp.target.id)]:
            wraps = [a for a in ancestors(c) if isinstance(a, ast.Call)]
            wrapped = any(self_call(a, "_handle_exception") for a in wraps)
            tasked = any((dotted(a.func) or "").split(".")[-1] in ("create_task", "ensure_future") for a in wraps)
            heads = g.ids_of(lp)
            uncond = bool(heads) and all(
                g.path(s, [heads[0]], avoid=g.node_containing(c)) is None for s in branch_succ(g, heads[0], "t") if s not in g.node_containing(c))
            started.append((c, wrapped and tasked and uncond))
    # the same enumeration written as a comprehension / generator over every step (`executions.extend(<task> for step in ..)`)
    comp_starts = _comp_starts(run, g)
    started += [(c, o) for c, o, _ in comp_starts]
    ctx.ob("R4", "executor.run starts every step as a task wrapped by _handle_exception", bool(started) and all(o for _, o in started),
           func=run, node=(started[0][0] if started else run.node), instance="executor.run:wrap",
           message="a step's run() is not started for every step under _handle_exception: its failure would go unnoticed and the others hang")
    # (b) _handle_exception
    he = p.func(f"{EXEC}._handle_exception")
    hg = he.cfg
    closes = {n.id for n in hg.nodes.values() if any(self_call(c, "close") and _awaited(c) for c in n.calls())}
    gen = [h for tr in he.body_nodes() if isinstance(tr, ast.Try) for h in tr.handlers if _handler_kinds(h) & {"Exception", "BaseException"}]
    ok = bool(gen) and bool(closes)
    for h in gen:
        for x in hg.ids_of(h):
            if hg.escape(x, closes, targets=[hg.exit]) is not None:
                ok = False
            if any(hg.nodes[i].kind == "raise_stmt" for i in hg.reach([x], avoid=closes)):
                ok = False
    tp = [x for x in he.params if x != "self"]
    awaits_task = bool(tp) and any(isinstance(n, ast.Await) and is_param(he, n.value, tp[0]) for n in he.body_nodes())
    ctx.ob("R4", "_handle_exception awaits the task and closes the executor when it failed", ok and awaits_task, func=he, node=he.node,
           instance="_handle_exception:close", message="_handle_exception does not `await self.close()` on a failure: the remaining steps are never terminated")
    # (c) close
    cl = p.func(f"{EXEC}.close")
    cg = cl.cfg
    sites = []
    for c in cl.calls():
        if not (method_call(c, "terminate") and isinstance(c.func.value, ast.Name) and c.args):
            continue
        v = c.func.value.id
        status = status_const(p, cl, c.args[0])
        comp = next((a for a in ancestors(c) if isinstance(a, (ast.GeneratorExp, ast.ListComp, ast.For))), None)
        cover, cond_ok = False, False
        if isinstance(comp, (ast.GeneratorExp, ast.ListComp)) and len(comp.generators) == 1:
            gen_ = comp.generators[0]
            cover = is_name(gen_.target, v) and whole(cl, gen_.iter, _steps_values, ordered=False)
            cond_ok = all(_not_terminated(i, v) for i in gen_.ifs)
        elif isinstance(comp, ast.For):
            cover = is_name(comp.target, v) and whole(cl, comp.iter, _steps_values, ordered=False)
            conds = [a.test for a in ancestors(c) if isinstance(a, ast.If) and a in ast.walk(comp)]
            cond_ok = all(_not_terminated(t, v) for t in conds)
        awaited = any(isinstance(a, ast.Await) for a in ancestors(c)) or _collected_and_gathered(cl, cg, c, comp)
        sites.append((c, status in FAILING and cover and cond_ok and awaited))
    tn = []
    for c, _ in sites:
        lp = next((a for a in ancestors(c) if isinstance(a, (ast.For, ast.GeneratorExp, ast.ListComp))), None)
        # loop form: the loop head is what every open path must pass (the body is conditional per step)
        tn += cg.ids_of(lp) if isinstance(lp, ast.For) else cg.node_containing(c)
    state_tests = [n.id for n in cg.nodes.values() if n.kind == "test" and any(
        is_self_attr(x, "_closed") or is_self_attr(x, "_closing") for x in ast.walk(n.ast))]
    always, marks = bool(tn), False
    if always:
        paths = _state_paths(ctx, cl, "close")
        open_paths = [q for q in paths if q.val.get(((), "CL")) is not True and q.val.get(((), "CG")) is not True and q.end == "exit"]
        always = bool(open_paths) and all(set(tn) & set(q.nodes()) for q in open_paths)
        # ... and afterwards marks the executor closed
        closed_set = [n.id for n in cg.nodes.values() if n.kind == "stmt" and isinstance(n.ast, ast.Assign) and any(
            is_self_attr(t, "_closed") for t in n.ast.targets) and isinstance(n.ast.value, ast.Constant) and n.ast.value.value is True]
        marks = bool(closed_set) and all(cg.escape(t, closed_set) is None for t in tn)
    ctx.ob("R4", "close() terminates every step that is not yet terminated", bool(sites) and all(o for _, o in sites) and always, func=cl, node=cl.node,
           instance="close:all-steps", message="close() does not await terminate(CANCELLED) for every non-terminated step of workflow.steps when the executor is still open")
    ctx.ob("R4", "close() marks the executor closed after terminating the steps", marks, func=cl, node=cl.node, instance="close:mark",
           message="close() does not set `_closed` after the terminations: executor.run keeps polling output ports that will never deliver")
    cd = p.func(f"{EXEC}.closed")
    cd_ok, cd_why = _returns_flag(cd, "_closed")
    ctx.ob("R4", "closed() reports the `_closed` flag", cd_ok,
           func=cd, node=cd.node, instance="closed:flag",
           message=f"closed() does not return self._closed ({cd_why}): the output loop of executor.run cannot end (or ends early)")
    # (d) run raises on FAILED/CANCELLED: a loop over every step with a test, `any(...)` / `not all(...)` over every step,
    # or either of them in a method run() calls (resolved `self.m()`, bound 1) that cannot finish normally past it
    checks = _failing_checks(p, run, loops)
    through = ""
    if not checks:
        for n in g.nodes.values():
            for c in node_calls(g, n):
                if not self_call(c) or c.func.attr in ("close", "closed", "_wait_outputs", "_handle_exception", "_cancel"):
                    continue
                qs = p.resolve_call(run, c, fanout=True)
                hs_ = [p.functions[q] for q in qs if q in p.functions]
                if not hs_ or len(hs_) != len(qs) or any(h.is_abstract for h in hs_):
                    continue
                per = []
                for h in hs_:
                    hg = h.cfg
                    hloops = [x for x in h.body_nodes() if isinstance(x, ast.For) and isinstance(x.target, ast.Name)
                              and whole(h, x.iter, _steps_values, ordered=False)]
                    hc = _failing_checks(p, h, hloops)
                    if not hc:
                        continue
                    anchors = [i for _, ids, _ in hc for i in ids]
                    per.append(all(o for *_, o in hc) and hg.escape(hg.entry, anchors, targets=[hg.exit]) is None
                               and (not h.is_async or _awaited(c)))
                if per and len(per) == len(hs_):
                    checks.append((n, [n.id], all(per)))
                    through = f" (status check followed into {', '.join(h.qualname for h in hs_)}, called from run())"
    # the statuses are inspected only after the step tasks finished / the executor was closed
    waits = [n.id for n in g.nodes.values() if any(
        isinstance(x, ast.Await) and isinstance(x.value, ast.Call) and (
            ((dotted(x.value.func) or "").split(".")[-1] == "gather" and any(
                isinstance(a, ast.Starred) and is_self_attr(a.value, "executions") for a in x.value.args))
            or (self_call(x.value, "closed") and n.kind == "test"))
        for x in n.walk())]
    collected = [n.id for n in g.nodes.values() if any(
        method_call(c, "append") and is_self_attr(c.func.value, "executions") for c in node_calls(g, n))]
    collected += _comp_collected(run, g, comp_starts)
    waited = bool(checks) and bool(waits) and bool(collected) and all(g.dominates(waits, i) for _, ids, _ in checks for i in ids)
    ctx.ob("R4", "executor.run waits for the step tasks (gather) or for close() before it inspects the statuses", waited, func=run, node=run.node,
           instance="executor.run:wait", message="executor.run can inspect the step statuses / return while steps are still running")
    rets = [n.id for n in g.nodes.values() if n.kind == "return"]
    dom = bool(checks) and all(g.dominates([i], r) for _, ids, _ in checks for i in ids for r in rets)
    ctx.ob("R4", "executor.run checks every step for FAILED/CANCELLED and raises before returning", bool(checks) and all(o for *_, o in checks) and dom,
           func=run, node=(checks[0][0].ast if checks else run.node), instance="executor.run:status-check",
           message="executor.run can return normally although a step is FAILED or CANCELLED" + through)
    hs = [h for tr in run.body_nodes() if isinstance(tr, ast.Try) for h in tr.handlers if _handler_kinds(h) & {"Exception", "BaseException"}]
    rc = {n.id for n in g.nodes.values() if any(self_call(c, "close") and _awaited(c) for c in n.calls())}
    ok = bool(hs) and bool(rc)
    for h in hs:
        for x in g.ids_of(h):
            if g.path(x, [g.exit]) is not None:
                ok = False
            raises = [i for i in g.reach([x]) if g.nodes[i].kind == "raise_stmt"]
            if not raises or g.path(x, raises, avoid=rc) is not None:
                ok = False
    ctx.ob("R4", "executor.run's catch-all handler closes the executor and re-raises", ok, func=run, node=run.node, instance="executor.run:handler",
           message="executor.run swallows a failure or re-raises without close(): steps stay unterminated")
    # (e) _wait_outputs
    wo = p.func(f"{EXEC}._wait_outputs")
    wg = wo.cfg
    found = []
    for n in wg.nodes.values():
        if n.kind != "test":
            continue
        # the edge taken exactly for a FAILED/CANCELLED termination token, however the test is spelled (branches swapped
        # under `not`, guard clause, joined with the termination test by `and`)
        relevant, edge, rest = _failing_edge_at(p, wo, wg, n.id, lambda s: s.endswith(".value"))
        if not relevant:
            continue
        if edge is None:
            found.append((n, False))
            continue
        tsucc = branch_succ(wg, n.id, edge)
        cancels = [i for i in wg.reach(tsucc, include_src=True, avoid=[n.id]) if any(self_call(c, "_cancel") and _awaited(c) for c in wg.nodes[i].calls())]
        must = bool(cancels) and all(wg.path(s, [wg.exit], avoid=cancels) is None for s in tsucc if s not in cancels)
        # the status is read from a termination token: that fact holds on every path reaching the test (or is part of it),
        # and the test has no further condition under which a failed token would take the other edge
        guarded = all(v and _term_atom(p, wo, a) for a, v in rest) and any(
            v and _term_atom(p, wo, a) for a, v in list(facts_at(wg, n.id)) + rest)
        pend = set()
        for a in [x for x in wo.body_nodes() if isinstance(x, ast.Assign) and isinstance(x.targets[0], ast.Tuple) and len(x.targets[0].elts) == 2]:
            v = strip_cast(a.value)
            if isinstance(v, ast.Call) and (dotted(v.func) or "").endswith("asyncio.wait") and isinstance(a.targets[0].elts[1], ast.Name):
                pend.add(a.targets[0].elts[1].id)
        arg_ok = bool(cancels) and all(
            len(c.args) == 1 and isinstance(c.args[0], ast.Name) and c.args[0].id in pend
            for i in cancels for c in node_calls(wg, wg.nodes[i]) if self_call(c, "_cancel"))
        found.append((n, must and guarded and arg_ok))
    ctx.ob("R4", "_wait_outputs cancels the pending output tasks on a FAILED/CANCELLED termination token", bool(found) and all(o for _, o in found),
           func=wo, node=(found[0][0].ast if found else wo.node), instance="_wait_outputs:cancel",
           message="_wait_outputs keeps waiting on the other output ports after a FAILED/CANCELLED termination token")
    # all output ports terminated -> close
    ok = False
    for n in wg.nodes.values():
        if n.kind != "test":
            continue
        # the edge on which "all output ports were received" holds: `==` on the true edge, `!=` / `not ==` on the false edge
        # ... read through plain temporaries (`_n = len(self.received)` / `if _n == len(...)`): the first form of the test
        # that compares the two lengths decides; the temporaries must have been taken after the port was recorded
        rec = lambda x: is_len_of(x, lambda y: is_self_attr(y, "received"))  # noqa: E731
        outs = lambda x: is_len_of(x, lambda y: isinstance(y, ast.Attribute) and y.attr == "output_ports" and is_self_attr(y.value, "workflow"))  # noqa: E731
        cmp_, edge, tdefs = None, None, []
        for form, defs in _test_forms(wo, wg, n.id):
            for kind in ("t", "f"):
                ats = atoms(form, kind == "t")
                if len(ats) == 1 and ats[0][1] and isinstance(ats[0][0], ast.Compare) and len(ats[0][0].ops) == 1:
                    c = ats[0][0]
                    if (rec(c.left) and outs(c.comparators[0])) or (rec(c.comparators[0]) and outs(c.left)):
                        cmp_, edge, tdefs = c, kind, defs
            if cmp_ is not None:
                break
        if cmp_ is None:
            continue
        a, b = cmp_.left, cmp_.comparators[0]
        cl_nodes = [i for i in wg.nodes if any(self_call(c, "close") and _awaited(c) for c in node_calls(wg, wg.nodes[i]))]
        # first effective statement of the true branch (`pass` / logging / docstrings in front of it do not matter)
        tsucc = wg.real_succ(n.id, edge)
        recs = [i for i in wg.nodes if any(
            method_call(c, "append") and is_self_attr(c.func.value, "received") for c in node_calls(wg, wg.nodes[i]))]
        ok = (isinstance(cmp_.ops[0], (ast.Eq, ast.GtE)) and (rec(a) or isinstance(cmp_.ops[0], ast.Eq)) and bool(cl_nodes)
              and bool(tsucc) and all(s in cl_nodes for s in tsucc) and bool(recs) and all(wg.dominates(recs, x) for x in [n.id] + list(tdefs)))
    ctx.ob("R4", "_wait_outputs closes the executor when the last output port terminated", ok, func=wo, node=wo.node, instance="_wait_outputs:close",
           message="_wait_outputs does not close the executor exactly when every output port delivered its termination token")
    _cancel_rule(ctx)



EAGER_CONSUMERS = {"list", "tuple", "set", "frozenset", "sorted", "deque"}


def _eager_in(c, top) -> bool:
    """`c` is evaluated every time the element expression `top` is: nothing between them defers it (lambda, inner
    comprehension) or makes it conditional (`a if t else b`, the right-hand side of `and`/`or`, a chained comparison)."""
    if c is top:
        return True
    child = c
    for a in ancestors(c):
        if isinstance(a, ast.IfExp) and child is not a.test:
            return False
        if isinstance(a, ast.BoolOp) and child is not a.values[0]:
            return False
        if isinstance(a, ast.Compare) and len(a.ops) > 1 and child is not a.left and child is not a.comparators[0]:
            return False
        if a is top:
            return True
        if isinstance(a, (ast.Lambda, ast.ListComp, ast.SetComp, ast.DictComp, ast.GeneratorExp)):
            return False
        child = a
    return False


def _eager_consumer(e) -> bool:
    """The iterable expression `e` is exhausted where it stands: `list(e)` & co, `<x>.extend(e)`, `f(*e)`, `<x> += e`."""
    pa = parent(e)
    if isinstance(pa, ast.Call) and len(pa.args) == 1 and pa.args[0] is e and not pa.keywords:
        return method_call(pa, "extend") or (isinstance(pa.func, ast.Name) and pa.func.id in EAGER_CONSUMERS) \
            or (dotted(pa.func) or "") == "collections.deque"
    if isinstance(pa, ast.Starred) and isinstance(parent(pa), ast.Call):
        return True
    return isinstance(pa, ast.AugAssign) and isinstance(pa.op, ast.Add) and pa.value is e


def _comp_consumed(f, g, comp) -> bool:
    """Every element of the comprehension is produced: a list/set comprehension is eager; a generator expression must be
    handed directly to an eager consumer, or sit in a local (its only definition) whose single use is an eager consumer
    that every path from the definition to the normal exit passes."""
    if isinstance(comp, (ast.ListComp, ast.SetComp)):
        return True
    if _eager_consumer(comp):
        return True
    pa = parent(comp)
    name = None
    if isinstance(pa, ast.Assign) and len(pa.targets) == 1 and isinstance(pa.targets[0], ast.Name) and pa.value is comp:
        name = pa.targets[0].id
    elif isinstance(pa, ast.NamedExpr) and pa.value is comp:
        name = pa.target.id
    if name is None:
        return False
    if len(defs_of(f, name)) != 1:
        return False
    uses = [x for x in f.body_nodes() if isinstance(x, ast.Name) and x.id == name and isinstance(x.ctx, ast.Load)]
    if len(uses) != 1 or not _eager_consumer(uses[0]):
        return False
    dn, un = g.node_containing(comp), g.node_containing(uses[0])
    return bool(dn) and bool(un) and all(d in un or g.escape(d, un, targets=[g.exit]) is None for d in dn)


def _comp_starts(f, g):
    """[(run call, ok, comprehension)]: `<x>.run()` in the element expression of a comprehension / generator expression
    whose single `for <x> in ..` enumerates the whole `self.workflow.steps` map.  ok -- the call is wrapped by
    `self._handle_exception(..)` and a task constructor *inside the element*, evaluated for every element (no filter, no
    conditional / deferred context) and the comprehension is really exhausted (see _comp_consumed)."""
    out = []
    for comp in [n for n in f.body_nodes() if isinstance(n, (ast.ListComp, ast.SetComp, ast.GeneratorExp))]:
        if len(comp.generators) != 1:
            continue
        gen = comp.generators[0]
        if not isinstance(gen.target, ast.Name) or not whole(f, gen.iter, _steps_values, ordered=False):
            continue
        v = gen.target.id
        inside = {id(x) for x in ast.walk(comp.elt)}
        for c in [x for x in ast.walk(comp.elt) if method_call(x, "run") and is_name(x.func.value, v)]:
            wraps = [a for a in ancestors(c) if isinstance(a, ast.Call) and id(a) in inside]
            wrapped = any(self_call(a, "_handle_exception") for a in wraps)
            tasked = any((dotted(a.func) or "").split(".")[-1] in ("create_task", "ensure_future") for a in wraps)
            every = not gen.ifs and not gen.is_async and _eager_in(c, comp.elt)
            out.append((c, wrapped and tasked and every and _comp_consumed(f, g, comp), comp))
    return out


def _comp_collected(f, g, comp_starts) -> list[int]:
    """CFG nodes that put the tasks started by a comprehension into `self.executions`: `self.executions.extend(<comp>)`,
    `self.executions += <comp>`, `self.executions = <comp>` where <comp> is the comprehension itself (also inside
    `list(..)` & co) or a local that holds it."""
    comps = [comp for _, o, comp in comp_starts if o]
    if not comps:
        return []

    def carries(e, depth: int = 3) -> bool:
        for o in orig(f, e):
            while isinstance(o, ast.Call) and len(o.args) == 1 and not o.keywords and isinstance(o.func, ast.Name) and o.func.id in EAGER_CONSUMERS:
                o = o.args[0]
            if any(o is k for k in comps):
                return True
            if isinstance(o, ast.Name) and o is not e and depth > 0 and carries(o, depth - 1):
                return True
        return False

    out = []
    for n in g.nodes.values():
        if n.kind != "stmt" or n.ast is None:
            continue
        hit = False
        for x in n.walk():
            if method_call(x, "extend") and is_self_attr(x.func.value, "executions") and len(x.args) == 1 and carries(x.args[0]):
                hit = True
            if isinstance(x, ast.AugAssign) and isinstance(x.op, ast.Add) and is_self_attr(x.target, "executions") and carries(x.value):
                hit = True
            if isinstance(x, ast.Assign) and any(is_self_attr(t, "executions") for t in x.targets) and carries(x.value):
                hit = True
        if hit:
            out.append(n.id)
    return out


def _term_atom(p, f, a) -> bool:
    """`a` is a termination-token test (`isinstance(x, TerminationToken)` / `check_termination(x)`), or a local that
    only ever holds the result of one."""
    if isinstance(a, ast.NamedExpr):
        a = a.value
    if isinstance(a, ast.Name):
        os_ = [o for o in orig(f, a) if not (isinstance(o, ast.Name) and o.id == a.id)]
        return bool(os_) and all(termination_subject(p, f, o) is not None for o in os_)
    return termination_subject(p, f, a) is not None


def _failing_edge(p, f, test, subject_pred):
    """How a test decides on a FAILED/CANCELLED status, independent of its spelling (`in (..)` / `not in` with the
    branches swapped / `==` joined by `or` / `!=` joined by `and` / joined with other conditions by `and`).
    Returns (relevant, edge, rest): `relevant` -- some atom of the test compares a subject accepted by `subject_pred`
    with Status constants; `edge` -- 't'/'f', the edge that is taken exactly when the status is FAILED or CANCELLED
    and the remaining atoms `rest` [(atom, truth)] hold, or None when no edge means exactly that."""
    members = set(status_members(p))
    relevant, found = False, []
    for kind in ("t", "f"):
        sets_, rest = [], []
        for a, v in atoms(test, kind == "t"):
            r = fold_status_guard(p, f, a)
            if r is not None and subject_pred(r[0]):
                relevant = True
                sets_.append(r[1] if v else members - r[1])
            else:
                rest.append((a, v))
        if sets_ and set.intersection(*sets_) == FAILING:
            found.append((kind, rest))
    if len(found) == 1:
        return relevant, found[0][0], found[0][1]
    return relevant, None, []


# ---- a test read through the reaching definitions of its operands (`_l = len(xs)` / `if _l == n:` is `if len(xs) == n:`)


def _eager_names(e):
    """Load-context Names of `e` that are evaluated with `e` itself (not inside a lambda / comprehension scope)."""
    out, todo = [], [e]
    while todo:
        x = todo.pop()
        if isinstance(x, (ast.Lambda, ast.ListComp, ast.SetComp, ast.DictComp, ast.GeneratorExp)):
            continue
        if isinstance(x, ast.Name) and isinstance(x.ctx, ast.Load):
            out.append(x)
        todo.extend(ast.iter_child_nodes(x))
    return out


def _subst(e, sub):
    """`e` with the Name objects of `sub` {id(node): expression} replaced.  Only the spine above a replaced name is
    rebuilt: every other node stays the analysed object (so it can still be located in the CFG), nothing is deep-copied."""
    if id(e) in sub:
        return sub[id(e)]
    changed, fields = False, {}
    for name, val in ast.iter_fields(e):
        if isinstance(val, ast.AST):
            nv = _subst(val, sub)
            changed = changed or nv is not val
            fields[name] = nv
        elif isinstance(val, list):
            nl = [_subst(x, sub) if isinstance(x, ast.AST) else x for x in val]
            changed = changed or any(a is not b for a, b in zip(nl, val))
            fields[name] = nl
        else:
            fields[name] = val
    if not changed:
        return e
    return ast.copy_location(type(e)(**fields), e)


_PURE_BUILTINS = {"len", "isinstance", "bool", "int", "str", "repr", "min", "max", "abs", "any", "all", "sum", "sorted", "list", "tuple",
                  "set", "frozenset", "dict", "type", "id", "range", "enumerate", "zip"}


def _temp_value(f, g, name_node, tid):
    """(value, def node id) when the local read by `name_node` is, at test node `tid`, a plain temporary: exactly one
    reaching definition, a plain `x = <expr>` (single Name target, no await / walrus in the value) evaluated on every path
    to the test, and nothing between that assignment and the test can change what `<expr>` reads -- the nodes in between
    are `pass` / logging, or await-free statements and tests that call nothing but pure builtins (`len`, `isinstance`, ..)
    and store into nothing `<expr>` mentions.  None
    otherwise (the name is then left alone: a copy taken *before* the state it reads was changed is not the same test)."""
    ds = reaching_defs(f, name_node.id, name_node)
    if len(ds) != 1:
        return None
    d = ds[0]
    if d.kind != "assign" or d.index is not None or d.value is None or not isinstance(d.stmt, ast.Assign):
        return None
    if len(d.stmt.targets) != 1 or not isinstance(d.stmt.targets[0], ast.Name):
        return None
    if any(isinstance(x, (ast.Await, ast.NamedExpr, ast.Yield, ast.YieldFrom)) for x in ast.walk(d.value)):
        return None
    ids = _def_node_ids(g, d)
    if len(ids) != 1 or ids[0] == tid or not g.dominates(ids[0], tid, kinds=ALL):
        return None
    di = ids[0]
    reads = {x.id for x in ast.walk(d.value) if isinstance(x, ast.Name)} | {name_node.id}
    for i in g.reach([di], avoid=[tid], kinds=ALL):
        if i in (di, tid) or g.path(i, [tid], avoid=[di], kinds=ALL) is None:
            continue
        if g.is_trivial(i):
            continue
        n = g.nodes[i]
        if n.kind not in ("stmt", "test") or n.has_await():
            return None
        if any(not (isinstance(c.func, ast.Name) and c.func.id in _PURE_BUILTINS and not defs_of(f, c.func.id)) for c in node_calls(g, n)):
            return None
        for x in n.walk():
            if isinstance(x, ast.Name) and not isinstance(x.ctx, ast.Load) and x.id in reads:
                return None
            if isinstance(x, (ast.Attribute, ast.Subscript)) and not isinstance(x.ctx, ast.Load):
                root = x
                while isinstance(root, (ast.Attribute, ast.Subscript)):
                    root = root.value
                if not isinstance(root, ast.Name) or root.id in reads:
                    return None
    return d.value, di


def _test_forms(f, g, tid, depth: int = 3):
    """[(expression, def node ids)]: the test of CFG node `tid` as written, then with its plain temporaries replaced by
    the expressions they hold (one level per entry, bound `depth`); the ids are the assignments read through."""
    cache = g.__dict__.setdefault("_c04_test_forms", {})
    if tid in cache:
        return cache[tid]
    e, used = g.nodes[tid].ast, []
    out = [(e, [])]
    for _ in range(depth):
        sub = {}
        for nm in _eager_names(e):
            r = _temp_value(f, g, nm, tid)
            if r is not None:
                sub[id(nm)] = r[0]
                used.append(r[1])
        if not sub:
            break
        e = _subst(e, sub)
        out.append((e, sorted(set(used))))
    cache[tid] = out
    return out


def _failing_edge_at(p, f, g, tid, subject_pred):
    """`_failing_edge` of the test node `tid`, read through plain temporaries (`_s = statuses[-1]` / `if _s in (..)`):
    the first form of the test -- as written, then one level of temporaries at a time -- that compares an accepted
    subject with Status constants decides."""
    return _failing_form_at(p, f, g, tid, subject_pred)[:3]


def _failing_form_at(p, f, g, tid, subject_pred):
    """(relevant, edge, rest, def node ids): `_failing_edge_at` plus the assignments the deciding form was read through."""
    res = (False, None, [], [])
    for e, defs in _test_forms(f, g, tid):
        res = _failing_edge(p, f, e, subject_pred) + (defs,)
        if res[0]:
            break
    return res


def _exists_failing(p, f, a, v, depth: int = 3):
    """The atom `a` having truth `v` means exactly "some step of the whole `self.workflow.steps` map has status FAILED or
    CANCELLED": `any(<failing test on x.status> for x in <all steps>)` true, `all(<test> ...)` false with the test false
    exactly for FAILED/CANCELLED, a non-empty `[x for x in <all steps> if <failing test>]`, or a local that only ever holds
    one of those.  Returns the expressions whose evaluation inspects the statuses ([] when `a` is not such an atom)."""
    if isinstance(a, ast.NamedExpr):
        return _exists_failing(p, f, a.value, v, depth)
    if isinstance(a, ast.Name):
        if depth <= 0:
            return []
        os_ = [o for o in origins(f, a, 1) if not (isinstance(o, ast.Name) and o.id == a.id)]
        found = [_exists_failing(p, f, o, v, depth - 1) for o in os_]
        return [x for r in found for x in r] if found and all(found) else []
    comp, neg = None, False
    if isinstance(a, ast.Call) and isinstance(a.func, ast.Name) and a.func.id in ("any", "all") and len(a.args) == 1 and not a.keywords \
            and isinstance(a.args[0], (ast.GeneratorExp, ast.ListComp, ast.SetComp)):
        comp, neg = a.args[0], a.func.id == "all"
        if v != (not neg):
            return []
        conds = [ast.UnaryOp(op=ast.Not(), operand=comp.elt)] if neg else [comp.elt]
    elif isinstance(a, (ast.ListComp, ast.SetComp)) and v:
        comp, conds = a, []
    else:
        return []
    if len(comp.generators) != 1 or comp.generators[0].is_async or not isinstance(comp.generators[0].target, ast.Name):
        return []
    gen = comp.generators[0]
    if not whole(f, gen.iter, _steps_values, ordered=False):
        return []
    conds = list(gen.ifs) + conds
    if not conds:
        return []
    cond = conds[0] if len(conds) == 1 else ast.BoolOp(op=ast.And(), values=conds)
    relevant, edge, rest = _failing_edge(p, f, cond, lambda s: s == f"{gen.target.id}.status")
    rest = [(x, t) for x, t in rest if not (isinstance(x, ast.Constant) and bool(x.value) == t)]
    return [a] if relevant and edge == "t" and not rest else []


def _failing_checks(p, f, loops):
    """[(test node, anchor node ids, ok)]: the places where `f` decides on "some step is FAILED/CANCELLED" over *every*
    step; `ok` -- the edge taken exactly in that case (no further conjunct) leads to a `raise` on every path; the anchors
    are the nodes that read the statuses (loop head / evaluation of the any(), and the test)."""
    g = f.cfg
    out = []

    def must_raise(fsucc, stop):
        if not fsucc:
            return False
        region = g.reach(fsucc, avoid=stop, include_src=True)
        return any(g.nodes[b].kind == "raise_stmt" for b in region) and all(
            g.path(s, list(stop) + [g.exit], avoid=[]) is None for s in fsucc if s not in stop)

    for lp in loops:
        v = lp.target.id
        heads = g.ids_of(lp)
        for n in g.nodes.values():
            if n.kind != "test" or not any(x is n.ast for x in ast.walk(lp)):
                continue
            relevant, edge, rest = _failing_edge_at(p, f, g, n.id, lambda s: s == f"{v}.status")
            if not relevant:
                continue
            # the edge taken exactly for FAILED/CANCELLED (no further condition) must raise, whichever branch that is
            fsucc = [b for b in branch_succ(g, n.id, edge) if b not in heads] if edge is not None and not rest else []
            raises = must_raise(fsucc, heads + [n.id])
            uncond = all(s == n.id or g.path(s, heads, avoid=[n.id]) is None for s in branch_succ(g, heads[0], "t"))
            out.append((n, list(heads), raises and uncond))
    for n in g.nodes.values():
        if n.kind != "test" or n.ast is None:
            continue
        found = []
        for kind in ("t", "f"):
            ats = atoms(n.ast, kind == "t")
            hits = [(a, _exists_failing(p, f, a, v)) for a, v in ats]
            if any(h for _, h in hits):
                found.append((kind, [e for _, h in hits for e in h], [a for a, h in hits if not h]))
        if not found:
            continue
        anchors = {n.id}
        for _, evs, _ in found:
            for e in evs:
                anchors |= set(g.node_containing(e))
        ok = len(found) == 1 and not found[0][2] and must_raise(branch_succ(g, n.id, found[0][0]), [n.id])
        # a copy of the verdict held in a local must not be older than a suspension point (the statuses may change meanwhile)
        susp = set(g.suspension_nodes())
        for i in anchors - {n.id}:
            after = g.reach([i])
            if any(s in after and n.id in g.reach([s]) for s in susp if s not in (i, n.id)):
                ok = False
        out.append((n, sorted(anchors), ok))
    return out



def _returns_flag(f, attr):
    """(ok, why): every normally finishing path of `f` returns `self.<attr>` as it is at the return: either the
    attribute itself or a local whose reaching definitions (bound 3) are all plain copies of it with no suspension
    point between the copy and the return (a copy taken before an await is stale)."""
    g = f.cfg
    susp = set(g.suspension_nodes())
    rets = [n for n in g.nodes.values() if n.kind == "return"]
    if not rets:
        return False, "no return statement"
    if g.escape(g.entry, [n.id for n in rets], targets=[g.exit]) is not None:
        return False, "a path finishes without a return"

    def flag(e, use, uid, depth):
        if e is None:
            return False
        if is_self_attr(e, attr):
            return True
        if not isinstance(e, ast.Name) or depth <= 0:
            return False
        ds = reaching_defs(f, e.id, use)
        if not ds:
            return False
        for d in ds:
            if d.kind not in ("assign", "walrus") or d.index is not None or d.value is None:
                return False
            ids = _def_node_ids(g, d)
            if not ids:
                return False
            for di in ids:
                if g.nodes[di].has_await():
                    return False
                after = g.reach([di])
                if any(s in after and uid in g.reach([s]) for s in susp if s != uid):
                    return False
                if not flag(d.value, d.stmt, di, depth - 1):
                    return False
        return True

    for r in rets:
        if not flag(r.ast.value, r.ast, r.id, 3):
            return False, f"`{r.text(60)}` is not the current value of self.{attr}"
    return True, ""


def _state_paths(ctx, f, what):
    """Paths of an executor method with the atoms CL = `self._closed`, CG = `self._closing is not None`."""
    from ._util_B import Unfoldable, explore

    def classify(e):
        if is_self_attr(e, "_closed"):
            return "CL"
        if isinstance(e, ast.Compare) and len(e.ops) == 1 and is_self_attr(e.left, "_closing") and isinstance(e.comparators[0], ast.Constant) \
                and e.comparators[0].value is None:
            if isinstance(e.ops[0], (ast.IsNot, ast.NotEq)):
                return "CG"
            if isinstance(e.ops[0], (ast.Is, ast.Eq)):
                return "!CG"
        if is_self_attr(e, "_closing"):
            return "CG"
        return None

    try:
        return explore(f.cfg, classify, max_iter=1)
    except Unfoldable as e:
        ctx.require(False, f"C04.R4: {what}() cannot be folded: {e}")


def _cancel_rule(ctx):
    p = ctx.prog
    f = p.func(f"{EXEC}._cancel")
    g = f.cfg
    ps = [x for x in f.params if x != "self"]
    ctx.require(len(ps) == 1, "C04.R4: _cancel signature changed")
    ok, why = False, "no loop over the given tasks"
    for lp in [n for n in f.body_nodes() if isinstance(n, ast.For) and isinstance(n.target, ast.Name)]:
        if not whole(f, lp.iter, lambda e: is_param(f, e, ps[0]), ordered=False):
            continue
        inner = {id(x) for x in ast.walk(lp)}
        cn = [n.id for n in g.nodes.values() if any(
            id(c) in inner and method_call(c, "cancel") and is_name(c.func.value, lp.target.id) for c in node_calls(g, n))]
        hid = g.ids_of(lp)
        ok, why = loop_unconditional(g, hid[0], cn) if hid else (False, "no CFG node")
        state = [n.id for n in g.nodes.values() if n.kind == "test" and any(
            is_self_attr(x, "_closed") or is_self_attr(x, "_closing") for x in ast.walk(n.ast))]
        if ok and g.escape(g.entry, hid + state) is not None:
            ok, why = False, "the cancel loop can be skipped"
    if ok:
        closed_set = [n.id for n in g.nodes.values() if n.kind == "stmt" and isinstance(n.ast, ast.Assign) and any(
            is_self_attr(t, "_closed") for t in n.ast.targets) and isinstance(n.ast.value, ast.Constant) and n.ast.value.value is True]
        if not closed_set or any(g.escape(h, closed_set) is not None for h in hid):
            ok, why = False, "the executor is not marked closed afterwards"
    ctx.ob("R4", "_cancel cancels every task it is given", ok, func=f, node=f.node, instance="_cancel:all",
           message=f"_cancel does not cancel every pending task ({why}): the executor keeps waiting for them")


def _collected_and_gathered(f, g, call, loop) -> bool:
    """`tasks.append(create_task(<call>))` in a loop followed on every path by `await asyncio.gather(*tasks)`."""
    if not isinstance(loop, ast.For):
        return False
    coll = None
    for a in ancestors(call):
        if method_call(a, "append") and isinstance(a.func.value, ast.Name):
            coll = a.func.value.id
            break
        if isinstance(a, ast.stmt):
            break
    if coll is None:
        return False
    gathers = [n.id for n in g.nodes.values() if any(
        isinstance(x, ast.Await) and isinstance(x.value, ast.Call) and (dotted(x.value.func) or "").split(".")[-1] in ("gather", "wait")
        and any((isinstance(y, ast.Starred) and is_name(y.value, coll)) or is_name(y, coll) for y in x.value.args)
        for x in n.walk())]
    heads = g.ids_of(loop)
    return bool(gathers) and bool(heads) and g.escape(heads[0], gathers) is None


def _not_terminated(e, v) -> bool:
    return (isinstance(e, ast.UnaryOp) and isinstance(e.op, ast.Not) and isinstance(e.operand, ast.Attribute)
            and e.operand.attr == "terminated" and is_name(e.operand.value, v))


# --------------------------------------------------------------------------- R5


def _result_names(h, call) -> set[str]:
    """Locals of `h` that receive the value of `call` (awaited or not): `x = await call`, `x: T = ...`, `(x := ...)`,
    `x += ...`, `x.extend(...)`."""
    e = call
    while isinstance(parent(e), ast.Await) or (
            isinstance(parent(e), ast.Call) and (dotted(parent(e).func) or "").split(".")[-1] == "cast" and e in parent(e).args[1:]):
        e = parent(e)
    up = parent(e)
    out = set()
    if isinstance(up, ast.Assign) and up.value is e:
        out |= {t.id for t in up.targets if isinstance(t, ast.Name)}
    elif isinstance(up, (ast.AnnAssign, ast.AugAssign)) and up.value is e and isinstance(up.target, ast.Name):
        out.add(up.target.id)
    elif isinstance(up, ast.NamedExpr) and up.value is e:
        out.add(up.target.id)
    elif method_call(up, "extend") and isinstance(up.func.value, ast.Name) and up.args and up.args[0] is e:
        out.add(up.func.value.id)
    return out


def _returned_names(h) -> set[str]:
    """Names `h` returns, with the locals they were plainly copied from (`res = statuses; return res`, bound 2)."""
    return _copied_from(h, {n.value.id for n in h.body_nodes() if isinstance(n, ast.Return) and isinstance(n.value, ast.Name)})


def _copied_from(h, names: set[str]) -> set[str]:
    """`names` plus the locals of `h` they were plainly copied from (`res = statuses`, bound 2)."""
    out = set(names)
    for _ in range(2):
        for name in list(out):
            for n in h.body_nodes():
                if isinstance(n, ast.Assign) and isinstance(n.value, ast.Name) and any(is_name(t, name) for t in n.targets):
                    out.add(n.value.id)
    return out


def _reduced_names(h) -> set[str]:
    """Locals of `h` that end up in `_reduce_statuses(<name>)` (also through a plain copy)."""
    return _copied_from(h, {c.args[0].id for c in h.calls() if (dotted(c.func) or "").endswith("_reduce_statuses") and c.args and isinstance(c.args[0], ast.Name)})


def r5(ctx):
    p = ctx.prog
    run = p.func(f"{XSTEP}.run")
    # the task loop of run(): in run() itself or moved wholesale into a method run() awaits (resolved `self.m(...)`, bound 2)
    sites = [(h, w, via) for h, w, via in _loop_sites(p, run) if not isinstance(w.test, ast.Constant)]
    ctx.require(len(sites) == 1, "C04.R5: ExecuteStep.run (with the methods it awaits) no longer has exactly one task loop")
    f, w, via = sites[0]
    where = "ExecuteStep.run" if f is run else f"{f.cls.name}.{f.name} (task loop of ExecuteStep.run, awaited through " \
        + " -> ".join("self." + c.func.attr + "()" for _, c in via) + ")"
    g = f.cfg
    head = g.ids_of(w.test)[0]
    body = loop_body_nodes(g, head)
    # the set of pending tasks: second result of asyncio.wait assigned in the loop
    pend = set()
    for i in body:
        a = g.nodes[i].ast
        if isinstance(a, ast.Assign) and isinstance(a.targets[0], ast.Tuple) and len(a.targets[0].elts) == 2:
            v = strip_cast(a.value)
            if isinstance(v, ast.Call) and (dotted(v.func) or "").endswith("asyncio.wait") and isinstance(a.targets[0].elts[1], ast.Name):
                pend.add(a.targets[0].elts[1].id)
    ctx.require(bool(pend), f"C04.R5: the pending-task set of asyncio.wait was not found in {where}")
    # statuses recorded in the loop
    rec = []
    for i in body:
        for c in node_calls(g, g.nodes[i]):
            if method_call(c, "append") and isinstance(c.func.value, ast.Name) and len(c.args) == 1:
                lst = c.func.value.id
                # the list that ends up in _reduce_statuses(...) at the final terminate
                rec.append((i, c, lst))
    # ... directly, or as the value the loop's method returns into such a list of its caller
    names = _reduced_names(run)
    for (caller, call), callee in zip(via, [x for x, _ in via][1:] + [f]):
        nxt = _reduced_names(callee)
        if _result_names(caller, call) & _copied_from(caller, names):
            nxt |= _returned_names(callee)
        names = nxt
    rec = [(i, c, lst) for i, c, lst in rec if lst in names]
    ctx.require(len(rec) >= 2, f"C04.R5: only {len(rec)} status-recording sites found in the task loop of {where}")
    for i, c, lst in rec:
        val = c.args[0]
        label = unparse(val)[:50]
        ok, why = False, "no FAILED/CANCELLED test on the recorded status next to it"
        for n in g.nodes.values():
            if n.kind != "test" or n.id not in body:
                continue
            relevant, edge, rest, tdefs = _failing_form_at(p, f, g, n.id, lambda subj: subj == unparse(val) or subj == f"{lst}[-1]")
            if not relevant or not (g.dominates(n.id, i) or g.dominates(i, n.id)):
                continue
            # a temporary the test reads (`_s = statuses[-1]`) must have been taken after the status was recorded
            if any(not g.dominates(i, di) for di in tdefs) and not g.dominates(n.id, i):
                continue
            if edge is None or rest:
                why = "the guard next to it is not taken exactly for FAILED/CANCELLED"
                continue
            tsucc = branch_succ(g, n.id, edge)
            region = g.reach(tsucc, avoid=[head, n.id], include_src=True)
            cancel_ok = False
            for lp in [x for x in f.body_nodes() if isinstance(x, ast.For) and isinstance(x.target, ast.Name)]:
                hid = g.ids_of(lp)
                if not hid or hid[0] not in region:
                    continue
                if not whole(f, lp.iter, lambda e: isinstance(e, ast.Name) and e.id in pend, ordered=False):
                    continue
                inner = {id(x) for x in ast.walk(lp)}
                cn = [j for j in g.nodes if any(
                    id(x) in inner and method_call(x, "cancel") and not x.args and is_name(x.func.value, lp.target.id) for x in node_calls(g, g.nodes[j]))]
                if loop_unconditional(g, hid[0], cn)[0]:
                    if all(s == hid[0] or g.path(s, [head], avoid=hid) is None for s in tsucc):
                        cancel_ok = True
            if not cancel_ok:
                why = "the guard does not cancel every task of the pending set"
            else:
                ok, why = True, ""
                break
        ctx.ob("R5", f"ExecuteStep.run: recording `{label}` cancels all pending tasks when it is FAILED/CANCELLED", ok, func=f, node=c,
               instance=f"execute.run:cancel:{label}", message=f"{where} records `{label}` but {why}: pending jobs keep running after a failure")


    _run_job_statuses(ctx)


def _run_job_statuses(ctx):
    """A job that raised is reported FAILED (CANCELLED when cancelled), never as a success."""
    p = ctx.prog
    f = p.func(f"{XSTEP}._run_job")
    g = f.cfg
    rets = [n for n in g.nodes.values() if n.kind == "return"]
    names = {n.ast.value.id for n in rets if isinstance(n.ast.value, ast.Name)}
    ctx.require(bool(rets), "C04.R5: ExecuteStep._run_job has no return")
    single = len(names) == 1 and all(isinstance(n.ast.value, ast.Name) for n in rets)
    ctx.ob("R5", "ExecuteStep._run_job returns the status variable set by its handlers", single, func=f, node=rets[0].ast, instance="_run_job:return",
           message="ExecuteStep._run_job does not return the job status computed by its exception handlers")
    if not single:
        return
    name = names.pop()
    assigns = {}
    for n in g.nodes.values():
        if n.kind == "stmt" and isinstance(n.ast, ast.Assign) and any(is_name(t, name) for t in n.ast.targets):
            assigns[n.id] = status_const(p, f, n.ast.value)
    handlers = [h for tr in f.body_nodes() if isinstance(tr, ast.Try) for h in tr.handlers]
    ctx.require(bool(handlers), "C04.R5: ExecuteStep._run_job has no exception handler")
    ret_ids = {n.id for n in rets}

    def reaching_at(target: int) -> set:
        """assignment nodes of `name` (or None = unassigned) that may reach `target` (all edge kinds)"""
        out, seen, stack = set(), set(), [(g.entry, None)]
        while stack:
            i, last = stack.pop()
            if (i, last) in seen:
                continue
            seen.add((i, last))
            if i == target:
                out.add(last)
            # an assignment whose right-hand side raises does not take effect
            for b2, k in g.succ[i]:
                stack.append((b2, i if (i in assigns and k != "exc") else last))
        return out

    for h in handlers:
        kinds = _handler_kinds(h)
        if kinds == {"KeyboardInterrupt"}:
            continue
        ok, why = True, ""
        for hn in g.ids_of(h):
            at_handler = reaching_at(hn)
            seen, stack = set(), [(hn, None)]
            finals = set()
            while stack:
                i, last = stack.pop()
                if (i, last) in seen:
                    continue
                seen.add((i, last))
                if i in ret_ids:
                    finals |= ({last} if last is not None else at_handler)
                    continue
                for b2, k in g.succ[i]:
                    if k in NORMAL:
                        stack.append((b2, i if i in assigns else last))
            bad = [x for x in finals if x is None or assigns.get(x) not in FAILING]
            if bad:
                x = bad[0]
                ok, why = False, ("the status variable may be unassigned" if x is None else
                                  f"`{g.nodes[x].text(50)}` is the status returned after the handler")
        ctx.ob("R5", f"ExecuteStep._run_job: `except {', '.join(sorted(kinds))}` reports the job as FAILED/CANCELLED", ok, func=f, node=h,
               instance=f"_run_job:handler:{'+'.join(sorted(kinds))}",
               message=f"ExecuteStep._run_job: {why}: a failed job is reported as successful and the workflow goes on")


# --------------------------------------------------------------------------- R6


class _Unsupported(Exception):
    pass


class _Return(Exception):
    def __init__(self, v):
        self.v = v


class _Break(Exception):
    pass


class _Continue(Exception):
    pass


class _Interp:
    """Interprets the small statement language of `_reduce_statuses` over abstract values:
    ints, bools, None, ('S', member) and python lists of those.  Any other construct raises
    _Unsupported (-> analysis error).  No code of /repo is executed."""

    def __init__(self, prog, f):
        self.p, self.f = prog, f
        self.steps = 0
        self._sc: dict[int, str | None] = {}

    def _status(self, e):
        k = id(e)
        if k not in self._sc:
            self._sc[k] = status_const(self.p, self.f, e) if isinstance(e, ast.Attribute) else None
        return self._sc[k]

    def call(self, args: dict):
        env = dict(args)
        try:
            self.block(self.f.node.body, env)
        except _Return as r:
            return r.v
        return None

    def block(self, stmts, env):
        for s in stmts:
            self.stmt(s, env)

    def stmt(self, s, env):
        self.steps += 1
        if self.steps > 20000:
            raise _Unsupported("too many steps")
        if isinstance(s, ast.Expr):
            if isinstance(s.value, ast.Constant):
                return
            if isinstance(s.value, ast.Call) and (dotted(s.value.func) or "").split(".")[0] == "logger":
                return
            raise _Unsupported(unparse(s))
        if isinstance(s, ast.Pass):
            return
        if isinstance(s, (ast.Assign, ast.AnnAssign)):
            if s.value is None:
                return
            tgts = s.targets if isinstance(s, ast.Assign) else [s.target]
            v = self.ev(s.value, env)
            for t in tgts:
                if not isinstance(t, ast.Name):
                    raise _Unsupported(unparse(s))
                env[t.id] = v
            return
        if isinstance(s, ast.AugAssign) and isinstance(s.target, ast.Name):
            a, b = env[s.target.id], self.ev(s.value, env)
            if not (isinstance(a, int) and isinstance(b, int)):
                raise _Unsupported(unparse(s))
            if isinstance(s.op, ast.Add):
                env[s.target.id] = a + b
            elif isinstance(s.op, ast.Sub):
                env[s.target.id] = a - b
            else:
                raise _Unsupported(unparse(s))
            return
        if isinstance(s, ast.Return):
            raise _Return(self.ev(s.value, env) if s.value is not None else None)
        if isinstance(s, ast.If):
            self.block(s.body if self.truth(self.ev(s.test, env)) else s.orelse, env)
            return
        if isinstance(s, ast.For) and isinstance(s.target, ast.Name):
            it = self.ev(s.iter, env)
            if not isinstance(it, list):
                raise _Unsupported(unparse(s.iter))
            broke = False
            for x in it:
                env[s.target.id] = x
                try:
                    self.block(s.body, env)
                except _Break:
                    broke = True
                    break
                except _Continue:
                    continue
            if not broke:
                self.block(s.orelse, env)
            return
        if isinstance(s, ast.Break):
            raise _Break()
        if isinstance(s, ast.Continue):
            raise _Continue()
        if isinstance(s, ast.Match):
            subj = self.ev(s.subject, env)
            for c in s.cases:
                if self.match(c.pattern, subj, env) and (c.guard is None or self.truth(self.ev(c.guard, env))):
                    self.block(c.body, env)
                    return
            return
        raise _Unsupported(type(s).__name__ + ": " + unparse(s)[:60])

    def match(self, pat, subj, env) -> bool:
        if isinstance(pat, ast.MatchValue):
            return self.ev(pat.value, env) == subj
        if isinstance(pat, ast.MatchOr):
            return any(self.match(x, subj, env) for x in pat.patterns)
        if isinstance(pat, ast.MatchAs):
            if pat.pattern is not None and not self.match(pat.pattern, subj, env):
                return False
            if pat.name:
                env[pat.name] = subj
            return True
        raise _Unsupported("pattern " + type(pat).__name__)

    @staticmethod
    def truth(v) -> bool:
        if isinstance(v, tuple):
            # IntEnum truthiness is not needed by the function; refuse rather than guess
            raise _Unsupported("truth value of a Status")
        return bool(v)

    def ev(self, e, env):
        if isinstance(e, ast.Constant):
            if isinstance(e.value, (int, bool)) or e.value is None:
                return e.value
            raise _Unsupported(unparse(e))
        if isinstance(e, ast.Name):
            if e.id in env:
                return env[e.id]
            raise _Unsupported("name " + e.id)
        m = self._status(e)
        if m is not None:
            return ("S", m)
        if isinstance(e, (ast.List, ast.Tuple, ast.Set)):
            out = []
            for x in e.elts:
                if isinstance(x, ast.Starred):
                    out.extend(self.ev(x.value, env))
                else:
                    out.append(self.ev(x, env))
            return out
        if isinstance(e, ast.UnaryOp) and isinstance(e.op, ast.Not):
            return not self.truth(self.ev(e.operand, env))
        if isinstance(e, ast.UnaryOp) and isinstance(e.op, ast.USub):
            v = self.ev(e.operand, env)
            if isinstance(v, int):
                return -v
        if isinstance(e, ast.BoolOp):
            res = None
            for x in e.values:
                res = self.ev(x, env)
                if isinstance(e.op, ast.And) and not self.truth(res):
                    return res
                if isinstance(e.op, ast.Or) and self.truth(res):
                    return res
            return res
        if isinstance(e, ast.IfExp):
            return self.ev(e.body if self.truth(self.ev(e.test, env)) else e.orelse, env)
        if isinstance(e, ast.BinOp) and isinstance(e.op, (ast.Add, ast.Sub)):
            a, b = self.ev(e.left, env), self.ev(e.right, env)
            if isinstance(a, int) and isinstance(b, int):
                return a + b if isinstance(e.op, ast.Add) else a - b
            raise _Unsupported(unparse(e))
        if isinstance(e, ast.Compare):
            left = self.ev(e.left, env)
            for op, r in zip(e.ops, e.comparators):
                right = self.ev(r, env)
                if isinstance(op, (ast.Eq, ast.Is)):
                    res = left == right
                elif isinstance(op, (ast.NotEq, ast.IsNot)):
                    res = left != right
                elif isinstance(op, ast.In):
                    res = left in right
                elif isinstance(op, ast.NotIn):
                    res = left not in right
                elif isinstance(left, int) and isinstance(right, int) and not isinstance(left, tuple):
                    res = {ast.Lt: left < right, ast.LtE: left <= right, ast.Gt: left > right, ast.GtE: left >= right}[type(op)]
                else:
                    raise _Unsupported(unparse(e))
                if not res:
                    return False
                left = right
            return True
        if isinstance(e, ast.Subscript) and not isinstance(e.slice, ast.Slice):
            v, i = self.ev(e.value, env), self.ev(e.slice, env)
            if isinstance(v, list) and isinstance(i, int) and -len(v) <= i < len(v):
                return v[i]
            raise _Unsupported(unparse(e))
        if isinstance(e, (ast.GeneratorExp, ast.ListComp)) and len(e.generators) == 1 and isinstance(e.generators[0].target, ast.Name):
            gen = e.generators[0]
            it = self.ev(gen.iter, env)
            if not isinstance(it, list):
                raise _Unsupported(unparse(e))
            out = []
            for x in it:
                env2 = dict(env)
                env2[gen.target.id] = x
                if all(self.truth(self.ev(c, env2)) for c in gen.ifs):
                    out.append(self.ev(e.elt, env2))
            return out
        if isinstance(e, ast.Call) and isinstance(e.func, ast.Name) and len(e.args) == 1 and not e.keywords:
            v = self.ev(e.args[0], env)
            if e.func.id == "len" and isinstance(v, list):
                return len(v)
            if e.func.id in ("any", "all") and isinstance(v, list):
                return (any if e.func.id == "any" else all)(self.truth(x) for x in v)
            if e.func.id == "sum" and isinstance(v, list) and all(isinstance(x, (int, bool)) for x in v):
                return sum(v)
            if e.func.id in ("list", "tuple") and isinstance(v, list):
                return list(v)
        if isinstance(e, ast.Call) and method_call(e, "count") and len(e.args) == 1:
            v = self.ev(e.func.value, env)
            if isinstance(v, list):
                return v.count(self.ev(e.args[0], env))
        raise _Unsupported(unparse(e)[:80])


def r6(ctx):
    p = ctx.prog
    f = p.func(REDUCE)
    ps = f.params
    ctx.require(len(ps) == 1, "C04.R6: _reduce_statuses signature changed")
    members = status_members(p)
    need = {"FAILED", "CANCELLED", "SKIPPED", "RECOVERED", "COMPLETED"}
    ctx.require(need <= set(members), "C04.R6: Status lost one of FAILED/CANCELLED/SKIPPED/RECOVERED/COMPLETED")
    # members the function never names are indistinguishable for it (only ==, in, match are folded;
    # ordering comparisons of statuses are refused by the interpreter): one representative suffices
    named = {m for x in ast.walk(f.node) if (m := status_const(p, f, x)) is not None}
    others = [m for m in members if m not in named and m not in need]
    domain = [m for m in members if m in named or m in need] + others[:1]
    clauses = {
        "failing": ["FAILED/CANCELLED in the list => the result is a FAILED/CANCELLED member of the list", None],
        "skipped": ["no failure and every status SKIPPED => SKIPPED", None],
        "recovered": ["no failure, not all SKIPPED, some RECOVERED => RECOVERED", None],
        "completed": ["otherwise => COMPLETED", None],
        "failed_first": ["a FAILED recorded before every CANCELLED of the list => FAILED (later cancellations do not hide the failure)", None],
    }
    cancelled_first = None
    n_runs = 0
    interp = _Interp(p, f)
    for k in (1, 2, 3):
        for combo in itertools.product(domain, repeat=k):
            interp.steps = 0
            try:
                res = interp.call({ps[0]: [("S", m) for m in combo]})
            except _Unsupported as e:
                ctx.require(False, f"C04.R6: _reduce_statuses uses a construct the interpreter does not fold: {e}")
            except (KeyError, IndexError, TypeError) as e:
                ctx.require(False, f"C04.R6: _reduce_statuses cannot be interpreted: {e!r}")
            n_runs += 1
            got = res[1] if isinstance(res, tuple) else repr(res)
            s = set(combo)
            if s & FAILING:
                key, ok = "failing", got in (s & FAILING)
            elif s == {"SKIPPED"}:
                key, ok = "skipped", got == "SKIPPED"
            elif "RECOVERED" in s:
                key, ok = "recovered", got == "RECOVERED"
            else:
                key, ok = "completed", got == "COMPLETED"
            if not ok and clauses[key][1] is None:
                clauses[key][1] = f"_reduce_statuses({list(combo)}) = {got}"
            if "FAILED" in s:
                if "CANCELLED" not in s or combo.index("FAILED") < combo.index("CANCELLED"):
                    if got != "FAILED" and clauses["failed_first"][1] is None:
                        clauses["failed_first"][1] = f"_reduce_statuses({list(combo)}) = {got}"
                elif got != "FAILED" and cancelled_first is None:
                    cancelled_first = f"_reduce_statuses({list(combo)}) = {got}"
    for key, (text, cex) in clauses.items():
        ctx.ob("R6", f"_reduce_statuses: {text}", cex is None, func=f, node=f.node, instance=f"reduce:{key}",
               message=f"status algebra broken ({text}): {cex}")
    ctx.observe(f"C04.R6 interpreted _reduce_statuses on {n_runs} status lists (length 1..3 over {domain})")
    if cancelled_first is not None:
        ctx.observe(f"C04.R6 (not armed) a CANCELLED recorded before a FAILED hides the failure: {cancelled_first}")
    # _get_status preserves FAILED
    gs = p.func(f"{BASE}._get_status")
    sp = [x for x in gs.params if x != "self"]
    ctx.require(len(sp) == 1, "C04.R6: _get_status signature changed")
    g = gs.cfg
    seen, stack, rets = set(), [g.entry], []
    while stack:
        i = stack.pop()
        if i in seen:
            continue
        seen.add(i)
        n = g.nodes[i]
        if n.kind == "return":
            rets.append(n)
            continue
        if n.kind == "test":
            r = fold_status_guard(p, gs, n.ast)
            if r is not None and r[0] == sp[0]:
                stack += branch_succ(g, i, "t" if "FAILED" in r[1] else "f")
                continue
        stack += [b for b, k in g.succ[i] if k in NORMAL]
    ok = bool(rets) and all(
        n.ast.value is not None and (is_param(gs, n.ast.value, sp[0]) or status_const(p, gs, n.ast.value) == "FAILED") for n in rets
    ) and g.exit not in seen
    ctx.ob("R6", "_get_status(FAILED) is FAILED", ok, func=gs, node=gs.node, instance="get_status:failed",
           message="_get_status can turn FAILED into another status: the step's failure is hidden from the executor and from downstream steps")


RULES = [("R1", r1), ("R2", r2), ("R3", r3), ("R4", r4), ("R5", r5), ("R6", r6)]
# R1: 4 terminate clauses + token/status ordering + 1 _set_status; R2: 15 run() + 10 handlers; R3: 12 while loops + 1 re-arming helper (ExecuteStep._check_inputs)
# R4: 11 executor instances; R5: 2 recording sites + return + 3 _run_job handlers
FLOORS = {"R1": 6, "R2": 25, "R3": 13, "R4": 11, "R5": 3, "R6": 6}

_S = "streamflow.workflow.step."
_TERM = f"{BASE}.terminate"

VARIANTS = [
    # ---- R1
    V("terminate without the loop over output ports", SFILE, _TERM, "for port in self.get_output_ports().values():\n            port.put(TerminationToken(status))",
      "self.get_output_port().put(TerminationToken(status))", "R1", control=True),
    V("terminate serves only the first output port", SFILE, _TERM, "in self.get_output_ports().values():", "in list(self.get_output_ports().values())[:1]:", "R1"),
    V("terminate sets the flag after the first await", SFILE, _TERM,
      "self.terminated = True\n        if status != Status.CANCELLED:", "await self._set_status(status)\n        self.terminated = True\n        if status != Status.CANCELLED:", "R1"),
    V("terminate not idempotent", SFILE, _TERM, "if not self.terminated:", "if True:", "R1"),
    V("terminate guard inverted", SFILE, _TERM, "if not self.terminated:", "if self.terminated:", "R1"),
    V("terminate puts a fixed status", SFILE, _TERM, "TerminationToken(status)", "TerminationToken(Status.COMPLETED)", "R1"),
    V("terminate skips ports when cancelled", SFILE, _TERM, "port.put(TerminationToken(status))", "if status != Status.CANCELLED:\n                port.put(TerminationToken(status))", "R1"),
    V("terminate does not record the status", SFILE, _TERM, "await self._set_status(status)\n        ", "", "R1"),
    V("terminate records the status only when failed", SFILE, _TERM, "await self._set_status(status)", "if status == Status.FAILED:\n            await self._set_status(status)", "R1"),
    # ---- R1 (e)/(f): the in-memory status is written before anything can suspend once the termination tokens are out
    V("_set_status assigns self.status after the database write", CFILE, f"{STEP}._set_status",
      "self.status = status\n    if self.persistent_id is not None:\n        await self.workflow.context.database.update_step(self.persistent_id, {'status': status.value})",
      "if self.persistent_id is not None:\n        await self.workflow.context.database.update_step(self.persistent_id, {'status': status.value})\n    self.status = status", "R1"),
    V("_set_status assigns self.status only for persisted steps", CFILE, f"{STEP}._set_status",
      "self.status = status\n    if self.persistent_id is not None:", "if self.persistent_id is not None:\n        self.status = status", "R1"),
    V("_set_status stores a fixed status", CFILE, f"{STEP}._set_status", "self.status = status", "self.status = Status.COMPLETED", "R1"),
    V("terminate suspends between the puts and the status write", SFILE, _TERM, "await self._set_status(status)", "await asyncio.sleep(0)\n        await self._set_status(status)", "R1"),
    V("terminate suspends inside the put loop", SFILE, _TERM, "port.put(TerminationToken(status))", "port.put(TerminationToken(status))\n            await asyncio.sleep(0)", "R1"),
    V("terminate persists the status itself before the in-memory write", SFILE, _TERM, "await self._set_status(status)",
      "if self.persistent_id is not None:\n            await self.workflow.context.database.update_step(self.persistent_id, {'status': status.value})\n        self.status = status", "R1"),
    V("benign: terminate records the status before it puts the tokens", SFILE, _TERM,
      "for port in self.get_output_ports().values():\n            port.put(TerminationToken(status))\n        await self._set_status(status)",
      "await self._set_status(status)\n        for port in self.get_output_ports().values():\n            port.put(TerminationToken(status))", None),
    V("benign: terminate writes the status itself, then persists it", SFILE, _TERM, "await self._set_status(status)",
      "final = status\n        self.status = final\n        await asyncio.sleep(0)\n        await self._set_status(final)", None),
    V("benign: _set_status with a temporary and a guard clause", CFILE, f"{STEP}._set_status",
      "if self.persistent_id is not None:\n        await self.workflow.context.database.update_step(self.persistent_id, {'status': status.value})",
      "pid = self.persistent_id\n    new_status = status\n    if pid is None:\n        return\n    await self.workflow.context.database.update_step(pid, {'status': new_status.value})", None),
    V("benign: _set_status with an annotated assignment and logging", CFILE, f"{STEP}._set_status", "self.status = status",
      "logger.debug('status change')\n    current: Status = status\n    self.status = current", None),
    # ---- R2
    V("final terminate deleted in ScatterStep.run", SFILE, _S + "ScatterStep.run", "\n    await self.terminate(self._get_status(status))", "", "R2", control=True),
    V("terminate not awaited in GatherStep.run", SFILE, _S + "GatherStep.run", "await self.terminate(self._get_status(status))", "self.terminate(self._get_status(status))", "R2"),
    V("early return before terminate in CombinatorStep.run", SFILE, _S + "CombinatorStep.run", "    await self.terminate(self._get_status(status))",
      "    if status == Status.SKIPPED:\n        return\n    await self.terminate(self._get_status(status))", "R2"),
    V("return on the termination branch of LoopOutputStep.run", SFILE, _S + "LoopOutputStep.run", "if not self.token_map:\n                break", "if not self.token_map:\n                return", "R2"),
    V("Transformer.run terminates only on the empty-input branch", SFILE, _S + "Transformer.run",
      "            status = Status.COMPLETED\n        await self.terminate(self._get_status(status))", "            status = Status.COMPLETED\n            await self.terminate(self._get_status(status))", "R2"),
    V("Transformer.run swallows exceptions", SFILE, _S + "Transformer.run", "logger.exception(e)\n        await self.terminate(Status.FAILED)", "logger.exception(e)", "R2"),
    V("ScheduleStep.run reports a failure as COMPLETED", SFILE, _S + "ScheduleStep.run", "await self.terminate(Status.FAILED)", "await self.terminate(Status.COMPLETED)", "R2"),
    V("DeployStep.run cancel handler does not terminate", SFILE, _S + "DeployStep.run", "await self.terminate(Status.CANCELLED)", "pass", "R2"),
    V("TransferStep.run failure handler falls through to the normal status", SFILE, _S + "TransferStep.run", "logger.exception(e)\n            await self.terminate(Status.FAILED)", "logger.exception(e)", "R2"),
    V("ConditionalStep.run handlers swapped", SFILE, _S + "ConditionalStep.run",
      "await self.terminate(Status.CANCELLED)\n    except Exception as e:\n        logger.exception(e)\n        await self.terminate(Status.FAILED)",
      "await self.terminate(Status.FAILED)\n    except Exception as e:\n        logger.exception(e)\n        await self.terminate(Status.CANCELLED)", "R2"),
    V("wrapper run() does not delegate", TFILE, "streamflow.workflow.transformer.OneToManyTransformer.run", "await super().run()", "pass", "R2"),
    V("new sibling step without terminate", SFILE, None, None, None, "R2",
      append="class EchoStep(BaseStep):\n    async def run(self) -> None:\n        token = await self.get_input_port().get(self.name)\n        self.get_output_port().put(token)\n"),
    # ---- R3
    V("ScatterStep.run never leaves its loop", SFILE, _S + "ScatterStep.run", "status = token.value\n            break", "status = token.value", "R3"),
    V("InputInjectorStep.run exit not controlled by termination", SFILE, _S + "InputInjectorStep.run", "if check_termination(token) or job is None:", "if job is None:", "R3"),
    V("ScheduleStep.run breaks on non-termination", SFILE, _S + "ScheduleStep.run", "if check_termination(inputs.values()):", "if not check_termination(inputs.values()):", "R3"),
    V("CombinatorStep.run always re-arms", SFILE, _S + "CombinatorStep.run", "if task_name not in terminated:", "if True:", "R3"),
    V("CombinatorStep.run forgets which ports terminated", SFILE, _S + "CombinatorStep.run", "terminated.append(task_name)\n", "pass\n", "R3"),
    V("GatherStep.run re-arms after a termination token", SFILE, _S + "GatherStep.run",
      "                unfinished.add(asyncio.create_task(port.get(posixpath.join(self.name, task_name)), name=task_name))",
      "            unfinished.add(asyncio.create_task(self.get_input_port(task_name).get(posixpath.join(self.name, task_name)), name=task_name))", "R3"),
    V("LoopCombinatorStep.run does not test for termination", SFILE, _S + "LoopCombinatorStep.run", "if check_termination(token):", "if False:", "R3"),
    V("GatherStep.run never re-arms", SFILE, _S + "GatherStep.run",
      "\n                unfinished.add(asyncio.create_task(port.get(posixpath.join(self.name, task_name)), name=task_name))", "", "R3"),
    # ---- R3: helper of the task loop re-arms after the end of the job stream (get_job() -> None)
    V("_check_inputs re-arms retrieve_inputs although the job port terminated", SFILE, _S + "ExecuteStep._check_inputs",
      "\n        unfinished.add(asyncio.create_task(self._get_inputs(input_ports), name='retrieve_inputs'))",
      "\n    unfinished.add(asyncio.create_task(self._get_inputs(input_ports), name='retrieve_inputs'))", "R3", control=True),
    V("_check_inputs job test inverted", SFILE, _S + "ExecuteStep._check_inputs", "is not None:", "is None:", "R3"),
    V("_check_inputs re-arms before it looks at the job", SFILE, _S + "ExecuteStep._check_inputs",
      "    if (job := (await cast(JobPort, self.get_input_port('__job__')).get_job(self.name))) is not None:",
      "    job = await cast(JobPort, self.get_input_port('__job__')).get_job(self.name)\n    if job is None:\n        logger.debug('no job')\n    unfinished.add(asyncio.create_task(self._get_inputs(input_ports), name='next_inputs'))\n    if job is not None:", "R3"),
    V("_check_inputs re-arms on `not job` with the branches swapped", SFILE, _S + "ExecuteStep._check_inputs",
      "    if (job := (await cast(JobPort, self.get_input_port('__job__')).get_job(self.name))) is not None:\n        _group_by_tag(inputs, inputs_map)",
      "    current = await cast(JobPort, self.get_input_port('__job__')).get_job(self.name)\n    job = current\n    if not job:\n        unfinished.add(asyncio.create_task(self._get_inputs(input_ports), name='retrieve_inputs'))\n    else:\n        _group_by_tag(inputs, inputs_map)", "R3"),
    V("_check_inputs never looks at the job it read", SFILE, _S + "ExecuteStep._check_inputs",
      "    if (job := (await cast(JobPort, self.get_input_port('__job__')).get_job(self.name))) is not None:",
      "    job = await cast(JobPort, self.get_input_port('__job__')).get_job(self.name)\n    if len(inputs) > 0:", "R3"),
    V("benign: _check_inputs with a temporary and a flag for the job test", SFILE, _S + "ExecuteStep._check_inputs",
      "    if (job := (await cast(JobPort, self.get_input_port('__job__')).get_job(self.name))) is not None:",
      "    job_port = cast(JobPort, self.get_input_port('__job__'))\n    job = await job_port.get_job(self.name)\n    has_job = job is not None\n    if has_job:", None),
    V("benign: _check_inputs with an early return on the terminated job port", SFILE, _S + "ExecuteStep._check_inputs",
      "    if (job := (await cast(JobPort, self.get_input_port('__job__')).get_job(self.name))) is not None:",
      "    job = await cast(JobPort, self.get_input_port('__job__')).get_job(self.name)\n    if job is None:\n        logger.debug('job port terminated')\n        return\n    if True:", None),
    V("benign: _check_inputs builds the re-arm task in a local first", SFILE, _S + "ExecuteStep._check_inputs",
      "\n        unfinished.add(asyncio.create_task(self._get_inputs(input_ports), name='retrieve_inputs'))",
      "\n        next_read = asyncio.create_task(self._get_inputs(input_ports), name='retrieve_inputs')\n        unfinished.add(next_read)", None),
    # ---- R4
    V("benign: logging before close() in _wait_outputs", EFILE, f"{EXEC}._wait_outputs",
      "if len(self.received) == len(self.workflow.output_ports):\n                    await self.close()",
      "if len(self.received) == len(self.workflow.output_ports):\n                    pass\n                    logger.debug('all output ports terminated')\n                    await self.close()", None),
    V("_wait_outputs does something else before it would close", EFILE, f"{EXEC}._wait_outputs",
      "if len(self.received) == len(self.workflow.output_ports):\n                    await self.close()",
      "if len(self.received) == len(self.workflow.output_ports):\n                    if output_tokens:\n                        await self.close()", "R4"),
    V("_handle_exception swallows without close()", EFILE, f"{EXEC}._handle_exception", "await self.close()\n        ", "", "R4", control=True),
    V("_handle_exception re-raises instead of closing", EFILE, f"{EXEC}._handle_exception", "await self.close()\n        return None", "raise", "R4"),
    V("close() skips the first step", EFILE, f"{EXEC}.close", "in self.workflow.steps.values() if", "in list(self.workflow.steps.values())[1:] if", "R4"),
    V("close() terminates only terminated steps", EFILE, f"{EXEC}.close", "if not step.terminated", "if step.terminated", "R4"),
    V("close() terminates only waiting steps", EFILE, f"{EXEC}.close", "if not step.terminated", "if not step.terminated and step.status == Status.WAITING", "R4"),
    V("close() does not await the terminations", EFILE, f"{EXEC}.close", "await asyncio.gather(*(", "list((", "R4"),
    V("close() marks steps COMPLETED", EFILE, f"{EXEC}.close", "step.terminate(Status.CANCELLED)", "step.terminate(Status.COMPLETED)", "R4"),
    V("status check removed from executor.run", EFILE, f"{EXEC}.run", "if step.status in [Status.FAILED, Status.CANCELLED]:\n                raise WorkflowExecutionException('FAILED Workflow execution')", "pass", "R4"),
    V("status check ignores CANCELLED", EFILE, f"{EXEC}.run", "in [Status.FAILED, Status.CANCELLED]:", "in [Status.FAILED]:", "R4"),
    V("status check only logs", EFILE, f"{EXEC}.run", "raise WorkflowExecutionException('FAILED Workflow execution')", "logger.error('FAILED Workflow execution')", "R4"),
    V("early return before the status check", EFILE, f"{EXEC}.run", "for step in self.workflow.steps.values():\n            if step.status in",
      "if not self.workflow.persistent_id:\n            return output_tokens\n        for step in self.workflow.steps.values():\n            if step.status in", "R4"),
    V("steps run without _handle_exception", EFILE, f"{EXEC}.run", "asyncio.create_task(self._handle_exception(asyncio.create_task(step.run())), name=step.name)", "asyncio.create_task(step.run(), name=step.name)", "R4"),
    V("executor.run handler does not close", EFILE, f"{EXEC}.run", "await self.close()\n        raise", "raise", "R4"),
    V("executor.run handler swallows", EFILE, f"{EXEC}.run", "await self.close()\n        raise", "await self.close()\n        return {}", "R4"),
    V("_wait_outputs ignores failed termination tokens", EFILE, f"{EXEC}._wait_outputs", "await self._cancel(unfinished)\n                return output_tokens", "return output_tokens", "R4"),
    V("_wait_outputs cancels only on FAILED", EFILE, f"{EXEC}._wait_outputs", "in (Status.CANCELLED, Status.FAILED):", "in (Status.FAILED,):", "R4"),
    # ---- R5
    V("cancel loop removed from the termination branch", SFILE, _S + "ExecuteStep.run",
      "if statuses[-1] in (Status.CANCELLED, Status.FAILED):\n                            for t in unfinished:\n                                t.cancel()", "pass", "R5"),
    V("cancel loop removed from the job-result branch", SFILE, _S + "ExecuteStep.run",
      "if job_status in (Status.CANCELLED, Status.FAILED):\n                        for t in unfinished:\n                            t.cancel()\n                    ", "", "R5"),
    V("job-result branch cancels only on CANCELLED", SFILE, _S + "ExecuteStep.run", "if job_status in (Status.CANCELLED, Status.FAILED):", "if job_status in (Status.CANCELLED,):", "R5"),
    V("termination branch tests the wrong status", SFILE, _S + "ExecuteStep.run", "if statuses[-1] in (Status.CANCELLED, Status.FAILED):", "if statuses[0] in (Status.CANCELLED, Status.FAILED):", "R5"),
    V("job-result branch cancels the finished tasks", SFILE, _S + "ExecuteStep.run",
      "if job_status in (Status.CANCELLED, Status.FAILED):\n                        for t in unfinished:", "if job_status in (Status.CANCELLED, Status.FAILED):\n                        for t in finished:", "R5"),
    V("termination branch cancels one task only", SFILE, _S + "ExecuteStep.run",
      "for t in unfinished:\n                                t.cancel()", "for t in unfinished:\n                                t.cancel()\n                                break", "R5"),
    V("_run_job reports an exception as COMPLETED", SFILE, _S + "ExecuteStep._run_job", "logger.error(err)\n        job_status = Status.FAILED\n    finally:", "logger.error(err)\n        job_status = Status.COMPLETED\n    finally:", "R5"),
    V("benign: _run_job default status unused by the handlers", SFILE, _S + "ExecuteStep._run_job", "job_status = Status.FAILED\n    try:", "job_status = Status.COMPLETED\n    try:", None),
    V("benign: _run_job cancel handler keeps the failing default", SFILE, _S + "ExecuteStep._run_job", "job_status = Status.CANCELLED", "pass", None),
    V("_run_job resets the status in finally", SFILE, _S + "ExecuteStep._run_job", "finally:\n        await", "finally:\n        job_status = Status.COMPLETED\n        await", "R5"),
    V("close() acts only when already closed", EFILE, f"{EXEC}.close", "if self._closed:\n        return", "if not self._closed:\n        return", "R4"),
    V("close() never marks the executor closed", EFILE, f"{EXEC}.close", "\n        self._closed = True", "", "R4"),
    V("closed() constant", EFILE, f"{EXEC}.closed", "return self._closed", "return False", "R4"),
    V("executor.run does not wait for the steps", EFILE, f"{EXEC}.run", "await asyncio.gather(*self.executions)", "pass", "R4"),
    V("_wait_outputs cancels the finished tasks", EFILE, f"{EXEC}._wait_outputs", "await self._cancel(unfinished)", "await self._cancel(finished)", "R4"),
    V("_wait_outputs never closes", EFILE, f"{EXEC}._wait_outputs", "if len(self.received) == len(self.workflow.output_ports):\n                    await self.close()", "pass", "R4"),
    V("_wait_outputs closes after the first port", EFILE, f"{EXEC}._wait_outputs", "if len(self.received) == len(self.workflow.output_ports):", "if len(self.received) >= 1:", "R4"),
    V("Transformer.run re-raises cancellation without terminating", SFILE, _S + "Transformer.run", "except asyncio.CancelledError:\n        await self.terminate(Status.CANCELLED)", "except asyncio.CancelledError:\n        raise", "R2"),
    V("_run_job returns a constant", SFILE, _S + "ExecuteStep._run_job", "return job_status", "return Status.COMPLETED", "R5"),
    V("_cancel forgets to cancel", EFILE, f"{EXEC}._cancel", "for task in tasks:\n            task.cancel()\n        ", "", "R4"),
    # ---- fix5: spelling-agnostic recognisers (temporaries before a return, swapped branches, guard clauses, `and`-joined tests)
    V("benign: closed() returns the flag through a temporary", EFILE, f"{EXEC}.closed", "return self._closed", "_sf_ret = self._closed\n    return _sf_ret", None),
    V("benign: closed() returns the flag through two temporaries", EFILE, f"{EXEC}.closed", "return self._closed", "flag = self._closed\n    result = flag\n    return result", None),
    V("closed() returns a copy of the flag taken before it waits for the closing event", EFILE, f"{EXEC}.closed",
      "if self._closing is not None:\n        await self._closing.wait()\n    return self._closed",
      "state = self._closed\n    if self._closing is not None:\n        await self._closing.wait()\n    return state", "R4"),
    V("closed() returns a temporary that holds something else", EFILE, f"{EXEC}.closed", "return self._closed", "_sf_ret = self._closing is not None\n    return _sf_ret", "R4"),
    V("closed() returns the flag on one path only", EFILE, f"{EXEC}.closed", "return self._closed", "if self._closed:\n        return self._closed", "R4"),
    V("benign: _wait_outputs status test with swapped branches", EFILE, f"{EXEC}._wait_outputs",
      "if token.value in (Status.CANCELLED, Status.FAILED):\n                await self._cancel(unfinished)\n                return output_tokens\n            else:\n                self.received.append(task_name)\n                if len(self.received) == len(self.workflow.output_ports):\n                    await self.close()",
      "if not token.value in (Status.CANCELLED, Status.FAILED):\n                self.received.append(task_name)\n                if len(self.received) == len(self.workflow.output_ports):\n                    await self.close()\n            else:\n                await self._cancel(unfinished)\n                return output_tokens", None),
    V("benign: _wait_outputs with both tests swapped (elif chain)", EFILE, f"{EXEC}._wait_outputs",
      "if isinstance(token, TerminationToken):\n            if token.value in (Status.CANCELLED, Status.FAILED):\n                await self._cancel(unfinished)\n                return output_tokens\n            else:\n                self.received.append(task_name)\n                if len(self.received) == len(self.workflow.output_ports):\n                    await self.close()\n        else:\n            output_tokens[task_name] = get_token_value(token)\n            if task_name not in self.received:\n                self.output_tasks[task_name] = asyncio.create_task(self._handle_exception(asyncio.create_task(self.workflow.get_output_port(task_name).get(output_consumer))), name=task_name)",
      "if not isinstance(token, TerminationToken):\n            output_tokens[task_name] = get_token_value(token)\n            if task_name not in self.received:\n                self.output_tasks[task_name] = asyncio.create_task(self._handle_exception(asyncio.create_task(self.workflow.get_output_port(task_name).get(output_consumer))), name=task_name)\n        elif token.value not in (Status.CANCELLED, Status.FAILED):\n            self.received.append(task_name)\n            if len(self.received) == len(self.workflow.output_ports):\n                await self.close()\n        else:\n            await self._cancel(unfinished)\n            return output_tokens", None),
    V("benign: _wait_outputs termination and status tests joined by `and`", EFILE, f"{EXEC}._wait_outputs",
      "if isinstance(token, TerminationToken):\n            if token.value in (Status.CANCELLED, Status.FAILED):\n                await self._cancel(unfinished)\n                return output_tokens\n            else:\n                self.received.append(task_name)",
      "if isinstance(token, TerminationToken) and token.value in (Status.CANCELLED, Status.FAILED):\n            await self._cancel(unfinished)\n            return output_tokens\n        elif isinstance(token, TerminationToken):\n            if False:\n                pass\n            else:\n                self.received.append(task_name)", None),
    V("benign: _wait_outputs close test spelled with != and an else", EFILE, f"{EXEC}._wait_outputs",
      "if len(self.received) == len(self.workflow.output_ports):\n                    await self.close()",
      "if len(self.received) != len(self.workflow.output_ports):\n                    pass\n                else:\n                    await self.close()", None),
    V("_wait_outputs swapped branches, cancels only on FAILED", EFILE, f"{EXEC}._wait_outputs",
      "if token.value in (Status.CANCELLED, Status.FAILED):\n                await self._cancel(unfinished)\n                return output_tokens\n            else:\n                self.received.append(task_name)\n                if len(self.received) == len(self.workflow.output_ports):\n                    await self.close()",
      "if token.value not in (Status.FAILED,):\n                self.received.append(task_name)\n                if len(self.received) == len(self.workflow.output_ports):\n                    await self.close()\n            else:\n                await self._cancel(unfinished)\n                return output_tokens", "R4"),
    V("_wait_outputs status test negated without swapping the branches", EFILE, f"{EXEC}._wait_outputs",
      "if token.value in (Status.CANCELLED, Status.FAILED):", "if token.value not in (Status.CANCELLED, Status.FAILED):", "R4"),
    V("_wait_outputs cancels on a failed token only under a further condition", EFILE, f"{EXEC}._wait_outputs",
      "if token.value in (Status.CANCELLED, Status.FAILED):", "if token.value in (Status.CANCELLED, Status.FAILED) and unfinished:", "R4"),
    V("_wait_outputs close test negated without swapping the branches", EFILE, f"{EXEC}._wait_outputs",
      "if len(self.received) == len(self.workflow.output_ports):", "if len(self.received) != len(self.workflow.output_ports):", "R4"),
    V("benign: executor.run status check as a guard clause", EFILE, f"{EXEC}.run",
      "if step.status in [Status.FAILED, Status.CANCELLED]:\n                raise WorkflowExecutionException('FAILED Workflow execution')",
      "if step.status not in [Status.FAILED, Status.CANCELLED]:\n                continue\n            raise WorkflowExecutionException('FAILED Workflow execution')", None),
    V("executor.run status check negated", EFILE, f"{EXEC}.run", "if step.status in [Status.FAILED, Status.CANCELLED]:", "if step.status not in [Status.FAILED, Status.CANCELLED]:", "R4"),
    V("executor.run raises for a failed step only under a further condition", EFILE, f"{EXEC}.run",
      "if step.status in [Status.FAILED, Status.CANCELLED]:", "if step.status in [Status.FAILED, Status.CANCELLED] and output_tokens:", "R4"),
    V("benign: ExecuteStep.run job-result test with swapped branches", SFILE, _S + "ExecuteStep.run",
      "if job_status in (Status.CANCELLED, Status.FAILED):\n                        for t in unfinished:\n                            t.cancel()\n                    statuses.append(job_status)",
      "if job_status not in (Status.CANCELLED, Status.FAILED):\n                        pass\n                    else:\n                        for t in unfinished:\n                            t.cancel()\n                    statuses.append(job_status)", None),
    V("ExecuteStep.run job-result test negated", SFILE, _S + "ExecuteStep.run", "if job_status in (Status.CANCELLED, Status.FAILED):", "if job_status not in (Status.CANCELLED, Status.FAILED):", "R5"),
    # ---- R6
    V("FAILED reduced to CANCELLED constant swap", SFILE, REDUCE, "case Status.FAILED:\n                return Status.FAILED", "case Status.FAILED:\n                return Status.COMPLETED", "R6"),
    V("CANCELLED no longer dominates", SFILE, REDUCE, "            case Status.CANCELLED:\n                return Status.CANCELLED\n", "", "R6"),
    V("any SKIPPED gives SKIPPED", SFILE, REDUCE, "elif num_skipped == len(statuses):", "elif num_skipped >= 1:", "R6"),
    V("RECOVERED loses against COMPLETED", SFILE, REDUCE, "if recovered:\n        return Status.RECOVERED\n    elif", "if", "R6"),
    V("skip counter off by one", SFILE, REDUCE, "num_skipped = 0", "num_skipped = 1", "R6"),
    # fix10: CANCELLED anywhere in the list hides an earlier FAILED (fast path hoisted before the scan)
    V("CANCELLED fast path before the scan (in-loop case removed)", SFILE, REDUCE,
      "    num_skipped = 0\n    recovered = False\n    for status in statuses:\n        match status:\n            case Status.FAILED:\n                return Status.FAILED\n            case Status.CANCELLED:\n                return Status.CANCELLED\n",
      "    if Status.CANCELLED in statuses:\n        return Status.CANCELLED\n    num_skipped = 0\n    recovered = False\n    for status in statuses:\n        match status:\n            case Status.FAILED:\n                return Status.FAILED\n", "R6"),
    V("CANCELLED fast path spelled with any()", SFILE, REDUCE, "    num_skipped = 0\n",
      "    if any((s == Status.CANCELLED for s in statuses)):\n        return Status.CANCELLED\n    num_skipped = 0\n", "R6"),
    V("FAILED only remembered, CANCELLED returned first after the scan", SFILE, REDUCE,
      "            case Status.FAILED:\n                return Status.FAILED\n            case Status.CANCELLED:\n                return Status.CANCELLED\n",
      "            case Status.FAILED:\n                if statuses.count(Status.CANCELLED) > 0:\n                    return Status.CANCELLED\n                return Status.FAILED\n            case Status.CANCELLED:\n                return Status.CANCELLED\n", "R6"),
    V("benign: FAILED fast path before the scan", SFILE, REDUCE, "    num_skipped = 0\n",
      "    if len(statuses) > 0 and statuses[0] == Status.FAILED:\n        return Status.FAILED\n    num_skipped = 0\n", None),
    V("_get_status hides FAILED behind SKIPPED", SFILE, f"{BASE}._get_status", "if status == Status.FAILED:\n        return status\n    elif status == Status.RECOVERED:", "if status == Status.RECOVERED:", "R6"),
    V("_get_status compares with the wrong member", SFILE, f"{BASE}._get_status", "if status == Status.FAILED:", "if status == Status.CANCELLED:", "R6"),
    # ---- benign
    V("benign: rename the guard variable", SFILE, _S + "CombinatorStep.run", "terminated", "closed_ports", None, count=3),
    V("benign: terminate moved into a finally", SFILE, _S + "ScatterStep.run",
      "    while True:\n        token = await input_port.get(posixpath.join(self.name, next(iter(self.input_ports))))\n        if isinstance(token, TerminationToken):\n            status = token.value\n            break\n        else:\n            await self._scatter(token)\n    await self.terminate(self._get_status(status))",
      "    status = Status.FAILED\n    try:\n        while True:\n            token = await input_port.get(posixpath.join(self.name, next(iter(self.input_ports))))\n            if isinstance(token, TerminationToken):\n                status = token.value\n                break\n            else:\n                await self._scatter(token)\n    finally:\n        await self.terminate(self._get_status(status))", None),
    V("benign: terminate through a helper method", SFILE, None, "    async def run(self) -> None:\n        if len(self.input_ports) != 1:\n            raise WorkflowDefinitionException('Scatter step must contain a single input port.')",
      "    async def _finish(self, status: Status) -> None:\n        logger.debug('finishing')\n        await self.terminate(self._get_status(status))\n\n    async def run(self) -> None:\n        if len(self.input_ports) != 1:\n            raise WorkflowDefinitionException('Scatter step must contain a single input port.')", None),
    V("benign: loop body extracted into a helper", SFILE, _S + "CombinatorStep.run",
      "async for schema in cast(AsyncIterable, self.combinator.combine(task_name, token)):\n                        ins = [in_id for t in schema.values() for in_id in t['input_ids']]\n                        for port_name, new_token in schema.items():\n                            self.get_output_port(port_name).put(await self._persist_token(token=new_token['token'], port=self.get_output_port(port_name), input_token_ids=ins))",
      "await self._emit(task_name, token)", None),
    V("benign: logging and temporaries in terminate", SFILE, _TERM, "for port in self.get_output_ports().values():\n            port.put(TerminationToken(status))",
      "outputs = self.get_output_ports()\n        logger.debug(f'terminating {len(outputs)} ports')\n        for out_port in list(outputs.values()):\n            out_port.put(TerminationToken(status))", None),
    V("benign: terminate with early return", SFILE, _TERM, "if not self.terminated:\n        self.terminated = True", "if self.terminated:\n        return\n    if True:\n        self.terminated = True", None),
    V("benign: close() with a for loop and a local", EFILE, f"{EXEC}.close",
      "await asyncio.gather(*(asyncio.create_task(step.terminate(Status.CANCELLED)) for step in self.workflow.steps.values() if not step.terminated))",
      "pending = []\n        for step in list(self.workflow.steps.values()):\n            if not step.terminated:\n                pending.append(asyncio.create_task(step.terminate(Status.CANCELLED)))\n        await asyncio.gather(*pending)", None),
    V("benign: status check with == / or", EFILE, f"{EXEC}.run", "if step.status in [Status.FAILED, Status.CANCELLED]:", "if step.status == Status.FAILED or step.status == Status.CANCELLED:", None),
    V("benign: reordered cancel test and record", SFILE, _S + "ExecuteStep.run",
      "if job_status in (Status.CANCELLED, Status.FAILED):\n                        for t in unfinished:\n                            t.cancel()\n                    statuses.append(job_status)",
      "statuses.append(job_status)\n                    if job_status == Status.FAILED or job_status == Status.CANCELLED:\n                        for pending_task in list(unfinished):\n                            pending_task.cancel()", None),
    V("benign: _reduce_statuses as an if-chain", SFILE, REDUCE,
      "        match status:\n            case Status.FAILED:\n                return Status.FAILED\n            case Status.CANCELLED:\n                return Status.CANCELLED\n            case Status.SKIPPED:\n                num_skipped += 1\n            case Status.RECOVERED:\n                recovered = True",
      "        if status in (Status.FAILED, Status.CANCELLED):\n            return status\n        elif status == Status.SKIPPED:\n            num_skipped += 1\n        elif status is Status.RECOVERED:\n            recovered = True", None),
    V("benign: flag-controlled loop instead of while True", SFILE, _S + "ScatterStep.run",
      "    while True:\n        token = await input_port.get(posixpath.join(self.name, next(iter(self.input_ports))))\n        if isinstance(token, TerminationToken):\n            status = token.value\n            break\n        else:",
      "    done = False\n    while not done:\n        token = await input_port.get(posixpath.join(self.name, next(iter(self.input_ports))))\n        if isinstance(token, TerminationToken):\n            status = token.value\n            done = True\n        else:", None),
    V("flag-controlled loop whose flag is never set", SFILE, _S + "ScatterStep.run",
      "    while True:\n        token = await input_port.get(posixpath.join(self.name, next(iter(self.input_ports))))\n        if isinstance(token, TerminationToken):\n            status = token.value\n            break\n        else:",
      "    done = False\n    while not done:\n        token = await input_port.get(posixpath.join(self.name, next(iter(self.input_ports))))\n        if isinstance(token, TerminationToken):\n            status = token.value\n        else:", "R3"),
    V("benign: reordered independent statements in GatherStep.run", SFILE, _S + "GatherStep.run", "keys_completed = set()\n    status = Status.SKIPPED", "status = Status.SKIPPED\n    keys_completed = set()", None),
]


# ---- fix7: the anchored construct moved into a cooperating method / changed idiom (loop with a raise -> any())
def _ind(text: str, n: int) -> str:
    return "\n".join((" " * n + ln) if ln else ln for ln in text.split("\n"))


_XLOOP = (
    "statuses = []\n"
    "inputs_map: dict[str, dict[str, Token]] = {}\n"
    "unfinished = {asyncio.create_task(self._get_inputs(input_ports), name='retrieve_inputs')}\n"
    "while unfinished:\n"
    "    finished, unfinished = await asyncio.wait(unfinished, return_when=asyncio.FIRST_COMPLETED)\n"
    "    for task in finished:\n"
    "        if task.cancelled():\n"
    "            continue\n"
    "        if task.get_name() == 'retrieve_inputs':\n"
    "            inputs = task.result()\n"
    "            if check_termination(inputs.values()):\n"
    "                statuses.append(_reduce_statuses([t.value for t in inputs.values()]))\n"
    "                if statuses[-1] in (Status.CANCELLED, Status.FAILED):\n"
    "                    for t in unfinished:\n"
    "                        t.cancel()\n"
    "            else:\n"
    "                await self._check_inputs(inputs, input_ports, inputs_map, connectors, unfinished)\n"
    "        else:\n"
    "            job_status = task.result()\n"
    "            if job_status in (Status.CANCELLED, Status.FAILED):\n"
    "                for t in unfinished:\n"
    "                    t.cancel()\n"
    "            statuses.append(job_status)"
)
_XREST = (
    "elif (job := (await cast(JobPort, self.get_input_port('__job__')).get_job(self.name))) is not None:\n"
    "    statuses = [await self._run_job(job, {}, connectors)]\n"
    "else:\n"
    "    statuses = [Status.SKIPPED]\n"
    "await asyncio.gather(*(asyncio.create_task(p.get(posixpath.join(self.name, port_name))) for port_name, p in connector_ports.items()))\n"
    "await self.terminate(self._get_status(_reduce_statuses(statuses)))"
)
_XOLD = _ind(_XLOOP, 12) + "\n" + _ind(_XREST, 8)


def _xsplit(loop: str = _XLOOP, call: str = "statuses = await self._run_jobs(input_ports, connectors)", ret: str = "return statuses") -> str:
    """ExecuteStep (class text) with the task loop of run() moved wholesale into a second method."""
    return (_ind(call, 12) + "\n" + _ind(_XREST, 8) + "\n\n    async def _run_jobs(self, input_ports, connectors):\n"
            + _ind(loop, 8) + "\n" + _ind(ret, 8))


_ECHECK = "for step in self.workflow.steps.values():\n    if step.status in [Status.FAILED, Status.CANCELLED]:\n        raise WorkflowExecutionException('FAILED Workflow execution')"
_ERAISE = "raise WorkflowExecutionException('FAILED Workflow execution')"
_EANY = "any((step.status in [Status.FAILED, Status.CANCELLED] for step in self.workflow.steps.values()))"
_ETAIL = (
    "if self.workflow.persistent_id:\n"
    "    await self.workflow.context.database.update_workflow(self.workflow.persistent_id, {'status': Status.COMPLETED.value, 'end_time': time.time_ns()})\n"
    "return output_tokens"
)
_EHANDLER = (
    "except BaseException:\n"
    "    if self.workflow.persistent_id:\n"
    "        await self.workflow.context.database.update_workflow(self.workflow.persistent_id, {'status': Status.FAILED.value, 'end_time': time.time_ns()})\n"
    "    await self.close()\n"
    "    raise"
)
_EOLD = _ind(_ECHECK, 12) + "\n" + _ind(_ETAIL, 12) + "\n" + _ind(_EHANDLER, 8)


def _esplit(helper_body: str, call: str = "self._raise_if_failed()") -> str:
    """StreamFlowExecutor (class text) with the final status check of run() moved into a second method."""
    return (_ind(call, 12) + "\n" + _ind(_ETAIL, 12) + "\n" + _ind(_EHANDLER, 8) + "\n\n    def _raise_if_failed(self) -> None:\n"
            + _ind(helper_body, 8))


_ETASK = "asyncio.create_task(self._handle_exception(asyncio.create_task(step.run())), name=step.name)"
_ESTART = f"for step in self.workflow.steps.values():\n    execution = {_ETASK}\n    self.executions.append(execution)"


_EMID = _ind(
    "if self.workflow.persistent_id:\n"
    "    await self.workflow.context.database.update_workflow(self.workflow.persistent_id, {'status': Status.RUNNING.value})\n"
    "if self.workflow.output_ports:\n"
    "    output_consumer = utils.random_name()\n"
    "    for port_name, port in self.workflow.get_output_ports().items():\n"
    "        self.output_tasks[port_name] = asyncio.create_task(self._handle_exception(asyncio.create_task(port.get(output_consumer))), name=port_name)\n"
    "    while not await self.closed():\n"
    "        output_tokens = await self._wait_outputs(output_consumer, output_tokens)\n"
    "else:\n"
    "    await asyncio.gather(*self.executions)", 8)


def _estart(new: str):
    """executor.run with the loop that starts the steps replaced."""
    return dict(file=EFILE, target=f"{EXEC}.run", old=_ind(_ESTART, 8), new=_ind(new, 8))


def _erun(new: str):
    return dict(file=EFILE, target=f"{EXEC}.run", old=_ind(_ECHECK, 8), new=_ind(new, 8))


VARIANTS += [
    # B12-5: loop with a conditional raise -> any() over a generator (and its duals)
    V("benign: executor.run status check as any() over a generator", expect=None, **_erun(f"if {_EANY}:\n    {_ERAISE}")),
    V("benign: executor.run status check as `not all(...)`", expect=None,
      **_erun(f"if not all((step.status not in [Status.FAILED, Status.CANCELLED] for step in self.workflow.steps.values())):\n    {_ERAISE}")),
    V("benign: executor.run status check as any() held in a local, guard clause", expect=None,
      **_erun(f"failed = {_EANY}\nlogger.debug('checked')\nif not failed:\n    pass\nelse:\n    {_ERAISE}")),
    V("benign: executor.run status check as a non-empty list of failed steps", expect=None,
      **_erun(f"failed_steps = [s for s in list(self.workflow.steps.values()) if s.status == Status.FAILED or s.status == Status.CANCELLED]\nif failed_steps:\n    {_ERAISE}")),
    V("any() status check ignores CANCELLED", expect="R4", **_erun(f"if any((step.status in [Status.FAILED] for step in self.workflow.steps.values())):\n    {_ERAISE}")),
    V("any() status check looks at terminated steps only", expect="R4",
      **_erun(f"if any((step.status in [Status.FAILED, Status.CANCELLED] for step in self.workflow.steps.values() if step.terminated)):\n    {_ERAISE}")),
    V("any() status check skips the first step", expect="R4",
      **_erun(f"if any((step.status in [Status.FAILED, Status.CANCELLED] for step in list(self.workflow.steps.values())[1:])):\n    {_ERAISE}")),
    V("any() status check only logs", expect="R4", **_erun(f"if {_EANY}:\n    logger.error('FAILED Workflow execution')")),
    V("any() status check raises only under a further condition", expect="R4", **_erun(f"if {_EANY} and output_tokens:\n    {_ERAISE}")),
    V("any() status check raises on one path only", expect="R4", **_erun(f"if {_EANY}:\n    if output_tokens:\n        {_ERAISE}")),
    V("all() status check with the wrong polarity", expect="R4",
      **_erun(f"if not all((step.status in [Status.FAILED, Status.CANCELLED] for step in self.workflow.steps.values())):\n    {_ERAISE}")),
    V("any() verdict taken before a suspension point", expect="R4",
      **_erun(f"failed = {_EANY}\nawait asyncio.sleep(0)\nif failed:\n    {_ERAISE}")),
    V("any() verdict taken before the step tasks were awaited", EFILE, f"{EXEC}.run",
      "else:\n            await asyncio.gather(*self.executions)\n" + _ind(_ECHECK, 8),
      f"else:\n            failed = {_EANY}\n            await asyncio.gather(*self.executions)\n        if self.workflow.output_ports:\n            failed = {_EANY}\n        if failed:\n            {_ERAISE}", "R4"),
    V("loop status check raises on one path only", EFILE, f"{EXEC}.run", "                " + _ERAISE, "                if output_tokens:\n                    " + _ERAISE, "R4"),
    # ... and the check moved into a method run() calls
    V("benign: executor.run status check moved into a helper method", EFILE, EXEC, _EOLD, _esplit(_ECHECK), None),
    V("benign: executor.run status check moved into a helper method (any form)", EFILE, EXEC, _EOLD, _esplit(f"if {_EANY}:\n    {_ERAISE}"), None),
    V("status-check helper can return before it looked at the steps", EFILE, EXEC, _EOLD, _esplit("if not self.workflow.persistent_id:\n    return\n" + _ECHECK), "R4"),
    V("status-check helper ignores CANCELLED", EFILE, EXEC, _EOLD, _esplit(_ECHECK.replace("[Status.FAILED, Status.CANCELLED]", "[Status.FAILED]")), "R4"),
    V("status-check helper is a coroutine that is never awaited", EFILE, EXEC, _EOLD, _esplit(_ECHECK).replace("    def _raise_if_failed", "    async def _raise_if_failed"), "R4"),
    # B18-4: the loop that starts the steps written as `self.executions.extend(<generator over every step>)`
    V("benign: steps started by executions.extend over a generator", expect=None, **_estart(f"self.executions.extend(({_ETASK} for step in self.workflow.steps.values()))")),
    V("benign: steps started by executions += list comprehension", expect=None, **_estart(f"self.executions += [{_ETASK} for step in self.workflow.steps.values()]")),
    V("benign: steps started by a generator held in a local, then extend", expect=None,
      **_estart(f"tasks = ({_ETASK} for step in list(self.workflow.steps.values()))\nlogger.debug('starting')\nself.executions.extend(tasks)")),
    V("benign: B18-4 as a whole (extend over a generator, any() status check)", EFILE, f"{EXEC}.run", _ind(_ESTART, 8) + "\n" + _EMID + "\n" + _ind(_ECHECK, 8),
      _ind(f"self.executions.extend(({_ETASK} for step in self.workflow.steps.values()))", 8) + "\n" + _EMID + "\n" + _ind(f"if {_EANY}:\n    {_ERAISE}", 8), None),
    V("generator start: steps run without _handle_exception", expect="R4",
      **_estart("self.executions.extend((asyncio.create_task(step.run(), name=step.name) for step in self.workflow.steps.values()))")),
    V("generator start: _handle_exception wraps the generator, not each step", expect="R4",
      **_estart("self.executions.append(asyncio.create_task(self._handle_exception(asyncio.gather(*(step.run() for step in self.workflow.steps.values())))))")),
    V("generator start: only steps that have input ports are started", expect="R4",
      **_estart(f"self.executions.extend(({_ETASK} for step in self.workflow.steps.values() if step.input_ports))")),
    V("generator start: the first step is skipped", expect="R4",
      **_estart(f"self.executions.extend(({_ETASK} for step in list(self.workflow.steps.values())[1:]))")),
    V("generator start: a step is started only under a condition", expect="R4",
      **_estart(f"self.executions.extend((step.input_ports and {_ETASK} for step in self.workflow.steps.values()))")),
    V("generator start: the generator is never consumed", expect="R4",
      **_estart(f"tasks = ({_ETASK} for step in self.workflow.steps.values())\nself.executions.extend([])")),
    V("generator start: the generator is consumed on one path only", expect="R4",
      **_estart(f"tasks = ({_ETASK} for step in self.workflow.steps.values())\nif self.workflow.persistent_id:\n    self.executions.extend(tasks)")),
    V("generator start: consumed by a short-circuiting any()", expect="R4",
      **_estart(f"any(({_ETASK} for step in self.workflow.steps.values()))")),
    V("generator start: the tasks are not collected in self.executions", expect="R4",
      **_estart(f"started = [{_ETASK} for step in self.workflow.steps.values()]")),
    # B12-2: the task loop of ExecuteStep.run moved wholesale into a second method
    V("benign: ExecuteStep.run task loop moved into _run_jobs", SFILE, XSTEP, _XOLD, _xsplit(), None),
    V("benign: ExecuteStep.run task loop moved into _run_jobs, result through temporaries", SFILE, XSTEP, _XOLD,
      _xsplit(call="job_statuses = await self._run_jobs(input_ports, connectors)\nstatuses = job_statuses", ret="result = statuses\nreturn result"), None),
    V("split task loop: cancel loop removed from the termination branch", SFILE, XSTEP, _XOLD,
      _xsplit(_XLOOP.replace("                if statuses[-1] in (Status.CANCELLED, Status.FAILED):\n                    for t in unfinished:\n                        t.cancel()\n", "")), "R5"),
    V("split task loop: job-result branch cancels only on CANCELLED", SFILE, XSTEP, _XOLD,
      _xsplit(_XLOOP.replace("if job_status in (Status.CANCELLED, Status.FAILED):", "if job_status in (Status.CANCELLED,):")), "R5"),
    V("split task loop: never tests for a termination token", SFILE, XSTEP, _XOLD,
      _xsplit(_XLOOP.replace("if check_termination(inputs.values()):", "if len(inputs) == 0:")), "R3"),
    V("split task loop: re-arms retrieve_inputs after the termination token", SFILE, XSTEP, _XOLD,
      _xsplit(_XLOOP.replace("            if check_termination(inputs.values()):\n",
                             "            if check_termination(inputs.values()):\n                unfinished.add(asyncio.create_task(self._get_inputs(input_ports), name='retrieve_inputs'))\n")), "R3"),
]

# fx12: operands of a test held in a plain temporary (`_l = len(self.received)` / `if _l == ...`): the test is read through the
# single reaching definition of the local; a temporary taken before the state it reads was changed is a different test
_WCLOSE = "if len(self.received) == len(self.workflow.output_ports):"
_XTERM = "if statuses[-1] in (Status.CANCELLED, Status.FAILED):"
_XAPPEND = "statuses.append(_reduce_statuses([t.value for t in inputs.values()]))"
VARIANTS += [
    V("benign: _wait_outputs close test reads len(self.received) through a temporary", EFILE, f"{EXEC}._wait_outputs",
      _WCLOSE, "_sf_l1 = len(self.received)\n                if _sf_l1 == len(self.workflow.output_ports):", None),
    V("benign: _wait_outputs close test, both lengths through temporaries (chained copy, pass and logging in between)", EFILE, f"{EXEC}._wait_outputs",
      _WCLOSE, "n_out = len(self.workflow.output_ports)\n                n_got = len(self.received)\n                pass\n                seen = n_got\n"
               "                logger.debug('checking the output ports')\n                if not seen != n_out:", None),
    V("benign: ExecuteStep.run termination-branch status test through a temporary", SFILE, _S + "ExecuteStep.run",
      _XTERM, "_sf_l5 = statuses[-1]\n                        if _sf_l5 in (Status.CANCELLED, Status.FAILED):", None),
    V("benign: ExecuteStep.run job-result status test through a temporary", SFILE, _S + "ExecuteStep.run",
      "if job_status in (Status.CANCELLED, Status.FAILED):", "outcome = job_status\n                    if outcome in (Status.CANCELLED, Status.FAILED):", None),
    V("_wait_outputs close test: the length was taken before the port was recorded", EFILE, f"{EXEC}._wait_outputs",
      "self.received.append(task_name)\n                " + _WCLOSE,
      "n_got = len(self.received)\n                self.received.append(task_name)\n                if n_got == len(self.workflow.output_ports):", "R4"),
    V("_wait_outputs close test: the temporary holds another length", EFILE, f"{EXEC}._wait_outputs",
      _WCLOSE, "n_got = len(self.output_tasks)\n                if n_got == len(self.workflow.output_ports):", "R4"),
    V("ExecuteStep.run: the tested temporary was taken before the status was recorded", SFILE, _S + "ExecuteStep.run",
      _XAPPEND + "\n                        " + _XTERM,
      "last = statuses[-1]\n                        " + _XAPPEND + "\n                        if last in (Status.CANCELLED, Status.FAILED):", "R5"),
    V("ExecuteStep.run: the tested temporary holds the first recorded status", SFILE, _S + "ExecuteStep.run",
      _XTERM, "first = statuses[0]\n                        if first in (Status.CANCELLED, Status.FAILED):", "R5"),
    V("ExecuteStep.run: the tested temporary is re-bound before the test", SFILE, _S + "ExecuteStep.run",
      _XTERM, "last = statuses[-1]\n                        if inputs:\n                            last = Status.COMPLETED\n                        if last in (Status.CANCELLED, Status.FAILED):", "R5"),
]
